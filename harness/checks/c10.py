"""C10 - proximals and solver building blocks are safe when out is aliased to the input.

  1. TLC: ProxBodiesImpl - statement-level models of the proximal `_call` bodies that guard with `x is out`
     (L1, conj-L1, L2-squared and conj-L2-squared with element-valued step) on an aliased heap: the aliased
     call leaves in x what the plain call returns, for all small inputs.  (With PB_PINNED=1 the model carries
     the pinned tree's ProximalL1 body and TLC exhibits the defect as a counter-example.)
  2. Real code: every proximal factory x options (with/without data term g, scalar/element step, lam) x
     spaces (rn, weighted rn, discretised, product), every proximal obtained through the Functional API, every
     catalogue operator with domain == range (the building blocks solvers apply in place: linear combination,
     scaling, multiplication, translation, projections) and all V->V OpMachine programs (arithmetic wrappers):
     y = x.copy(); P(y, out=y) against P(x).  One event per call, validated by TLC (Trace_OpCall, mode "alias").
"""
import json
import os

import numpy as np
import odl

from ..tlc import run_tlc, parse_fails
from ..common import dumps, MachineryError
from .. import linops as L
from .. import opcatalog as C
from .. import oputil as U
from .c03 import dist, tol_unit, xbytes
import re


def proximal_recipes(tier=None):
    """Recipes of the first version (below) plus the systematic catalogue harness/proxcat.py (every factory x every keyword x
    space axes, all-pairs in the quick tier, plus a sample of the full product otherwise).  The tier is taken from the
    command line like harness/main.py does (`replay` gets the thorough list, which contains the quick one)."""
    import sys
    from .. import proxcat
    if tier is None:
        argv = sys.argv[1:]
        tier = os.environ.get('VERIF_TIER', 'quick')
        if '--tier' in argv:
            tier = argv[argv.index('--tier') + 1]
        if argv and argv[0] == 'replay':
            tier = 'thorough'
    R = []
    S = odl.solvers
    seen = set()

    def add(family, opts, fn):
        key = (family, tuple(sorted((k, str(v)) for k, v in opts.items())))
        if key in seen:
            return
        seen.add(key)
        R.append((family, dict(opts), fn))
    spaces = [('rn', odl.rn(3)), ('rn-120', odl.rn(120)), ('rn-const', odl.rn(3, weighting=2.0)),
              ('rn-array', odl.rn(3, weighting=[1.0, 2.0, 0.5])), ('discr', odl.uniform_discr(0, 2, 4))]
    for sn, sp in spaces:
        gs = [('none', None), ('elem', sp.one() * 0.5)]
        sigs = [('scalar', 0.5), ('element', sp.one() * 0.5 + sp.element(np.resize([0.0, 0.25, 0.5], sp.size).reshape(sp.shape)))]
        for fam in ('proximal_l1', 'proximal_convex_conj_l1', 'proximal_l2', 'proximal_convex_conj_l2', 'proximal_l2_squared',
                    'proximal_convex_conj_l2_squared', 'proximal_convex_conj_kl', 'proximal_convex_conj_kl_cross_entropy'):
            for gn, g in gs:
                for lam in (1, 2.0):
                    for sgn, sg in sigs:
                        add(fam, {'space': sn, 'g': gn, 'sigma': sgn, 'lam': str(lam)},
                            lambda fam=fam, sp=sp, g=g, lam=lam, sg=sg: getattr(S, fam)(sp, lam=lam, g=g)(sg))
        add('proximal_linfty', {'space': sn}, lambda sp=sp: S.proximal_linfty(sp)(0.5))
        add('proximal_convex_conj_linfty', {'space': sn}, lambda sp=sp: S.proximal_convex_conj_linfty(sp)(0.5))
        add('proximal_huber', {'space': sn}, lambda sp=sp: S.proximal_huber(sp, 0.5)(0.5))
        add('proximal_const_func', {'space': sn}, lambda sp=sp: S.proximal_const_func(sp)(0.5))
        add('proximal_box_constraint', {'space': sn, 'bounds': 'scalar'}, lambda sp=sp: S.proximal_box_constraint(sp, 0.75, 1.25)(0.5))
        add('proximal_box_constraint', {'space': sn, 'bounds': 'element'},
            lambda sp=sp: S.proximal_box_constraint(sp, sp.one() * 0.75, sp.one() * 1.25)(0.5))
        add('proximal_nonnegativity', {'space': sn}, lambda sp=sp: S.proximal_nonnegativity(sp)(0.5))
        base = S.proximal_l1(sp)
        add('proximal_translation', {'space': sn}, lambda sp=sp, base=base: S.proximal_translation(base, sp.one())(0.5))
        add('proximal_arg_scaling', {'space': sn, 'scaling': 'scalar'}, lambda base=base: S.proximal_arg_scaling(base, 2.0)(0.5))
        add('proximal_arg_scaling', {'space': sn, 'scaling': 'element'},
            lambda sp=sp, base=base: S.proximal_arg_scaling(base, sp.one() * 2)(0.5))
        add('proximal_quadratic_perturbation', {'space': sn, 'u': 'none'},
            lambda base=base: S.proximal_quadratic_perturbation(base, 0.5)(0.5))
        add('proximal_quadratic_perturbation', {'space': sn, 'u': 'elem'},
            lambda sp=sp, base=base: S.proximal_quadratic_perturbation(base, 0.5, u=sp.one())(0.5))
        add('proximal_convex_conj', {'space': sn}, lambda base=base: S.proximal_convex_conj(base)(0.5))
        add('proximal_composition', {'space': sn},
            lambda sp=sp, base=base: S.proximal_composition(base, odl.ScalingOperator(sp, 2.0), 4.0)(0.5))
    # vector fields / product spaces
    for bn, basesp in (('rn', odl.rn(3)), ('discr', odl.uniform_discr(0, 2, 4))):
        vf = odl.ProductSpace(basesp, 2)
        for fam in ('proximal_l1_l2', 'proximal_convex_conj_l1_l2'):
            for gn, g in (('none', None), ('elem', vf.one() * 0.5)):
                add(fam, {'space': 'pspace-' + bn, 'g': gn}, lambda fam=fam, vf=vf, g=g: getattr(S, fam)(vf, lam=1.5, g=g)(0.5))
        add('proximal_l1', {'space': 'pspace-' + bn, 'g': 'none'}, lambda vf=vf: S.proximal_l1(vf)(0.5))
        add('proximal_l2_squared', {'space': 'pspace-' + bn, 'g': 'elem'},
            lambda vf=vf: S.proximal_l2_squared(vf, g=vf.one())(0.5))
        add('combine_proximals', {'space': 'pspace-' + bn},
            lambda basesp=basesp: S.combine_proximals(S.proximal_l1(basesp), S.proximal_l2_squared(basesp))(0.5))
        add('proximal_huber', {'space': 'pspace-' + bn}, lambda vf=vf: S.proximal_huber(vf, 0.5)(0.5))
    for fam, opts, fn in proxcat.recipes(tier):
        add(fam, opts, fn)
    return R


# building blocks the shipped solvers apply in place (scaling, multiplication, translation, constants, identity)
SCOPE_CLASSES = ('ScalingOperator', 'IdentityOperator', 'MultiplyOperator', 'ZeroOperator', 'ConstantOperator',
                 'LinCombOperator', 'ufunc_ops.negative', 'ufunc_ops.positive')
# proximal operators substituted for the nonlinear leaves of OpMachine programs (arithmetic wrappers around proximals)
PROX_SUBST = {
    'sq': lambda sp: odl.solvers.proximal_l1(sp.V)(0.5),
    'shift': lambda sp: odl.solvers.proximal_box_constraint(sp.V, -0.5, 1.5)(0.5),
    'const': lambda sp: odl.solvers.proximal_convex_conj_l1(sp.V, lam=0.75)(0.5),
}


def alias_event(op, x, family):
    unit = tol_unit(op)
    ev = {'cls': family, 'mode': 'alias', 'in_range': True, 'ret_is_out': True, 'x_same': True, 'out_same': True,
          'dist': 0, 'raised': '', 'fill': ''}
    try:
        ref = op(x)
    except NotImplementedError:
        return None
    except Exception as ex:
        ev['raised'] = 'plain-call-' + type(ex).__name__
        return ev
    try:
        y = L.unflat(op.domain, L.flat(op.domain, x))
        r = op(y, out=y)
        ev['ret_is_out'] = r is y
        ev['dist'] = dist(op, y, ref, unit)
    except Exception as ex:
        ev['raised'] = type(ex).__name__
        ev['msg'] = str(ex)[:160]
    return ev


def run(ctx):
    quick = ctx.tier == 'quick'
    ctx.rule = ('(1) all cells of ProxBodiesImpl (4 proximal bodies x inputs x data term x step); (2) every proximal factory x '
                'options x spaces, every Functional-API proximal, every catalogue operator with domain == range and every '
                'V->V OpMachine program, each as y = x.copy(); P(y, out=y) vs P(x) at 2-3 inputs; distinct = hash(recipe, '
                'input index); non-trivial = P(x) differs from x')
    ctx.assumptions += ['aliased and plain results may differ by rounding: relative tolerance 1e-9',
                        'operators whose plain call raises are the business of C03/C07, not of C10 (counted, not alarmed)']
    work = ctx.work
    res = run_tlc('MC_ProxBodies.tla', 'MC_ProxBodies.cfg', work, env={'PB_PINNED': '0'}, workers=8, timeout=900)
    ctx.add_tlc('prox-bodies-impl', res)
    rng = np.random.default_rng(ctx.seed + 5)
    events, meta = [], []
    plain_raised = []
    unsafe = set()
    recipes = [('prox', f, o, fn) for f, o, fn in proximal_recipes()]
    for group, fam, opts, fn in C.all_recipes(ctx.tier):
        recipes.append((group, fam, opts, fn))
    for group, fam, opts, fn in recipes:
        try:
            op = fn()
        except Exception as ex:
            ctx.extra.setdefault('recipes_not_constructed', [])
            if len(ctx.extra['recipes_not_constructed']) < 40:
                ctx.extra['recipes_not_constructed'].append('%s %s (%s)' % (fam, opts, type(ex).__name__))
            continue
        if L.is_field(op.range) or op.domain != op.range:
            continue
        in_scope = group == 'prox' or fam in SCOPE_CLASSES or (
            fam.startswith('Functional.') and 'proximal' in opts.get('derived', '')) or fam.startswith('proximal_')
        for k in range(2 if quick else 5):
            x = C.random_point(op.domain, rng, positive=(k == 0))
            if k == 1 and 'kl' in fam.lower():
                x = C.random_point(op.domain, rng, positive=True)
            ev = alias_event(op, x, fam)
            if ev is None:
                break
            if ev['raised'].startswith('plain-call-'):
                plain_raised.append('%s %s' % (fam, opts))
                break
            try:
                nontriv = dist(op, op(x), x, 1e-9) > 10
            except Exception:
                nontriv = True
            ctx.count([fam, opts, k], nontriv)
            if not in_scope:
                # aliasing safety of other operators is not claimed by the property: informational only
                if ev['raised'] or ev['dist'] > 10 or not ev['ret_is_out']:
                    unsafe.add(fam)
                continue
            events.append(ev)
            meta.append((dict(opts, **{'class': fam, 'part': group}), fam, opts, k))
    # arithmetic wrappers: V->V OpMachine programs (real profile)
    out, res = U.export_programs(ctx, 'R', 's', 'alias')
    ctx.add_tlc('export-programs-R', res)
    sp = U.Spaces('R', big=False)
    spb = U.Spaces('R', big=True)
    nprog = 0
    for i, line in enumerate(U.load_lines(out)):
        if line['dom'] != 'V' or line['ran'] != 'V' or not line.get('supported', True):
            continue
        js = json.dumps(line['prog'])
        if not any('"t": "%s"' % k in js for k in PROX_SUBST) or '"t": "swap"' in js:
            continue        # wrappers around proximals only; "swap" is a deliberately non-alias-safe user operator
        for space in ((sp, spb) if (i + ctx.seed) % 7 == 0 else (sp,)):
            try:
                op = U.build(line['prog'], space, PROX_SUBST)
            except Exception:
                continue        # an expression the library cannot build is C04's business
            x = space.point('V', line['pts'][0])
            ev = alias_event(op, x, 'program')
            if ev is None or ev['raised'].startswith('plain-call-'):
                continue
            nprog += 1
            ctx.count([line['prog'], space.big], U.n_comb(line['prog']) >= 1)
            events.append(ev)
            meta.append(({'class': 'program', 'part': 'programs', 'top': U.top2(line['prog'])}, 'program', {'prog': line['prog'], 'big': space.big}, 0))
    ctx.extra['programs_checked'] = nprog
    ctx.extra['aliasing_unsafe_operators_outside_scope'] = sorted(unsafe)
    ctx.extra['plain_call_raised_not_alarmed'] = sorted(set(plain_raised))[:40]
    if not events:
        raise MachineryError('no aliased-call event recorded')
    p = os.path.join(work, 'alias.ndjson')
    with open(p, 'w') as f:
        for k, ev in enumerate(events):
            e = {k2: v for k2, v in ev.items() if k2 != 'msg'}
            e['id'] = k
            f.write(json.dumps(e) + '\n')
    res = run_tlc('Trace_OpCall.tla', 'Trace_OpCall.cfg', work, env={'TRACE_FILE': p}, workers=1, timeout=1500)
    ctx.add_tlc('trace-aliased-calls', res)
    ctx.traces += len(events)
    nfail = 0
    for _ln, k, cl in parse_fails(res.output):
        nfail += 1
        sig0, fam, opts, idx = meta[k]
        for clause, arg in re.findall(r'<<\s*"([\w-]+)",\s*"([^"]*)"\s*>>', cl):
            s = dict(sig0, clause=clause)
            if arg:
                s['arg'] = arg
            ctx.violation(s, {'class': fam, 'options': opts, 'input_index': idx, 'event': events[k]})
    ctx.extra['aliased_call_events'] = len(events)
    ctx.extra['aliased_call_events_rejected_by_tlc'] = nfail
    good = [e for e in events if not e['raised']]
    if good:
        ctx.sample({'aliased_call_event': good[len(good) // 2]})
        ctx.sample({'aliased_call_event': good[len(good) // 5]})
    ctx.exhaustive = True


def replay(body):
    d = body['detail']
    fam, opts = d['class'], d['options']
    op = None
    if fam == 'program':
        op = U.build(opts['prog'], U.Spaces('R', big=opts.get('big', False)), PROX_SUBST)
    else:
        for f, o, fn in proximal_recipes():
            if f == fam and o == opts:
                op = fn()
        if op is None:
            for g, f, o, fn in C.all_recipes('thorough'):
                if f == fam and o == opts:
                    op = fn()
    if op is None:
        print('recipe not found')
        return 2
    rng = np.random.default_rng(body.get('seed', 0) + 5)
    bad = False
    for k in range(3):
        x = C.random_point(op.domain, rng, positive=(k == 0))
        ev = alias_event(op, x, fam)
        print('input', k, 'event', dumps(ev))
        bad = bad or (ev is not None and (ev['raised'] or ev['dist'] > 10 or not ev['ret_is_out']))
    print('REPRODUCED' if bad else 'NOT-REPRODUCED')
    return 1 if bad else 0

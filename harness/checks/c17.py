"""C17 - NumPy ufuncs on elements behave like NumPy on the underlying arrays.

Pipeline (DESIGN 4/C17):
  1. TLC: UfuncMachine enumerates element kind x method x nin/nout class x shape (<= (2,3,2)) x axis subset x
     keepdims x out kind x operand order x dtype keyword; the protocol rules of layer A (spec/sem/UfuncSem.tla:
     ResShape / ResKind / ResDType) are total and consistent with the exact value semantics (ExactReduce ...),
     the methods satisfy their mutual laws; layer C (spec/impl/UfuncResSpaceImpl.tla: the hand-written
     result-space branches of the three element classes and writable_array) is checked against layer A.
  2. TLC exports every configuration with expected shape / kind and, for the exact integer-valued ufuncs, the
     expected values on the canonical operands; each is replayed on real elements (tensor / discretised /
     power spaces, int / float / complex dtypes, plain and weighted) with the exact ufuncs and a rotating window
     of all other ufuncs of its class.  A second sweep runs EVERY NumPy ufunc applicable to each dtype through
     every method and out kind.  Wrapping / asarray and the legacy x.ufuncs interface are observed as well.
  3. Every call is one event carrying, next to the observation, the reference NumPy computed on the raw arrays
     (the oracle the property names) and integer ulp distances; TLC validates all events with the total trace
     spec Trace_Ufunc and recomputes the values of the exact ufuncs itself.
"""
import json
import os
import random
import re
import time
from concurrent.futures import ThreadPoolExecutor

import numpy as np
import odl

from ..tlc import run_tlc, parse_fails
from ..common import dumps, MachineryError
from .. import c17_ufunc as U

# layer-C flags: '0' mirrors the current tree (open defect), '1' the repaired form
FIXED_NEGAXIS = '1'     # DiscretizedSpaceElement reduce with negative axis
FIXED_ZERODIM = '1'     # writable_array write-back into 0-d out
FIXED_OUTERBOOL = '1'   # discretised outer with non-floating result dtype
FIXED_POWER = '0'       # ProductSpaceElement has no __array_ufunc__


# ------------------------------------------------------------------ signatures
def axis_class(case):
    ax = case['axis']
    if ax == [99]:
        return 'default'
    if ax == [98]:
        return 'none'
    neg = any(a < 0 for a in ax)
    return ('negative' if neg else 'nonnegative') + ('-tuple' if len(ax) > 1 else '')


def dtype_class(name):
    k = np.dtype(name).kind
    return {'i': 'int', 'u': 'int', 'f': 'float', 'c': 'complex', 'b': 'bool'}.get(k, k)


def uf_signature(ev, clause):
    c = ev['case']
    nd = len(c['shapes'][0])
    if c['method'] == 'reduce':
        axes = set(range(nd)) if c['axis'] == [98] else ({0} if c['axis'] == [99] else {a % nd for a in c['axis']})
        full = 'yes' if len(axes) == nd else 'no'
    else:
        full = 'n/a'
    res = ev['ref_dtype'][0] if ev['ref_dtype'] else ev['dt']
    sig = {'kind': c['kind'], 'method': c['method'], 'clause': clause, 'outkind': c['outkind'],
           'result_dtype': 'same' if res == ev['dt'] else 'changed'}
    if c['method'] in ('reduce', 'accumulate', 'reduceat'):
        sig['axis'] = 'negative' if axis_class(c).startswith('negative') else 'other'
    if c['method'] == 'reduce':
        sig['fullreduce'] = full
    if c['method'] in ('call', 'outer'):
        sig['order'] = 'mixed' if c['order'] in ('ea', 'ae') else 'elements'
    if clause in ('value', 'dtype', 'exact-value', 'out-not-written'):
        sig['dtype'] = dtype_class(ev['dt'])
    sig['layout'] = {'C': 'C', 'F': 'F', 'S': 'strided'}[ev.get('layout', 'C')]
    sig['dtkw'] = c['dtkw']
    if c['outkind'] != 'none':
        sig['outdt'] = c.get('outdt', 'same')
    if ev.get('special'):
        sig['data'] = 'special:' + ev['special'][0]
    return sig


def report(ctx, seen, sig, detail, cap=3):
    key = dumps(sig, sort_keys=True)
    seen[key] = seen.get(key, 0) + 1
    if seen[key] <= cap:
        ctx.violation(sig, detail)


def report_event(ctx, seen, ev, info, clause, tlc=None):
    k = ev['k']
    if k == 'uf':
        sig = uf_signature(ev, clause)
        d = {'stage': 'trace' if tlc else 'replay', 'case': ev['case'], 'ufunc': ev['name'], 'dtype': ev['dt'],
             'variant': ev['variant'], 'inputs': info.get('inputs', 'canonical'), 'observed': ev,
             'exc': info.get('exc', ''), 'tlc_clauses': tlc or ''}
        if 'expected' in info:
            d['expected'] = info['expected']
    elif k == 'wrap':
        sig = {'kind': ev['kind'], 'method': 'wrap', 'clause': clause, 'dtype': dtype_class(ev['dt'])}
        d = {'stage': 'wrap', 'event': ev, 'tlc_clauses': tlc or ''}
    else:
        sig = {'kind': ev['kind'], 'method': 'legacy', 'clause': clause, 'form': ev['form'],
               'nout': str(ev['nout']), 'dtype': dtype_class(ev['dt'])}
        if ev.get('special'):
            sig['data'] = 'special:' + ev['special'][0]
        d = {'stage': 'legacy', 'event': ev, 'exc': info.get('exc', ''), 'tlc_clauses': tlc or ''}
    report(ctx, seen, sig, d)


# ------------------------------------------------------------------ event sink
class Sink(object):
    """Events are streamed into chunk files for TLC (hundreds of thousands in the thorough tier); only the
    exception texts are kept in memory.  get(id) reads an event back when TLC rejects it."""

    def __init__(self, work, chunk=6000):
        self.work, self.chunk = work, chunk
        self.files, self.n, self.fh = [], 0, None
        self.infos = {}

    def add(self, ev, info):
        if self.n % self.chunk == 0:
            if self.fh:
                self.fh.close()
            p = os.path.join(self.work, 'trace_%d.ndjson' % (self.n // self.chunk))
            self.files.append(p)
            self.fh = open(p, 'w')
        e = dict(ev)
        e['id'] = self.n
        self.fh.write(json.dumps(e) + '\n')
        if info.get('exc'):
            self.infos[self.n] = {'exc': info['exc']}
        self.n += 1
        return self.n - 1

    def close(self):
        if self.fh:
            self.fh.close()
            self.fh = None

    def get(self, eid):
        with open(self.files[eid // self.chunk]) as f:
            for k, line in enumerate(f):
                if k == eid % self.chunk:
                    ev = json.loads(line)
                    ev.pop('id', None)
                    return ev, self.infos.get(eid, {})
        raise MachineryError('event %d not found in its trace chunk' % eid)


# ------------------------------------------------------------------ comparison with the TLC export
def compare_export(ev, exp):
    """Clauses on which the observation differs from the exported expectation (shape, kind, exact values)."""
    if ev['err']:
        return [] if exp['kind'] == 'refused' else ['raised']
    bad = []
    for k in range(len(ev['rkind'])):
        rk = ev['rkind'][k]
        if exp['kind'] == 'any':
            if rk not in ('power', 'ndarray', 'tensor'):
                bad.append('kind')
        elif exp['kind'] != 'refused' and rk != exp['kind']:
            bad.append('kind')
        if ev['rshape'][k] != exp['shape']:
            bad.append('shape')
    if ev['exact'] and ev.get('canonical') and ev['name'] in exp['vals'] and ev['vals'][0] != exp['vals'][ev['name']]:
        bad.append('exact-value')
    # result dtype of the exact ufuncs as exported by the specification (all outputs of these have one dtype)
    # (with out= it is the dtype of out; computed by UfuncSem from the dtype keyword and the out dtype modes)
    if ev['name'] in exp.get('dtypes', {}) and ev['case']['method'] != 'at':
        want = exp['dtypes'][ev['name']][ev['dt']]
        if want != 'n/a' and any(d != want for d in ev['rdtype']):
            bad.append('dtype')
    return sorted(set(bad))


# ------------------------------------------------------------------ check
def run(ctx):
    quick = ctx.tier == 'quick'
    np.seterr(all='ignore')
    ctx.rule = ('configurations (element kind x method x nin/nout class x shape x axis subset x keepdims x out kind x '
                'operand order x dtype keyword) exported by TLC, each replayed with the exact ufuncs and a rotating window '
                'of the other ufuncs of its class over dtypes and space variants; plus every NumPy ufunc x applicable dtype '
                'x kind x method x out kind; wrapping; legacy interface. distinct = hash of (configuration, ufunc, dtype, '
                'variant); non-trivial = method other than a plain out-of-place __call__ on two elements, or out= given, '
                'or mixed operands, or a dtype-changing ufunc')
    ctx.assumptions += [
        'NumPy on the raw ndarrays is the value oracle (as the property states); values may differ by <= 2 ulp',
        'for the exact integer-valued ufuncs the specification recomputes the values from the logged operands',
        'DiscretizedSpaceElement documents that it declines reduce(keepdims=True), reduceat and outer with a non-element '
        'operand (explicit ValueError / TypeError): a refusal is accepted there, a result must still be right',
        'power spaces: for shape-changing methods (partial reduce, outer, reduceat) the statement does not fix a product '
        'space of the result shape; any carrier (element or ndarray) of the right numbers is accepted, an exception is not',
        'only "same kind, matching shape and dtype" is demanded of the result space (weightings are not compared)',
        'keyword options exercised: axis, keepdims, dtype, out (where= is not part of the statement); the dtype keyword '
        '(absent / same / narrower / wider) is crossed with the out kind (none, element, element of the other array-backed '
        'kind, ndarray) and the out dtype (same / wider / narrower) for __call__, reduce, accumulate, outer on tensor '
        'and discretised elements; NumPy refuses some casts (not applicable)',
        'power spaces need >= 2 axes (X^n of tensor spaces); 0-d out objects are exercised (rn(()) exists)',
        'a Python builtin scalar returned for a full reduction carries no dtype (no dtype clause for it)',
        'data alphabet: small integers / dyadics, plus NaN, +inf, -inf, -0.0 at the first / a middle / the last entry '
        '(component) for every ufunc, method, element kind and legacy wrapper; NaN-ness and the sign of zero count',
        'memory layout is a concretisation axis: operands (element storage and plain arrays) and out objects are C-ordered, '
        'Fortran-ordered or strided views of caller-owned buffers; elements wrap them without copy']
    work = ctx.work
    tier = 'quick' if quick else 'thorough'
    timing = ctx.extra.setdefault('timing_s', {})
    t_sec = time.time()

    # ---- 1. model runs (parallel) ----
    exp_path = os.path.join(work, 'ufunc_cases.ndjson')
    env = {'UFUNC_TIER': tier, 'OUT_FILE': os.devnull, 'UFUNC_FIXED_NEGAXIS': FIXED_NEGAXIS,
           'UFUNC_FIXED_ZERODIM': FIXED_ZERODIM, 'UFUNC_FIXED_OUTERBOOL': FIXED_OUTERBOOL,
           'UFUNC_FIXED_POWER': FIXED_POWER}
    env['UFUNC_KIND'] = 'all'
    kinds = ('tensor', 'discr', 'power')
    jobs = [('props', 'MC_Ufunc.tla', 'MC_Ufunc_props.cfg', env, 6, 'ok'),
            ('selftest-bogus', 'MC_Ufunc.tla', 'MC_Ufunc_bogus.cfg', env, 2, 'any')]
    for k in kinds:          # export runs are single-worker (lines must not interleave): one per kind, in parallel
        jobs.append(('export-' + k, 'MC_Ufunc.tla', 'MC_Ufunc_export.cfg',
                     dict(env, OUT_FILE=exp_path + '.' + k, UFUNC_KIND=k), 1, 'ok'))
    for inv in ('TensorRefines', 'DiscrRefines', 'PowerRefines'):
        jobs.append(('impl-' + inv, 'MC_UfuncImpl.tla', 'MC_UfuncImpl_%s.cfg' % inv, env, 2, 'any'))

    def go(j):
        return j, run_tlc(j[1], j[2], work, env=j[3], workers=j[4], timeout=3000)
    with ThreadPoolExecutor(max_workers=len(jobs)) as ex:
        results = list(ex.map(go, jobs))
    layer_c = {}
    for j, res in results:
        ctx.add_tlc(j[0], res, expect=j[5])
        if j[0] == 'selftest-bogus' and res.status != 'counterexample':
            raise MachineryError('the deliberately false invariant was not refuted: model run is vacuous')
        if j[0].startswith('impl-'):
            layer_c[j[0][5:]] = res.status
    ctx.extra['layer_C_refinement'] = layer_c
    expected_c = {'TensorRefines': 'ok' if FIXED_ZERODIM == '1' else 'counterexample',
                  'DiscrRefines': 'ok' if FIXED_NEGAXIS == FIXED_ZERODIM == FIXED_OUTERBOOL == '1' else 'counterexample',
                  'PowerRefines': 'ok' if FIXED_POWER == '1' else 'counterexample'}
    for k, v in expected_c.items():
        if layer_c.get(k) != v:
            raise MachineryError('layer C run %s: %s, expected %s for the mirrored code' % (k, layer_c.get(k), v))
    timing['tlc_models'] = round(time.time() - t_sec, 1)
    t_sec = time.time()

    cases = []
    for k in kinds:
        with open(exp_path + '.' + k) as f:
            cases += [json.loads(x) for x in f]
    if not cases:
        raise MachineryError('empty ufunc export')
    ufs = U.all_ufuncs()
    by_cls = {}
    for u in ufs:
        by_cls.setdefault(U.ucls_of(u), []).append(u)
    ctx.extra['numpy_ufuncs'] = {k: [u.__name__ for u in v] for k, v in by_cls.items() if k}
    exact_names = U.EXACT_BINARY | U.EXACT_UNARY

    events = Sink(work)
    seen = {}
    applicable = set()        # (ufunc, dtype, kind, method, outkind) combinations actually executed
    layouts_done = set()      # (kind, method, outkind, layout)
    cross_done = set()        # (kind, method, outkind, outdt, dtkw) executed (NumPy accepted the combination)

    def execute(case, uf, dt, variant, exp=None, exact_inputs=True, cplx=False, layout='C', special=None):
        try:
            ev, info = U.run_case(case, uf, dt, variant, exact_inputs, cplx, layout, special)
        except U.NotApplicable:
            return None
        ev['canonical'] = int(exact_inputs and not cplx)
        ev['inmode'] = [int(bool(exact_inputs)), int(bool(cplx))]
        events.add(ev, info)
        if exp is not None:
            info['expected'] = {'shape': exp['shape'], 'kind': exp['kind']}
        applicable.add((uf.__name__, dt, case['kind'], case['method'], case['outkind']))
        layouts_done.add((case['kind'], case['method'], case['outkind'], layout))
        cross_done.add((case['kind'], case['method'], case['outkind'], case.get('outdt', 'same'), case['dtkw']))
        nontriv = not (case['method'] == 'call' and case['outkind'] == 'none' and case['order'] in ('e', 'ee')
                       and ev['ref_dtype'] == [dt])
        ctx.count([case, uf.__name__, dt, variant, special], nontriv)
        if exp is not None:
            for clause in compare_export(ev, exp):
                report_event(ctx, seen, ev, info, clause)
        return ev

    # ---- 2. replay of every exported configuration ----
    n_exact = 3 if quick else 99
    n_other = 2 if quick else 4
    n_dt = 2 if quick else 3
    for ci, c in enumerate(cases):
        case, exp = c['case'], c['exp']
        pool = by_cls.get(case['ucls'], [])
        ex_pool = [u for u in pool if u.__name__ in exp['vals']]
        ot_pool = [u for u in pool if u.__name__ not in exact_names]
        rot = ci + ctx.seed
        chosen = [ex_pool[(rot + j) % len(ex_pool)] for j in range(min(n_exact, len(ex_pool)))] if ex_pool else []
        chosen += [ot_pool[(rot * 3 + j) % len(ot_pool)] for j in range(min(n_other, len(ot_pool)))] if ot_pool else []
        for ui, uf in enumerate(chosen):
            narrow = case['dtkw'] == 'narrower' or case.get('outdt') == 'narrower'
            pool_dt = ['float64', 'int64', 'complex128'] if narrow else U.DTYPES      # dtypes that have a narrower one
            for di in range(n_dt):
                dt = pool_dt[(rot + ui + di * 3) % len(pool_dt)]
                # every configuration sees the layouts C, F and strided (independent of the seed: ui + di varies)
                ev = execute(case, uf, dt, (rot + ui + di) % 2, exp, exact_inputs=uf.__name__ in exact_names,
                             layout=U.LAYOUTS[(ci + ui + di) % 3])
                if ev is not None and len(ctx.samples) < 3 and ev['exact'] and case['method'] != 'call' \
                        and case['outkind'] != 'none' and ci % 97 == 3:
                    ctx.sample({'configuration': case, 'ufunc': uf.__name__, 'dtype': dt, 'expected': exp,
                                'observed': {k: ev[k] for k in ('rkind', 'rshape', 'rdtype', 'ulp', 'isout', 'vals')}})
    ctx.extra['replayed_configurations'] = len(cases)
    timing['replay'] = round(time.time() - t_sec, 1)
    t_sec = time.time()

    # ---- 3. every ufunc x dtype x kind x method x out kind ----
    basic_axes = ([99], [98], [-1], [1], [0, 1])
    basic = {}
    for c in cases:
        case = c['case']
        if case['shapes'][0] != [2, 3] and not (case['method'] == 'outer' and case['shapes'] == [[2, 3], [2]]):
            continue
        if case['axis'] not in basic_axes:
            continue
        basic.setdefault((case['kind'], case['ucls'], case['method']), []).append(c)
    per_method = 3 if quick else 10 ** 6
    for uf in ufs:
        ucls = U.ucls_of(uf)
        if ucls is None:
            continue
        for di, dt in enumerate(U.DTYPES):
            for kind in ('tensor', 'discr', 'power'):
                for method in ('call', 'reduce', 'accumulate', 'outer', 'at', 'reduceat'):
                    lst = basic.get((kind, ucls, method), [])
                    if not lst:
                        continue
                    h = (sum(map(ord, uf.__name__)) + di * 7 + ctx.seed) % len(lst)
                    step = max(1, len(lst) // max(1, min(per_method, len(lst))))
                    # short lists (outer, at, reduceat, unary call ...) completely: families must not depend on the seed
                    picks = lst if (per_method >= len(lst) or len(lst) <= 12) else \
                        [lst[(h + j * step) % len(lst)] for j in range(per_method)]
                    # every out kind at least once per (ufunc, dtype, kind, method)
                    have = {p['case']['outkind'] for p in picks}
                    for ok in ('element', 'tensor', 'ndarray'):
                        if ok not in have:
                            extra = [p for p in lst if p['case']['outkind'] == ok]
                            if extra:
                                picks = picks + [extra[h % len(extra)]]
                    for pi, p in enumerate(picks):
                        execute(p['case'], uf, dt, (di + len(uf.__name__)) % 2, p['exp'],
                                exact_inputs=uf.__name__ in exact_names,
                                layout=U.LAYOUTS[(pi + di + len(uf.__name__)) % 3])
    timing['all_ufuncs_sweep'] = round(time.time() - t_sec, 1)
    t_sec = time.time()

    # ---- 3b. special values: NaN, +-inf, -0.0 at the first / a middle / the last entry (component) ----
    # every ufunc x kind x method; the reduction-type core with all 12 (value, position) pairs, the others with
    # three; NumPy on the raw arrays decides (NaN-ness and the sign of zero count)
    core = {'add', 'subtract', 'multiply', 'maximum', 'minimum', 'fmax', 'fmin', 'logaddexp', 'hypot'}
    n_spec = 0
    for uf in ufs:
        ucls = U.ucls_of(uf)
        if ucls is None:
            continue
        hname = sum(map(ord, uf.__name__))
        for ki, kind in enumerate(('tensor', 'discr', 'power')):
            for mi, method in enumerate(('call', 'reduce', 'accumulate', 'outer', 'at', 'reduceat')):
                lst = basic.get((kind, ucls, method), [])
                if not lst:
                    continue
                plain = [p for p in lst if p['case']['outkind'] == 'none' and p['case']['dtkw'] == 'none']
                given = [p for p in lst if p['case']['outkind'] != 'none' and p['case']['dtkw'] == 'none']
                picks = ([plain[hname % len(plain)]] if plain else []) + ([given[(hname + mi) % len(given)]] if given else [])
                if uf.__name__ in core or not quick:
                    specs = U.SPECIALS
                else:
                    specs = [U.SPECIALS[(hname + ki + mi + 5 * j) % 12] for j in range(3)]
                for pi, p in enumerate(picks):
                    for si, sp_ in enumerate(specs):
                        dt = ('float64', 'float32', 'complex128')[(si + pi + hname) % 3] if uf.__name__ in core else 'float64'
                        ev = execute(p['case'], uf, dt, 0, p['exp'], exact_inputs=False,
                                     layout=U.LAYOUTS[(si + mi) % 3], special=sp_)
                        n_spec += ev is not None
    ctx.extra['special_value_events'] = n_spec
    timing['special_values'] = round(time.time() - t_sec, 1)
    t_sec = time.time()

    # ---- 4. wrapping, legacy interface ----
    for kind in ('tensor', 'discr', 'power'):
        for shape in ([3], [2, 3], [2, 3, 2]):
            if kind == 'power' and len(shape) < 2:
                continue
            for dt in U.DTYPES:
                for order in ('C', 'F', 'S'):
                    for variant in (0, 1):
                        ev = U.wrap_event(kind, shape, dt, order, variant)
                        events.add(ev, {})
                        ctx.count(['wrap', kind, shape, dt, order, variant], True)
    from odl.util.ufuncs import RAW_UFUNCS
    for kind in ('tensor', 'discr', 'power'):
        for dt in U.DTYPES:
            for name in RAW_UFUNCS:
                for form in ('plain', 'out', 'out-array'):
                    if form == 'out-array' and kind == 'power':
                        continue
                    try:
                        ev, info = U.legacy_event(kind, [2, 3], dt, name, form, 0)
                    except Exception as e:
                        raise MachineryError('legacy driver failed for %s %s %s: %r' % (kind, dt, name, e))
                    events.add(ev, info)
                    ctx.count(['legacy', kind, dt, name, form], True)
            for name in ('sum', 'prod', 'min', 'max'):
                ev, info = U.legacy_event(kind, [2, 3], dt, name, 'reduce', 0)
                events.add(ev, info)
                ctx.count(['legacy', kind, dt, name, 'reduce'], True)
            if np.dtype(dt).kind in 'fc':
                # special values in the first / a middle / the last entry (component of a power element)
                for name in ('sum', 'prod', 'min', 'max'):
                    if name == 'prod' and np.dtype(dt).kind == 'c':
                        continue        # complex products with inf / -0.0 depend on the association (IEEE), which
                        #                 a component-wise legacy reduction may legitimately choose differently
                    for sp_ in U.SPECIALS:
                        for shape in ([2, 3], [3, 2]):
                            ev, info = U.legacy_event(kind, shape, dt, name, 'reduce', 0, special=sp_)
                            events.add(ev, info)
                            ctx.count(['legacy', kind, dt, name, 'reduce', sp_, shape], True)
                for ni, name in enumerate(RAW_UFUNCS):
                    for j in range(2 if quick else 12):
                        sp_ = U.SPECIALS[(ni + 5 * j + len(dt)) % 12]
                        ev, info = U.legacy_event(kind, [2, 3], dt, name, 'plain', 0, special=sp_)
                        events.add(ev, info)
                        ctx.count(['legacy', kind, dt, name, 'plain', sp_], True)
    timing['wrap_legacy'] = round(time.time() - t_sec, 1)
    t_sec = time.time()

    # ---- 5. random driver: concretisation only (ufunc, dtype, variant, complex operands) ----
    rnd = random.Random(ctx.seed * 7919 + 17)
    nrand = 1000 if quick else 20000
    done = 0
    tries = 0
    while done < nrand and tries < nrand * 5:
        tries += 1
        c = rnd.choice(cases)
        pool = by_cls.get(c['case']['ucls'], [])
        if not pool:
            continue
        uf = rnd.choice(pool)
        dt = rnd.choice(U.DTYPES)
        ev = execute(c['case'], uf, dt, rnd.randrange(2), None, exact_inputs=uf.__name__ in exact_names or rnd.random() < 0.3,
                     cplx=rnd.random() < 0.5, layout=rnd.choice(U.LAYOUTS))
        if ev is not None:
            done += 1
    timing['random_driver'] = round(time.time() - t_sec, 1)
    t_sec = time.time()
    events.close()
    ctx.traces += events.n

    # ---- 6. TLC trace validation ----
    files = events.files

    def val(p):
        return p, run_tlc('Trace_Ufunc.tla', 'Trace_Ufunc.cfg', work, env={'TRACE_FILE': p}, workers=1, timeout=3000)
    with ThreadPoolExecutor(max_workers=14) as ex:
        vres = list(ex.map(val, files))
    timing['trace_validation'] = round(time.time() - t_sec, 1)
    nfail = 0
    for p, res in vres:
        ctx.add_tlc('trace-' + os.path.basename(p), res)
        spec = re.findall(r'<<\s*"SPEC"\s*,\s*(\d+)\s*,\s*(\d+)\s*,', res.output)
        if spec:
            ev, info = events.get(int(spec[0][1]))
            raise MachineryError('NumPy reference contradicts the shape / dtype rule of the specification: %s' % dumps(
                {k: ev[k] for k in ('case', 'name', 'dt', 'dtk', 'ref_shape', 'ref_dtype')}))
        for _line, eid, clauses_text in parse_fails(res.output):
            ev, info = events.get(eid)
            nfail += 1
            clauses = re.findall(r'"([\w-]+)"', clauses_text)
            if not clauses:
                raise MachineryError('unparsable FAIL record of the trace spec: %r' % clauses_text[:200])
            for clause in clauses:
                report_event(ctx, seen, ev, info, clause, tlc=clauses_text)

    # coverage bookkeeping: which (ufunc, dtype) pairs NumPy accepts at all, and what was executed for them
    per_uf = {}
    for name, dt, kind, method, ok in applicable:
        per_uf.setdefault(name, set()).add((dt, kind, method, ok))
    ctx.extra['ufuncs_executed'] = len(per_uf)
    want = {(k, m, o, l) for (k, m, o, l0) in layouts_done for l in U.LAYOUTS}
    cross_all = {(c['case']['kind'], c['case']['method'], c['case']['outkind'], c['case'].get('outdt', 'same'),
                  c['case']['dtkw']) for c in cases if c['case']['kind'] != 'power'}
    ctx.extra['option_cross_cells'] = {'exported': len(cross_all), 'executed': len(cross_all & cross_done),
                                       'never_applicable_or_refused': sorted(map(list, cross_all - cross_done))[:40]}
    ctx.extra['kind_method_outkind_layout_combinations'] = len(layouts_done)
    ctx.extra['kind_method_outkind_without_some_layout'] = sorted(map(list, want - layouts_done))
    ctx.extra['ufunc_dtype_kind_method_outkind_combinations'] = len(applicable)
    ctx.extra['ufuncs_never_applicable'] = sorted(u.__name__ for u in ufs if u.__name__ not in per_uf)
    ctx.extra['trace_events_validated_by_tlc'] = events.n
    ctx.extra['trace_events_rejected_by_tlc'] = nfail
    fams = [json.loads(k) for k in seen]
    checks = ((FIXED_NEGAXIS, any(f.get('kind') == 'discr' and f.get('method') == 'reduce' and
                                  str(f.get('axis', '')).startswith('negative') for f in fams), 'FIXED_NEGAXIS'),
              (FIXED_ZERODIM, any(f.get('fullreduce') == 'yes' and f.get('outkind') not in ('none', None) and
                                  f.get('kind') == 'tensor' for f in fams), 'FIXED_ZERODIM'),
              (FIXED_OUTERBOOL, any(f.get('kind') == 'discr' and f.get('method') == 'outer' for f in fams), 'FIXED_OUTERBOOL'),
              (FIXED_POWER, any(f.get('kind') == 'power' for f in fams), 'FIXED_POWER'))
    for flag, saw, what in checks:
        if flag == '0' and not saw:
            ctx.drift_note('layer C still mirrors the defect %s but the real code no longer shows it' % what)
        if flag == '1' and saw:
            ctx.drift_note('layer C models the repaired form (%s) but the real code shows the defect' % what)
    ctx.exhaustive = True    # every exported configuration is replayed; every NumPy ufunc goes through every method


# ------------------------------------------------------------------ replay of a violation file
def replay(body):
    d = body['detail']
    np.seterr(all='ignore')
    if d['stage'] in ('replay', 'trace'):
        uf = getattr(np, d['ufunc'])
        old = d['observed']
        ev, info = U.run_case(d['case'], uf, d['dtype'], d['variant'], bool(old['inmode'][0]), bool(old['inmode'][1]),
                              old.get('layout', 'C'), tuple(old['special']) if old.get('special') else None)
        print('configuration:', dumps(d['case']))
        print('ufunc / dtype:', d['ufunc'], d['dtype'], 'variant', d['variant'])
        print('reference    : shape', ev['ref_shape'], 'dtype', ev['ref_dtype'])
        print('observed     :', dumps({k: ev[k] for k in ('err', 'rkind', 'rshape', 'rdtype', 'ulp', 'isout', 'outulp', 'unchanged')}),
              info.get('exc', ''))
        if 'expected' in d:
            print('expected     : shape', d['expected']['shape'], 'kind', d['expected']['kind'])
        same = all(ev[k] == old[k] for k in ('err', 'rkind', 'rshape', 'rdtype', 'isout', 'unchanged'))
        print('clauses then :', d.get('tlc_clauses') or body['signature']['clause'])
        ok = not same
    elif d['stage'] == 'wrap':
        e = d['event']
        ev = U.wrap_event(e['kind'], e['shape'], e['dt'], e['order'], e['variant'])
        print('wrap:', dumps(ev))
        ok = ev['shares'] and ev['roundtrip'] and ev['sees_write']
    else:
        e = d['event']
        ev, info = U.legacy_event(e['kind'], e['shape'], e['dt'], e['name'], e['form'], e['variant'],
                                  tuple(e['special']) if e.get('special') else None)
        print('legacy:', dumps(ev), info.get('exc', ''))
        ok = not (ev['err'] == e['err'] and ev['lkind'] == e['lkind'] and ev['ldtype'] == e['ldtype'])
    print('REPRODUCED' if not ok else 'NOT-REPRODUCED')
    return 1 if not ok else 0

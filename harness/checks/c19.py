"""C19 - acquisition geometries are rigid-motion consistent for all parameters.

Pipeline (DESIGN 4/C19):
  1. TLC: layer A (spec/sem/GeomSem.tla: rational rigid motions) satisfies the property statement on the
     model for every configuration of GeomMachine (rotation orthonormal / det 1, detector point = reference
     point + rotated surface point, det_to_src consistent with the source, parallel direction constant and
     orthogonal to the axes, axis fixed); the broadcasting shape rule and the angle-index slicing rule are
     total and consistent (MC_GeomShape); layer C (spec/impl/GeomImpl.tla: __getitem__ argument passing,
     factory extents, squeeze rule) is checked against layer A.
  2. TLC exports every configuration (geometry descriptor, angle, detector parameter) with the expected
     rotation matrix / points / vectors; each is replayed on real ODL geometry objects (constructor or
     frommatrix, parameters passed as floats) in several calling forms: scalar, vectorised, broadcast, on a
     slice geom[i:j], and on the original after slicing.  Exported shape cases and slice cases are replayed
     on all geometry classes.  The factories are replayed on volumes and every corner is projected at every
     angle of the produced geometry.
  3. Every replayed evaluation and a seeded random driver (random rational parameters inside the same
     families) are recorded as events and validated by TLC against the total trace spec Trace_Geom.
"""
import json
import math
import os
import random
import re
import time
from concurrent.futures import ThreadPoolExecutor
from fractions import Fraction

import numpy as np
import odl

from ..tlc import run_tlc, parse_fails
from ..common import dumps, MachineryError
from .. import c19_geom as G

# layer-C flags: '0' mirrors the current tree (open defect), '1' the repaired form
FIXED_SLICE = '1'      # Parallel2dGeometry.__getitem__ passes the translated det_pos_init
FIXED_CURV = '1'       # ConeBeamGeometry.__getitem__ passes a scalar curvature radius
FIXED_COVER = '0'      # cone_beam_geometry / helical_geometry extents
FIXED_INPUT_ALIAS = '1'   # constructors keep references to caller-owned translation / src_to_det_init / init_matrix
FIXED_ATTR_ALIAS = '0'    # array-valued attributes are the (writable) internal arrays

SLICEABLE = ('par2d', 'par3dax', 'fan', 'cone')


# ------------------------------------------------------------------ signatures
def is_sheared(g):
    """The two detector axes (explicit, or the images of the default axes under an init matrix) are not orthogonal."""
    if g['mat'] and len(g['mat']) == 3:
        cols = [[G.fq(g['mat'][i][j]) for i in range(3)] for j in (0, 2)]       # images of e_x and e_z
        return sum(a * b for a, b in zip(*cols)) != 0
    if len(g['ax']) == 2:
        return sum(G.fq(a) * G.fq(b) for a, b in zip(*g['ax'])) != 0
    return False


def frame_class(g):
    if is_sheared(g):
        return 'matrix-sheared' if g['mat'] else 'explicit-sheared'
    if g['mat']:
        return 'matrix'
    given = g['e'] if g['cls'] in ('fan', 'cone') else g['p0']
    if g['ax']:
        return 'explicit'
    return 'default-rotated' if (given or (g['k'] and g['k'] != [[0, 1], [0, 1], [1, 1]])) else 'default'


VALUE_CLAUSES = ('rot', 'ref', 'axes', 'detpt', 'src', 'd2s')


def signature(g, form, clause, where='query'):
    """Family-level signature: class / frame kind / detector class / calling-form class / clause class
    (+ where an exception was raised: constructor / getitem / query)."""
    if clause in VALUE_CLAUSES:
        cc = 'value'
    elif clause.startswith('shape-'):
        cc = 'shape'
    else:
        cc = clause                       # raised / d2s-normalized / vectorized-differs
    has_t = not G.is_zero(g['t']) or bool(g['mat'] and len(g['mat'][0]) > len(g['mat']))
    sig = {'cls': g['cls'], 'frame': frame_class(g), 'det': 'flat' if g['det']['kind'] == 'flat' else 'curved',
           'form': 'slice' if form in ('slice', 'orig-after-slice') else form, 'clause': cc,
           'translation': 'nonzero' if has_t else 'zero'}
    if cc == 'raised':
        sig['where'] = where
    if g['p0'] and G.is_zero(g['p0']):
        sig['position'] = 'zero'          # detector reference point in the rotation centre
    return sig


def family(g, form):
    return [g['cls'], frame_class(g), g['det']['kind'], form, g['dz'][0] != 0]


# ------------------------------------------------------------------ one evaluation bundle
NA_SHAPE = [-1]


def observe(g, a, u, form, variant, seed):
    """Build the geometry, evaluate every public query in the given calling form, project.
    Returns the event (without id / tid)."""
    rnd = random.Random(seed)
    ev = {'k': 'val', 'g': g, 'a': a, 'u': u, 'form': form, 'rot': [], 'ref': [], 'axes': [], 'detpt': [],
          'src': [], 'd2s': [], 'rel': [], 'dev': 0, 'err': '',
          'shapes': {q: NA_SHAPE for q in ('rot', 'ref', 'axes', 'detpt', 'src', 'd2s')}}
    info = {'variant': variant, 'seed': seed, 'where': 'constructor'}
    try:
        geom = G.build(g, G.base_theta(g, a), variant)
        info['where'] = 'query'
        if form in ('slice', 'orig-after-slice'):
            th = G.mparam_of(g, a)
            i, j = G.slice_for(th)
            info['where'] = 'getitem'
            sub = geom[i:j]
            info['where'] = 'query'
            info['slice'] = [i, j]
            target = sub if form == 'slice' else geom
            obs = G.evaluate(target, g, a, u, form, rnd)
        else:
            obs = G.evaluate(geom, g, a, u, form, rnd)
            if form in ('vector', 'bcast'):
                single = G.evaluate(geom, g, a, u, 'scalar', rnd)
                dev = 0.0
                for k in obs:
                    s = np.asarray(single[k], dtype=float)
                    o = np.asarray(obs[k], dtype=float)
                    if s.shape != o.shape:
                        dev = float('inf')
                    else:
                        dev = max(dev, float(np.max(np.abs(o - s) / np.maximum(1.0, np.abs(s)))))
                ev['dev'] = int(min(G.LIM, round(dev * 2 ** 30))) if math.isfinite(dev) else G.LIM
    except Exception as e:          # the model says the configuration is legal: an exception is an observation
        ev['err'] = type(e).__name__
        info['exc'] = type(e).__name__ + ': ' + str(e)[:160]
        return ev, info
    for k in ('rot', 'ref', 'axes', 'detpt', 'src', 'd2s'):
        if k in obs:
            arr = np.asarray(obs[k], dtype=float)
            ev['shapes'][k] = list(arr.shape)
            if arr.ndim in (1, 2):
                ev[k] = G.project(arr)
            else:
                ev[k] = [[G.OFFQ]]
    if 'd2sn' in obs:
        ev['rel'] = G.relational(obs['d2sn'], obs['d2s'])
    return ev, info


def compare(ev, exp):
    """Clauses on which the observed bundle differs from the exported expectation."""
    if ev['err']:
        return ['raised']
    bad = []
    nd = len(exp['rot'])
    for k in ('rot', 'ref', 'axes', 'detpt', 'src', 'd2s'):
        want = exp[k]
        if k == 'src' and want == []:
            continue                        # parallel beams have no source position
        want_m = want if k in ('rot', 'axes') else [want]
        if ev[k] != want_m:
            bad.append(k)
        want_shape = {'rot': [nd, nd], 'axes': [nd] if nd == 2 else [2, 3]}.get(k, [nd])
        if ev['shapes'][k] != want_shape:
            bad.append('shape-' + k)
    if ev['rel'] and not (abs(ev['rel'][0]) <= 4 and ev['rel'][1] <= 4 and ev['rel'][2] >= -4):
        bad.append('d2s-normalized')
    if ev['dev'] > 4:
        bad.append('vectorized-differs')
    return bad


# ------------------------------------------------------------------ shape / slice replay
def shape_geoms():
    import odl.tomo as T
    ap = odl.uniform_partition(-7, 7, 7)
    ap3 = odl.uniform_partition([-7] * 3, [7] * 3, (3, 3, 3))
    d1 = odl.uniform_partition(-3, 3, 6)
    d2 = odl.uniform_partition([-3, -2], [3, 2], (6, 4))
    return {(1, 1): [('par2d', T.Parallel2dGeometry(ap, d1, det_pos_init=(3, 4))),
                     ('fan', T.FanBeamGeometry(ap, d1, 5, 3, src_to_det_init=(3, 4), translation=(1, -2)))],
            (1, 2): [('par3dax', T.Parallel3dAxisGeometry(ap, d2, axis=(2, 2, 1))),
                     ('cone', T.ConeBeamGeometry(ap, d2, 5, 3, axis=(2, 2, 1), pitch=2.0)),
                     ('cone-cyl', T.ConeBeamGeometry(ap, odl.uniform_partition([-1, -2], [1, 2], (8, 4)), 5, 3,
                                                     det_curvature_radius=(8, None))),
                     ('cone-sph', T.ConeBeamGeometry(ap, odl.uniform_partition([-1, -1], [1, 1], (8, 8)), 5, 3,
                                                     det_curvature_radius=(8, 8)))],
            (3, 2): [('par3deu', T.Parallel3dEulerGeometry(ap3, d2))]}


def arr_of(shape, val):
    if shape == []:
        return val
    return np.full(tuple(shape), val, dtype=float)


def shape_events(cases, geoms):
    """One event per (class, query, parameter shapes): the observed result shape (or [-1] when raised)."""
    out = []
    seen_m = set()
    for c in cases:
        ar = tuple(c['ar'])
        for cls, geom in geoms[ar]:
            nd = 2 if cls in ('par2d', 'fan') else 3
            mvals = [0.6435, 1.176, -0.5][:ar[0]]
            dvals = [0.5, -0.75][:ar[1]]
            marrs = [arr_of(s, v) for s, v in zip(c['ms'], mvals)]
            darrs = [arr_of(s, v) for s, v in zip(c['ds'], dvals)]
            mp = tuple(marrs) if ar[0] > 1 else marrs[0]
            dp = tuple(darrs) if ar[1] > 1 else darrs[0]
            det = 'curved' if '-' in cls else 'flat'
            cls = cls.split('-')[0]
            calls = [('detpt', lambda: geom.det_point_position(mp, dp)),
                     ('d2s', lambda: geom.det_to_src(mp, dp))]
            key = (cls, det, json.dumps(c['ms']))
            if key not in seen_m:
                seen_m.add(key)
                calls += [('rot', lambda: geom.rotation_matrix(mp)), ('ref', lambda: geom.det_refpoint(mp)),
                          ('axes', lambda: G._axes_fn(geom)(mp))]
                if cls in ('fan', 'cone'):
                    calls.append(('src', lambda: geom.src_position(mp)))
            for q, fn in calls:
                try:
                    obs = list(np.shape(fn()))
                    exc = ''
                except Exception as e:
                    obs = [-1]
                    exc = type(e).__name__ + ': ' + str(e)[:120]
                # expectation exported by TLC: BcastShape with a placeholder for ndim / MShape without the tail
                if q in ('detpt', 'd2s'):
                    exp = c['exp'] if c['exp'] == [-1] else c['exp'][:-1] + [nd]
                else:
                    tail = {'rot': [nd, nd], 'axes': [nd] if nd == 2 else [2, 3]}.get(q, [nd])
                    exp = c['mexp'] if c['mexp'] == [-1] else c['mexp'] + tail
                out.append(({'k': 'shape', 'cls': cls, 'det': det, 'q': q, 'nd': nd, 'ms': c['ms'], 'ds': c['ds'], 'obs': obs},
                            {'exc': exc, 'exp': exp}))
    return out


def slice_geom(cls, n):
    import odl.tomo as T
    ap = odl.uniform_partition(0, n, n)
    d1 = odl.uniform_partition(-3, 3, 6)
    d2 = odl.uniform_partition([-3, -2], [3, 2], (6, 4))
    if cls == 'par2d':
        return T.Parallel2dGeometry(ap, d1, det_pos_init=(3, 4))
    if cls == 'fan':
        return T.FanBeamGeometry(ap, d1, 5, 3, src_to_det_init=(3, 4))
    if cls == 'par3dax':
        return T.Parallel3dAxisGeometry(ap, d2, axis=(2, 2, 1))
    return T.ConeBeamGeometry(ap, d2, 5, 3, axis=(2, 2, 1), pitch=2.0)


def slice_events(cases):
    out = []
    for n_case, c in enumerate(cases):
        if not c['exp']:
            continue                        # empty selections are outside the claim (ODL has no empty partitions)
        sl = c['sl']
        cls = SLICEABLE[n_case % 4]
        geom = slice_geom(cls, sl['n'])
        pysl = slice(None if sl['start'] == 99 else sl['start'], None if sl['stop'] == 99 else sl['stop'], sl['step'])
        try:
            sub = geom[pysl]
            full = list(geom.angles)
            obs = [full.index(x) + 1 if x in full else 0 for x in sub.angles]
            exc = ''
        except Exception as e:
            obs = [-1]
            exc = type(e).__name__ + ': ' + str(e)[:120]
        out.append(({'k': 'slice', 'cls': cls, 'sl': sl, 'obs': obs}, {'exc': exc, 'exp': c['exp']}))
    return out


# ------------------------------------------------------------------ factories
def corner_excess(geom, space, horizontal_only=False):
    """Worst excess (relative to the half extent, per detector axis) of a projected volume corner beyond the
    detector over all angles of the geometry.  Flat detectors only (what the factories return)."""
    nd = space.ndim
    lo = np.atleast_1d(geom.det_partition.min_pt)
    hi = np.atleast_1d(geom.det_partition.max_pt)
    half = (hi - lo) / 2.0
    worst = np.full(len(lo), -np.inf)
    corners = space.domain.corners()
    divergent = hasattr(geom, 'src_position')
    for ang in geom.angles:
        ref = geom.det_refpoint(ang)
        axes = np.atleast_2d(G._axes_fn(geom)(ang))
        src = geom.src_position(ang) if divergent else None
        for c in corners:
            if divergent:
                # src + s (c - src) = ref + sum_i u_i axes_i
                A = np.column_stack([c - src] + [-ax for ax in axes])
                sol = np.linalg.solve(A, ref - src)
                uv = sol[1:]
            else:
                uv = axes @ (c - ref)
            exc = np.maximum(lo - uv, uv - hi) / half
            worst = np.maximum(worst, exc)
    if horizontal_only:
        worst = worst[:1]
    return [int(max(-G.LIM, min(G.LIM, round(x * 2 ** 20)))) for x in worst]


# volumes: centred, off-centre, and asymmetric ones whose farthest (x, y) corner has every sign pattern
# (-,+), (+,-), (-,-), (+,+) -- i.e. is a "mixed" corner or the min / max corner of the domain; 2-d and 3-d
FACTORY_SPACES = {
    '2d-centred': ([-1, -1], [1, 1], (8, 8)),
    '2d-offcentre': ([0, -1], [3, 1], (12, 8)),
    '2d-anisotropic': ([-2, -1], [2, 1], (8, 8)),
    '2d-far-mp': ([-2, -0.5], [0.5, 2], (10, 10)),
    '2d-far-pm': ([-0.5, -2], [2, 0.5], (10, 10)),
    '2d-far-mm': ([-2, -2], [0.5, 0.5], (10, 10)),
    '2d-far-pp': ([-0.5, -0.5], [2, 2], (10, 10)),
    '3d-centred': ([-1, -1, -1], [1, 1, 1], (8, 8, 8)),
    '3d-offcentre': ([-1, 0, -2], [1, 2, 1], (8, 8, 6)),
    '3d-flat': ([-2, -2, -0.5], [2, 2, 0.5], (8, 8, 2)),
    '3d-far-mp': ([-2, -0.5, -1], [0.5, 2, 0.5], (10, 10, 6)),
    '3d-far-pm': ([-0.5, -2, -0.5], [2, 0.5, 1.5], (10, 10, 8)),
    '3d-far-mm': ([-2, -2, 0], [0.5, 0.5, 1], (10, 10, 4)),
    '3d-far-pp': ([-0.5, -0.5, -1], [2, 2, 0], (10, 10, 4)),
}


def factory_cases(quick):
    cases = []
    for sname in FACTORY_SPACES:
        three = sname.startswith('3d')
        far = '-far-' in sname
        cases.append(('parallel_beam_geometry', sname, {}))
        cases.append(('parallel_beam_geometry', sname, {'num_angles': 5}))
        for rs, rd in [(5.0, 3.0), (8.0, 0.5)] + ([] if quick else [(6.0, 10.0), (20.0, 20.0)]):
            cases.append(('cone_beam_geometry', sname, {'src_radius': rs, 'det_radius': rd}))
            if not (quick and far and rs != 5.0):
                cases.append(('cone_beam_geometry', sname, {'src_radius': rs, 'det_radius': rd, 'short_scan': True,
                                                            'num_angles': 9}))
            if three:
                cases.append(('helical_geometry', sname, {'src_radius': rs, 'det_radius': rd, 'num_turns': 2}))
    return cases


def small_q(v, maxden=4096, maxnum=10 ** 6):
    """Exact rational of an observed number if it is one with a small denominator, else the off-lattice token."""
    q = G.snap_ld(v)
    if q is None or q.denominator > maxden or abs(q.numerator) > maxnum:
        return G.OFFQ
    return [int(q.numerator), int(q.denominator)]


def factory_event(fac, sname, kw):
    import odl.tomo as T
    lo, hi, shp = FACTORY_SPACES[sname]
    space = odl.uniform_discr(lo, hi, shp)
    # inputs for the exact extent clause: ALL corners of the volume (rational), the radii, and the observed half
    # width of the (origin-centred) detector, squared
    corners = [[Q(Fraction(float(x))) for x in c] for c in space.domain.corners()]
    ev = {'k': 'cover', 'fac': fac, 'space': sname, 'exc': [], 'err': '', 'corners': corners,
          'rs': Q(Fraction(kw.get('src_radius', 0))), 'rd': Q(Fraction(kw.get('det_radius', 0))), 'w2': G.OFFQ}
    info = {'kwargs': kw}
    try:
        geom = getattr(T, fac)(space, **kw)
        ev['exc'] = corner_excess(geom, space, horizontal_only=(fac == 'helical_geometry'))
        lo_d = np.atleast_1d(geom.det_partition.min_pt)
        hi_d = np.atleast_1d(geom.det_partition.max_pt)
        ev['w2'] = small_q(min(-lo_d[0], hi_d[0]) ** 2)
        info['det'] = [lo_d.tolist(), hi_d.tolist()]
        info['num_angles'] = len(geom.angles)
    except Exception as e:
        ev['err'] = type(e).__name__
        info['exc'] = type(e).__name__ + ': ' + str(e)[:160]
    return ev, info


# ------------------------------------------------------------------ random driver (concretisation only)
def Q(fr):
    fr = Fraction(fr)
    return [int(fr.numerator), int(fr.denominator)]


def V(*xs):
    return [Q(x) for x in xs]


F = Fraction
PYTH = [(3, 4, 5), (5, 12, 13), (8, 15, 17), (7, 24, 25), (20, 21, 29)]
TRIADS = [  # rational orthonormal triads (rows), last row = rotation axis
    [(1, 0, 0), (0, 1, 0), (0, 0, 1)],
    [(F(1, 3), F(-2, 3), F(2, 3)), (F(-2, 3), F(1, 3), F(2, 3)), (F(2, 3), F(2, 3), F(1, 3))],
    [(F(2, 3), F(1, 3), F(-2, 3)), (F(2, 3), F(-2, 3), F(1, 3)), (F(1, 3), F(2, 3), F(2, 3))],
    [(F(4, 5), 0, F(-3, 5)), (0, 1, 0), (F(3, 5), 0, F(4, 5))],
    [(0, F(4, 5), F(-3, 5)), (1, 0, 0), (0, F(3, 5), F(4, 5))],
]


SHEARED = [[(1, 0, 0), (F(3, 5), 0, F(4, 5))], [(0, 1, 0), (0, F(3, 5), F(4, 5))],
           [(F(5, 13), F(12, 13), 0), (1, 0, 0)], [(0, 0, 1), (F(4, 5), 0, F(3, 5))],
           [(0, 0, 1), (1, 0, 0)], [(F(-3, 5), F(4, 5), 0), (0, 1, 0)]]


def rand_cs(rnd, hyps=None):
    a, b, c = rnd.choice([p for p in PYTH if hyps is None or p[2] in hyps])
    if rnd.random() < 0.5:
        a, b = b, a
    return F(rnd.choice([-1, 1]) * a, c), F(rnd.choice([-1, 1]) * b, c)


def rand_angle(rnd, hyps=None, m=1):
    if rnd.random() < 0.12:
        c, s = rnd.choice([(0, 1), (-1, 0), (0, -1), (1, 0)])
    else:
        c, s = rand_cs(rnd, hyps)
    return {'bc': Q(c), 'bs': Q(s), 'm': m}


def rand_small(rnd, nd):
    return [Q(F(rnd.randint(-6, 6), rnd.choice([1, 1, 2]))) for _ in range(nd)]


def right_handed_frame(tri, rnd):
    """(e, a0, a1, k) with e, a0 perpendicular to k = a1 direction, signs random but a valid detector frame."""
    b1, b2, k = tri
    s1, s2 = rnd.choice([-1, 1]), rnd.choice([-1, 1])
    e = [s1 * x for x in b1]
    a0 = [s2 * x for x in b2]
    if rnd.random() < 0.5:
        e, a0 = a0, e
    return e, a0, list(k)


def rand_params(rnd, det, nd):
    def lin(lim):
        return {'q': Q(F(rnd.randint(-int(lim * 4), int(lim * 4)), 4)), 'c': [1, 1], 's': [0, 1]}

    def arc():
        a, b, c = rnd.choice([(3, 4, 5), (5, 12, 13), (7, 24, 25), (8, 15, 17)])
        lo, hi = min(a, b), max(a, b)
        if rnd.random() < 0.15:
            return {'q': [0, 1], 'c': [1, 1], 's': [0, 1]}
        return {'q': [0, 1], 'c': Q(F(hi, c)), 's': Q(F(rnd.choice([-1, 1]) * lo, c))}
    if det == 'circ':
        return [arc()]
    if det == 'cyl':
        return [arc(), lin(1.75)]
    if det == 'sph':
        return [arc(), arc()]
    return [lin(2.75)] if nd == 2 else [lin(2.75), lin(1.75)]


def random_case(rnd):
    """A random configuration inside the families of MC_Geom (classes x frame kinds x detector kinds):
    only the numbers are random.  Denominators are kept small enough for the lattice bound DMAX."""
    cls = rnd.choice(['par2d', 'fan', 'par3dax', 'par3deu', 'cone', 'cone', 'fan'])
    nd = 2 if cls in ('par2d', 'fan') else 3
    g = {'id': 'random', 'cls': cls, 't': V(*[0] * nd), 'p0': [], 'k': V(0, 0, 1) if cls in ('par3dax', 'cone') else [],
         'e': [], 'ax': [], 'rs': Q(0), 'rd': Q(0), 'z0': Q(0), 'dz': Q(0), 'det': {'kind': 'flat', 'r': Q(0)},
         'ss': V(*[0] * nd), 'ds': V(*[0] * nd), 'mat': []}
    if rnd.random() < 0.6:
        g['t'] = rand_small(rnd, nd)
    mode = rnd.choice(['default', 'rotated', 'explicit', 'matrix'])
    if cls in ('fan', 'cone'):
        g['rs'] = Q(rnd.choice([F(7, 2), 5, 6, F(13, 2), 4]))
        g['rd'] = Q(rnd.choice([F(1, 2), 2, 3, F(9, 2)]))
        det = rnd.choice(['flat', 'flat', 'curved'])
        if det == 'curved':
            g['det'] = {'kind': 'circ' if cls == 'fan' else rnd.choice(['cyl', 'sph']), 'r': Q(rnd.choice([6, 8, 10]))}
        if rnd.random() < 0.3:
            g['ss'] = [Q(F(rnd.randint(-2, 2), 4)) for _ in range(nd)]
            g['ds'] = [Q(F(rnd.randint(-2, 2), 2)) for _ in range(nd)]
    if nd == 2:
        hyps = (5, 13, 17, 25, 29)
        a = rand_angle(rnd, hyps)
        if mode == 'matrix':
            c, s = rand_cs(rnd, (5, 13))
            refl = rnd.choice([1, -1])
            rows = [[c, -s * refl], [s, c * refl]]
            if rnd.random() < 0.6:
                tr = rand_small(rnd, 2)
                g['mat'] = [[Q(x) for x in rows[i]] + [tr[i]] for i in range(2)]
            else:
                g['mat'] = [[Q(x) for x in rows[i]] for i in range(2)]
            g['t'] = V(0, 0)
        elif mode != 'default':
            c, s = rand_cs(rnd, (5, 13))
            if cls == 'fan':
                g['e'] = V(c, s)
            else:
                scale = rnd.choice([1, 2, 5, F(1, 2)])
                g['p0'] = V(c * scale, s * scale)
            if mode == 'explicit':
                c2, s2 = rand_cs(rnd, (5, 13))
                g['ax'] = [V(c2, s2)]
                if cls == 'par2d' and rnd.random() < 0.5:
                    g['p0'] = rand_small(rnd, 2)          # any position works with an explicit axis
        return g, a, rand_params(rnd, g['det']['kind'], nd)
    # ---- 3d
    if cls == 'par3deu':
        hy = rnd.sample([5, 13, 17], 3)
        a = [rand_angle(rnd, (h,)) for h in hy]
        if mode == 'matrix':
            tri = rnd.choice(TRIADS[:3])
            rows = [list(r) for r in tri]
            tr = rand_small(rnd, 3) if rnd.random() < 0.6 else None
            g['mat'] = [[Q(x) for x in rows[i]] + ([tr[i]] if tr else []) for i in range(3)]
            g['t'] = V(0, 0, 0)
        elif mode == 'rotated':
            p = rnd.choice([(2, -1, 2), (1, 2, 2), (0, 3, 4), (2, 3, 6), (0, -1, 0), (4, 0, 3)])
            g['p0'] = V(*p)
        elif mode == 'explicit':
            tri = rnd.choice(TRIADS[:4])
            e, a0, k = right_handed_frame(tri, rnd)
            g['ax'] = [V(*a0), V(*k)]
            g['p0'] = rand_small(rnd, 3)
            if rnd.random() < 0.3:
                g['ax'] = [V(*a) for a in rnd.choice(SHEARED)]
        return g, a, rand_params(rnd, 'flat', 3)
    hyps = (5, 13, 17, 25)
    helical = cls == 'cone' and rnd.random() < 0.4
    if helical:
        g['dz'] = Q(rnd.choice([F(1, 4), F(1, 2), 1, F(-3, 4)]))
        g['z0'] = Q(rnd.choice([0, F(1, 2), -1]))
        a = rand_angle(rnd, (5, 13), m=rnd.choice([-1, 0, 1, 2]))
        if a['bc'] == [1, 1] or a['bs'][0] == 0:
            a = {'bc': Q(F(3, 5)), 'bs': Q(F(4, 5)), 'm': a['m']}
    else:
        a = rand_angle(rnd, hyps)
    tri = rnd.choice(TRIADS)
    if mode == 'matrix':
        tri = rnd.choice(TRIADS[:3])
        # matrix with the triad as COLUMNS (maps e_x, e_y, e_z to the triad)
        cols = [list(r) for r in tri]
        rows = [[cols[j][i] for j in range(3)] for i in range(3)]
        tr = rand_small(rnd, 3) if rnd.random() < 0.6 else None
        g['mat'] = [[Q(x) for x in rows[i]] + ([tr[i]] if tr else []) for i in range(3)]
        g['t'] = V(0, 0, 0)
        g['k'] = V(0, 0, 1)
    elif mode == 'rotated':
        g['k'] = V(*tri[2])
    elif mode == 'explicit':
        e, a0, k = right_handed_frame(tri, rnd)
        g['k'] = V(*k)
        g['ax'] = [V(*a0), V(*k)]
        if cls == 'cone':
            g['e'] = V(*e)
        else:
            g['p0'] = rand_small(rnd, 3)
        if g['det']['kind'] == 'flat' and rnd.random() < 0.3:
            g['ax'] = [V(*a) for a in rnd.choice(SHEARED)]     # linearly independent, not orthogonal, any handedness
    return g, a, rand_params(rnd, g['det']['kind'], 3)


# ------------------------------------------------------------------ histories (GeomHistory)
def _hg(cls, **kw):
    nd = 2 if cls in ('par2d', 'fan') else 3
    g = {'id': 'history', 'cls': cls, 't': V(*[0] * nd), 'p0': [], 'k': V(0, 0, 1) if cls in ('par3dax', 'cone') else [],
         'e': [], 'ax': [], 'rs': Q(0) if cls.startswith('par') else Q(5), 'rd': Q(0) if cls.startswith('par') else Q(3),
         'z0': Q(0), 'dz': Q(0), 'det': {'kind': 'flat', 'r': Q(0)}, 'ss': V(*[0] * nd), 'ds': V(*[0] * nd), 'mat': []}
    g.update(kw)
    return g


K304 = V(F(3, 5), 0, F(4, 5))
HIST_GEOMS = {
    'par2d': _hg('par2d', p0=V(3, 4), ax=[V(F(4, 5), F(-3, 5))], t=V(1, -2)),
    'par2d-mat': _hg('par2d', mat=[V(F(3, 5), F(-4, 5), 1), V(F(4, 5), F(3, 5), -2)]),
    'fan': _hg('fan', e=V(F(3, 5), F(4, 5)), ax=[V(F(4, 5), F(-3, 5))], t=V(1, -2)),
    'par3dax': _hg('par3dax', k=K304, p0=V(1, 2, -6), ax=[V(F(4, 5), 0, F(-3, 5)), V(0, 1, 0)], t=V(F(1, 2), 0, -1)),
    'par3dax-ez': _hg('par3dax', k=V(0, 0, 1), p0=V(1, 2, -6), ax=[V(1, 0, 0), V(0, 0, 1)], t=V(1, -2, 3)),
    'par3dax-mat': _hg('par3dax', mat=[V(0, 0, -1, 0), V(0, 1, 0, 1), V(1, 0, 0, 1)]),
    'par3deu': _hg('par3deu', p0=V(1, 2, -6), ax=[V(F(4, 5), 0, F(-3, 5)), V(0, 1, 0)], t=V(1, 0, -1)),
    'cone': _hg('cone', k=K304, e=V(F(4, 5), 0, F(-3, 5)), ax=[V(0, 1, 0), K304], t=V(0, 1, F(1, 2)), dz=Q(F(1, 2)),
                z0=Q(F(1, 2))),
    'cone-ez': _hg('cone', k=V(0, 0, 1), e=V(0, 1, 0), ax=[V(1, 0, 0), V(0, 0, 1)], t=V(1, -2, 3)),
    'cone-mat': _hg('cone', mat=[V(0, 0, -1, 0), V(0, 1, 0, 1), V(1, 0, 0, 1)]),
}
HIST_ANGLE = {'bc': Q(F(3, 5)), 'bs': Q(F(4, 5)), 'm': 1}
HIST_EULER = [{'bc': Q(F(3, 5)), 'bs': Q(F(4, 5)), 'm': 1}, {'bc': Q(F(5, 13)), 'bs': Q(F(12, 13)), 'm': 1},
              {'bc': Q(F(-8, 17)), 'bs': Q(F(15, 17)), 'm': 1}]


def hist_params(g):
    nd = 2 if g['cls'] in ('par2d', 'fan') else 3
    lin = lambda q: {'q': Q(q), 'c': [1, 1], 's': [0, 1]}
    u = [lin(F(-5, 2))] if nd == 2 else [lin(F(-5, 2)), lin(1)]
    return (HIST_EULER if g['cls'] == 'par3deu' else HIST_ANGLE), u


def history_events(name, hist, label):
    """Replay one exported history on the history geometry `name`.  Returns the events (a 'val' bundle for the
    final Query and, if the angle grid is caller-owned, an 'angles' slice event) or [] if not applicable."""
    g = HIST_GEOMS[name]
    a, u = hist_params(g)
    ev = {'k': 'val', 'g': g, 'a': a, 'u': u, 'form': 'history', 'rot': [], 'ref': [], 'axes': [], 'detpt': [],
          'src': [], 'd2s': [], 'rel': [], 'dev': 0, 'err': '', 'mutated': label,
          'shapes': {q: NA_SHAPE for q in ('rot', 'ref', 'axes', 'detpt', 'src', 'd2s')}}
    info = {'variant': {'history': hist, 'geometry': name}, 'seed': 0, 'where': 'constructor'}
    out = []
    try:
        res = G.apply_history(g, hist, a, u)
        if res is None:
            return []
        geom, angles0 = res
        info['where'] = 'query'
        obs = G.evaluate(geom, g, a, u, 'scalar', random.Random(0))
        for k in ('rot', 'ref', 'axes', 'detpt', 'src', 'd2s'):
            if k in obs:
                arr = np.asarray(obs[k], dtype=float)
                ev['shapes'][k] = list(arr.shape)
                ev[k] = G.project(arr) if arr.ndim in (1, 2) else [[G.OFFQ]]
        if 'd2sn' in obs:
            ev['rel'] = G.relational(obs['d2sn'], obs['d2s'])
        if angles0 is not None:
            now = list(geom.angles)
            sl = {'n': len(angles0), 'start': 99, 'stop': 99, 'step': 1}
            out.append(({'k': 'slice', 'cls': g['cls'], 'sl': sl, 'mutated': label, 'form': 'history',
                         'obs': [i + 1 if i < len(now) and now[i] == x else 0 for i, x in enumerate(angles0)]},
                        {'exc': '', 'exp': list(range(1, len(angles0) + 1)), 'history': hist, 'geometry': name}))
    except Exception as e:
        ev['err'] = type(e).__name__
        info['exc'] = type(e).__name__ + ': ' + str(e)[:160]
    out.insert(0, (ev, info))
    return out


def mut_label(step):
    return ('caller:' + step['what']) if step['act'] == 'MutateCaller' else ('returned-' + step['what'])


# ------------------------------------------------------------------ reporting
def parse_tagged(output, tag):
    """<<"TAG", line, id, ...>> records printed by the trace spec (whitespace / line-wrap tolerant)."""
    out = []
    for m in re.finditer(r'<<\s*"%s"\s*,\s*(\d+)\s*,\s*(\d+)\s*,' % tag, output):
        out.append((int(m.group(1)), int(m.group(2))))
    return out


def report(ctx, seen, sig, detail, cap=3):
    """ctx.violation with at most `cap` replay files per family."""
    key = dumps(sig, sort_keys=True)
    seen[key] = seen.get(key, 0) + 1
    if seen[key] <= cap:
        ctx.violation(sig, detail)


def rank_class(ev):
    """How the ranks (numbers of dimensions) of the parameter arrays of a shape event relate, and in which
    parameter group (motion / detector) arrays of different rank are mixed."""
    rm = {len(s) for s in ev['ms']}
    rd = {len(s) for s in ev['ds']} if ev['q'] in ('detpt', 'd2s') else set()
    if len(rm) > 1:
        return 'differ-within-parameter', 'motion'
    if len(rd) > 1:
        return 'differ-within-parameter', 'detector'
    if rd and rm != rd and not (rm | rd <= {0, 1}):
        return 'differ-between-parameters', 'none'
    return 'equal', 'none'


def shape_sig(ev, clause):
    ranks, group = rank_class(ev)
    return {'cls': ev['cls'], 'det': ev.get('det', 'flat'), 'form': 'array-parameters', 'clause': clause, 'ranks': ranks,
            'mixed_group': group}


def report_event(ctx, seen, ev, info, clause, tlc=None):
    """Route a rejected event (by the Python comparison with the export or by the TLC trace spec)."""
    k = ev['k']
    if k == 'val':
        stage = 'trace' if tlc else 'replay'
        d = {'stage': stage, 'g': ev['g'], 'a': ev['a'], 'u': ev['u'], 'form': ev['form'], 'variant': info['variant'],
             'seed': info['seed'], 'observed': ev, 'info': {x: y for x, y in info.items() if x != 'exp'}}
        if 'exp' in info:
            d['expected'] = info['exp']
        if tlc:
            d['tlc_clauses'] = tlc
        sig = signature(ev['g'], ev['form'], clause, info.get('where', 'query'))
        if ev.get('mutated'):
            sig['mutated'] = ev['mutated']
        report(ctx, seen, sig, d)
    elif k == 'vec':
        sig = signature(ev['g'], 'backend-vectors', clause, 'backend-vectors')
        sig['fn'] = ev['fn'] or 'conversion'
        report(ctx, seen, sig, {'stage': 'backend-vectors', 'g': ev['g'], 'a': ev['a'], 'variant': info['variant'],
                                'observed': ev, 'info': info, 'tlc_clauses': tlc})
    elif k == 'cover':
        axes = [i for i, x in enumerate(ev['exc']) if x > 4]
        for ax in (axes or [0]):
            report(ctx, seen, {'factory': ev['fac'], 'clause': clause,
                               'axis': ('width', 'height')[ax] if ev['exc'] else 'n/a', 'dim': ev['space'][:2]},
                   {'stage': 'factory', 'factory': ev['fac'], 'space': ev['space'], 'kwargs': info['kwargs'],
                    'observed': ev, 'info': info})
    elif k == 'shape':
        report(ctx, seen, shape_sig(ev, clause), {'stage': 'shape', 'event': ev, 'expected': info['exp'], 'exc': info['exc']})
    else:
        sig = {'cls': ev['cls'], 'form': ev.get('form', 'slice'), 'clause': clause}
        if ev.get('mutated'):
            sig['mutated'] = ev['mutated']
        report(ctx, seen, sig, {'stage': 'slice', 'event': ev, 'expected': info['exp'], 'exc': info['exc'],
                                'history': info.get('history'), 'geometry': info.get('geometry')})


# ------------------------------------------------------------------ check
def run(ctx):
    quick = ctx.tier == 'quick'
    ctx.rule = ('configurations (geometry descriptor x angle x detector parameter) exported by TLC from GeomMachine, '
                'replayed on real geometry objects in the calling forms scalar / vectorised / broadcast / slice / '
                'original-after-slice; all shape cases and slice cases of MC_GeomShape on every class; factory volumes; '
                'random rational configurations. distinct = hash of (descriptor, angle, parameter, form); non-trivial = '
                'angle is not a multiple of pi/2 or the frame is not the class default')
    ctx.assumptions += [
        'parameters are rational points of the unit circle / sphere passed as floats (theta = atan2(4, 3) ...); true values '
        'have denominators <= 1e5 (verified by TLC per event), observations are snapped with tolerance 2e-12',
        'normalised det_to_src is relational-only (unit length, parallel and equally oriented to the un-normalised vector, '
        'quantised 2^-30, slack 4)',
        'vectorised results are compared with single evaluation with slack 4*2^-30 relative (not bit-wise: a different '
        'summation order is legitimate) and entry-wise with the model',
        'the tangent direction of source / detector shifts is the direction of motion of the counter-clockwise rotation '
        '(docstring: "a vector tangent to the trajectory")',
        'shift functions are constant; Parallel3dEulerGeometry has no __getitem__ (slicing not demanded of it); empty '
        'slices and negative steps are outside the claim',
        'factory coverage: every corner of the volume at every angle of the produced geometry; helical_geometry: '
        'horizontal detector axis only (the vertical extent is a Tam-Danielsson window, not full coverage)',
        'output shape rule as documented: broadcast(bcast_mparam, bcast_dparam).shape + (ndim,)',
        'histories (GeomHistory): constructor arrays are float64 ndarrays owned by the caller and overwritten after '
        'construction; arrays handed out by the geometry are overwritten by the caller (a read-only array that refuses '
        'the write is fine); every later query must answer like the history-free reference of the construction parameters']
    try:
        import astra  # noqa: F401
    except Exception:
        ctx.skip('ASTRA is not installed: astra_projection_geometry / astra_data / projectors are not exercised (the '
                 'pure-NumPy conversions astra_*_geom_to_vec are: stage 2b)')
    work = ctx.work
    tier = 'quick' if quick else 'thorough'
    timing = ctx.extra.setdefault('timing_s', {})
    t_sec = time.time()

    # ---- 1. model runs (parallel) ----
    exp_geom = os.path.join(work, 'geom_cases.ndjson')
    exp_shape = os.path.join(work, 'shape_cases.ndjson')
    base_env = {'GEOM_TIER': tier, 'OUT_FILE': os.devnull, 'GEOM_FIXED_SLICE': FIXED_SLICE,
                'GEOM_FIXED_CURV': FIXED_CURV, 'GEOM_FIXED_COVER': FIXED_COVER}
    base_env['GEOM_CLS'] = 'all'
    base_env.update(GEOM_FIXED_INPUT_ALIAS=FIXED_INPUT_ALIAS, GEOM_FIXED_ATTR_ALIAS=FIXED_ATTR_ALIAS,
                    GEOM_HISTORY_MODEL='ref')
    exp_hist = os.path.join(work, 'history_cases.ndjson')
    classes = ('par2d', 'fan', 'par3dax', 'par3deu', 'cone')
    jobs = [('props', 'MC_Geom.tla', 'MC_Geom_props.cfg', base_env, 6, 'ok'),
            ('shape-slice-rules', 'MC_GeomShape.tla', 'MC_GeomShape.cfg', dict(base_env, OUT_FILE=exp_shape), 1, 'ok'),
            ('selftest-bogus', 'MC_Geom.tla', 'MC_Geom_bogus.cfg', base_env, 2, 'any'),
            ('history-reference', 'MC_GeomHistory.tla', 'MC_GeomHistory_export.cfg', dict(base_env, OUT_FILE=exp_hist), 1, 'ok'),
            ('impl-HistoryFree', 'MC_GeomHistory.tla', 'MC_GeomHistory_ref.cfg',
             dict(base_env, GEOM_HISTORY_MODEL='impl'), 1, 'any')]
    for c in classes:       # export runs are single-worker (lines must not interleave): one per class, in parallel
        jobs.append(('export-' + c, 'MC_Geom.tla', 'MC_Geom_export.cfg',
                     dict(base_env, OUT_FILE=exp_geom + '.' + c, GEOM_CLS=c), 1, 'ok'))
    for inv in ('SliceImplOK', 'WidthImplOK', 'HeightImplOK', 'ShapeImplOK'):
        jobs.append(('impl-' + inv, 'MC_GeomImpl.tla', 'MC_GeomImpl_%s.cfg' % inv, base_env, 2, 'any'))

    def go(j):
        return j, run_tlc(j[1], j[2], work, env=j[3], workers=j[4], timeout=3000)
    with ThreadPoolExecutor(max_workers=len(jobs)) as ex:
        results = list(ex.map(go, jobs))
    layer_c = {}
    for j, res in results:
        ctx.add_tlc(j[0], res, expect=j[5])
        if j[0] == 'selftest-bogus' and res.status != 'counterexample':
            raise MachineryError('the deliberately false invariant was not refuted: model run is vacuous')
        if j[0].startswith('impl-'):
            layer_c[j[0][5:]] = res.status
    ctx.extra['layer_C_refinement'] = layer_c
    expected_c = {'SliceImplOK': 'ok' if FIXED_SLICE == FIXED_CURV == '1' else 'counterexample',
                  'WidthImplOK': 'ok' if FIXED_COVER == '1' else 'counterexample',
                  'HeightImplOK': 'ok' if FIXED_COVER == '1' else 'counterexample', 'ShapeImplOK': 'ok',
                  'HistoryFree': 'ok' if FIXED_INPUT_ALIAS == FIXED_ATTR_ALIAS == '1' else 'counterexample'}
    for k, v in expected_c.items():
        if layer_c.get(k) != v:
            raise MachineryError('layer C run %s: %s, expected %s for the mirrored code' % (k, layer_c.get(k), v))

    timing['tlc_models'] = round(time.time() - t_sec, 1)
    t_sec = time.time()

    # ---- 2. replay of the exported configurations ----
    events = []            # (event, info)
    lines = []
    for c in classes:
        with open(exp_geom + '.' + c) as f:
            lines += f.readlines()
    if not lines:
        raise MachineryError('empty geometry export')
    viol_seen = {}
    for ln, line in enumerate(lines):
        case = json.loads(line)
        g, a, u, exp = case['g'], case['a'], case['u'], case['exp']
        forms = ['scalar', 'vector', 'bcast']
        if g['cls'] in SLICEABLE:
            forms += ['slice', 'orig-after-slice']
        for fi, form in enumerate(forms):
            variants = [{'scale': bool((ln + fi + ctx.seed) % 2), 'check_bounds': bool((ln // 2 + ctx.seed) % 3),
                         'as_array': bool((ln // 3 + fi) % 2)}]
            if form in ('slice', 'orig-after-slice'):
                # aliasing of caller-owned arrays matters here: both hand-over forms, independent of the seed
                variants = [dict(variants[0], as_array=False), dict(variants[0], as_array=True)]
            if not quick:
                variants.append({'scale': not variants[0]['scale'], 'check_bounds': True, 'always_translation': True,
                                 'as_array': not variants[0]['as_array']})
            for variant in variants:
                if form in ('slice', 'orig-after-slice'):
                    variant = dict(variant, check_bounds=True)
                ev, info = observe(g, a, u, form, variant, ctx.seed * 100003 + ln * 7 + fi)
                info['exp'] = exp
                events.append((ev, info))
                nontriv = frame_class(g) != 'default' or not _axis_aligned(a)
                ctx.count([g, a, u, form], nontriv)
                bad = compare(ev, exp)
                if len(ctx.samples) < 3 and nontriv and form != 'scalar' and ln % 211 == 5:
                    ctx.sample({'descriptor': g, 'angle': a, 'param': u, 'form': form, 'expected': exp,
                                'observed': {k: ev[k] for k in ('rot', 'ref', 'detpt', 'd2s')}})
                for clause in bad:
                    report_event(ctx, viol_seen, ev, info, clause)
    ctx.traces += len(events)
    ctx.extra['replayed_configurations'] = len(lines)

    # ---- 2b. per-angle back-end vectors (astra_setup.py: pure NumPy, no ASTRA needed) on every exported flat-detector
    #          configuration of the classes the conversions accept: off-centre detector partition, unequal cell sides,
    #          an angle partition that has the exactly known angle as a grid point; judged by Trace_Geom (kind "vec")
    nvec = 0
    seen_vec = set()
    for ln, line in enumerate(lines):
        case = json.loads(line)
        g, a = case['g'], case['a']
        if g['cls'] not in ('cone', 'fan', 'par3dax') or g['det']['kind'] != 'flat':
            continue
        key = json.dumps([g, a], sort_keys=True)
        if key in seen_vec:
            continue
        seen_vec.add(key)
        variant = {'scale': bool((ln + ctx.seed) % 2), 'check_bounds': True, 'as_array': bool(ln % 3 == 0)}
        ev = {'k': 'vec', 'g': g, 'a': a, 'u': [], 'px': [], 'fn': '', 'row': [], 'err': '', 'form': 'backend-vectors'}
        info = {'variant': variant, 'seed': ctx.seed, 'where': 'backend-vectors'}
        try:
            ev['fn'], ev['row'], ev['u'], ev['px'] = G.backend_vectors(g, a, variant)
        except Exception as e:
            ev['err'] = type(e).__name__
            info['exc'] = type(e).__name__ + ': ' + str(e)[:160]
            ev['u'] = [{'c': [1, 1], 'q': [0, 1], 's': [0, 1]}] * (1 if g['cls'] == 'fan' else 2)
            ev['px'] = [[1, 1]] * (1 if g['cls'] == 'fan' else 2)
        events.append((ev, info))
        ctx.count(['vec', g, a], frame_class(g) != 'default' or not _axis_aligned(a))
        nvec += 1
    ctx.traces += nvec
    ctx.extra['backend_vector_rows_checked'] = nvec

    timing['replay'] = round(time.time() - t_sec, 1)
    t_sec = time.time()

    # ---- 3. shape rule, slicing rule, factories ----
    with open(exp_shape) as f:
        scases = [json.loads(x) for x in f]
    geoms = shape_geoms()
    sh_ev = shape_events([c for c in scases if c['mode'] == 'shape'], geoms)
    sl_ev = slice_events([c for c in scases if c['mode'] == 'slice'])
    for ev, info in sh_ev:
        ctx.count(['shape', ev['cls'], ev['q'], ev['ms'], ev['ds']], any(s != [] for s in ev['ms'] + ev['ds']))
        if ev['obs'] != info['exp']:
            clause = 'shape-accepts-incompatible' if info['exp'] == [-1] else ('shape-raised' if ev['obs'] == [-1] else 'shape-rule')
            report_event(ctx, viol_seen, ev, info, clause)
    for ev, info in sl_ev:
        ctx.count(['slice', ev['cls'], ev['sl']], True)
        if ev['obs'] != info['exp']:
            report_event(ctx, viol_seen, ev, info, 'slice-angles')
    fac_ev = [factory_event(*c) for c in factory_cases(quick)]
    for ev, info in fac_ev:
        ctx.count(['factory', ev['fac'], ev['space'], info['kwargs']], True)
    events += sh_ev + sl_ev + fac_ev
    ctx.traces += len(sh_ev) + len(sl_ev) + len(fac_ev)

    timing['shape_slice_factories'] = round(time.time() - t_sec, 1)
    t_sec = time.time()

    # ---- 3b. histories: caller-owned constructor arrays / returned arrays overwritten after construction ----
    with open(exp_hist) as f:
        hists = [json.loads(x)['hist'] for x in f]
    singles = [h for h in hists if len(h) == 3]
    pairs = [h for h in hists if len(h) == 4]
    if not singles or not pairs:
        raise MachineryError('history export incomplete')
    hist_ev = []
    names = list(HIST_GEOMS)
    for name in names:
        base = history_events(name, [], '')
        base_key = {k: base[0][0][k] for k in ('rot', 'ref', 'axes', 'detpt', 'src', 'd2s', 'err')} if base else None
        bad_single = set()
        for h in singles:
            lab = mut_label(h[1])
            evs = history_events(name, h[1:-1], lab)
            if evs and ({k: evs[0][0][k] for k in base_key} != base_key or any(e['k'] == 'slice' and 0 in e['obs'] for e, _ in evs)):
                bad_single.add(lab)
            hist_ev += evs
        for pi, h in enumerate(pairs):
            if quick and (pi + names.index(name)) % 5 != 0:
                continue               # quick: every ordered pair on two of the ten history geometries
            labs = sorted({mut_label(h[1]), mut_label(h[2])} & bad_single)
            # a pair is attributed to a mutation that already corrupts on its own (family level), else it is new
            hist_ev += history_events(name, h[1:-1], labs[0] if labs else 'pair')
    for ev, info in hist_ev:
        ctx.count(['history', info.get('variant', info).get('geometry') if ev['k'] == 'val' else info.get('geometry'),
                   info.get('variant', info).get('history') if ev['k'] == 'val' else info.get('history')], True)
    events += hist_ev
    ctx.traces += len(hist_ev)
    ctx.extra['history_replays'] = len(hist_ev)
    timing['histories'] = round(time.time() - t_sec, 1)
    t_sec = time.time()

    # ---- 4. random driver ----
    rnd = random.Random(ctx.seed * 7919 + 19)
    nrand = 700 if quick else 15000
    for i in range(nrand):
        g, a, u = random_case(rnd)
        form = rnd.choice(['scalar', 'vector', 'bcast'] + (['slice'] if g['cls'] in SLICEABLE else []))
        variant = {'scale': rnd.random() < 0.5, 'check_bounds': True if form == 'slice' else rnd.random() < 0.7,
                   'as_array': rnd.random() < 0.5}
        ev, info = observe(g, a, u, form, variant, rnd.randrange(10 ** 9))
        info['random'] = True
        events.append((ev, info))
        ctx.count([g, a, u, form], True)
        ctx.traces += 1

    timing['random_driver'] = round(time.time() - t_sec, 1)
    t_sec = time.time()

    # ---- 5. TLC trace validation (chunks, in parallel) ----
    chunk = 800
    files = []
    for ci in range(0, len(events), chunk):
        p = os.path.join(work, 'trace_%d.ndjson' % (ci // chunk))
        with open(p, 'w') as f:
            for k, (ev, info) in enumerate(events[ci:ci + chunk]):
                e = dict(ev)
                e['id'] = ci + k
                f.write(json.dumps(e) + '\n')
        files.append(p)

    def val(p):
        return p, run_tlc('Trace_Geom.tla', 'Trace_Geom.cfg', work, env={'TRACE_FILE': p}, workers=1, timeout=3000)
    with ThreadPoolExecutor(max_workers=14) as ex:
        vres = list(ex.map(val, files))
    timing['trace_validation'] = round(time.time() - t_sec, 1)
    nfail = nskip = 0
    for p, res in vres:
        ctx.add_tlc('trace-' + os.path.basename(p), res)
        # TLC wraps long printed values over several lines: bracket-matching parsers, never line regexes
        nskip += len(parse_tagged(res.output, 'SKIP'))
        for _line, eid, clauses_text in parse_fails(res.output):
            ev, info = events[eid]
            nfail += 1
            clauses = re.findall(r'"([\w-]+)"', clauses_text)
            if not clauses:
                raise MachineryError('unparsable FAIL record of the trace spec: %r' % clauses_text[:200])
            for clause in clauses:
                report_event(ctx, viol_seen, ev, info, clause, tlc=clauses_text)
    # layer C mirrors the current code: tell when the real code has moved on (drift, not a verdict)
    fams = [json.loads(k) for k in viol_seen]
    saw_slice = any(f.get('cls') == 'par2d' and f.get('form') == 'slice' and f.get('clause') == 'value' for f in fams)
    saw_curv = any(f.get('where') == 'getitem' and f.get('det') == 'curved' for f in fams)
    saw_cover = any(f.get('clause') == 'coverage' for f in fams)
    saw_in = any(str(f.get('mutated', '')).startswith('caller:') for f in fams)
    saw_attr = any('returned-attr' in str(f.get('mutated', '')) for f in fams)
    for flag, saw, what in ((FIXED_SLICE, saw_slice, 'Parallel2dGeometry.__getitem__ (FIXED_SLICE)'),
                            (FIXED_CURV, saw_curv, 'ConeBeamGeometry.__getitem__ curvature (FIXED_CURV)'),
                            (FIXED_COVER, saw_cover, 'cone_beam_geometry extents (FIXED_COVER)'),
                            (FIXED_INPUT_ALIAS, saw_in, 'constructors keeping caller arrays (FIXED_INPUT_ALIAS)'),
                            (FIXED_ATTR_ALIAS, saw_attr, 'attributes returned by reference (FIXED_ATTR_ALIAS)')):
        if flag == '0' and not saw:
            ctx.drift_note('layer C still mirrors the defect in %s but the real code no longer shows it' % what)
        if flag == '1' and saw:
            ctx.drift_note('layer C models the repaired %s but the real code shows the defect' % what)
    if nskip > 0.2 * max(1, nrand):
        raise MachineryError('%d random events left the declared lattice (driver pools too wide)' % nskip)
    ctx.extra['trace_events_validated_by_tlc'] = len(events)
    ctx.extra['trace_events_rejected_by_tlc'] = nfail
    ctx.extra['trace_events_outside_lattice_skipped'] = nskip
    ctx.extra['public_calls_observed'] = sum(7 if e['k'] == 'val' else 1 for e, _ in events)
    ctx.extra['uncovered'] = ['astra_setup.py apart from the *_geom_to_vec conversions (ASTRA absent)', 'Parallel3dEulerGeometry slicing (no __getitem__)',
                              'angle-dependent shift functions', 'surface_deriv / surface_measure']
    ctx.exhaustive = True    # every exported configuration / shape case / slice case of the bounded models is replayed


def _axis_aligned(a):
    if isinstance(a, list):
        return all(_axis_aligned(x) for x in a)
    return a['m'] == 0 or a['bc'][0] == 0 or a['bs'][0] == 0


# ------------------------------------------------------------------ replay of a violation file
def replay(body):
    d = body['detail']
    st = d.get('stage')
    if st in ('replay', 'trace') and d.get('form') == 'history':
        v = d['variant']
        got = history_events(v['geometry'], v['history'], d['observed'].get('mutated', ''))
        ev = got[0][0]
        old = d['observed']
        same = all(ev[k] == old[k] for k in ('rot', 'ref', 'axes', 'detpt', 'src', 'd2s', 'err'))
        print('history geometry:', v['geometry'], ' history:', dumps(v['history']))
        print('observed after the history:', dumps({k: ev[k] for k in ('rot', 'ref', 'detpt', 'err')}))
        print('TLC clauses then:', d.get('tlc_clauses'))
        ok = not same
    elif st in ('replay', 'trace'):
        ev, info = observe(d['g'], d['a'], d['u'], d['form'], d['variant'], d['seed'])
        print('descriptor:', dumps(d['g']))
        print('angle     :', dumps(d['a']), ' param:', dumps(d['u']), ' form:', d['form'], d['variant'])
        if 'expected' in d:
            bad = compare(ev, d['expected'])
            print('expected  :', dumps(d['expected']))
        else:
            old = d['observed']
            bad = [k for k in ('rot', 'ref', 'axes', 'detpt', 'src', 'd2s', 'rel', 'err') if ev[k] == old[k]]
            bad = ['same-observation-as-recorded (TLC clauses %s)' % d.get('tlc_clauses')] if len(bad) == 8 else []
        print('observed  :', dumps({k: ev[k] for k in ('rot', 'ref', 'axes', 'detpt', 'src', 'd2s', 'rel', 'dev', 'err')}),
              info.get('exc', ''))
        print('clauses   :', bad)
        ok = not bad
    elif st == 'factory':
        ev, info = factory_event(d['factory'], d['space'], d['kwargs'])
        print('factory   :', d['factory'], d['space'], d['kwargs'])
        print('excess of projected corners beyond the detector / half extent, units 2^-20:', ev['exc'], ev['err'], info)
        ok = not ev['err'] and all(x <= 4 for x in ev['exc'])
    elif st == 'shape':
        e = d['event']
        got = shape_events([{'ar': [len(e['ms']), len(e['ds'])], 'ms': e['ms'], 'ds': e['ds'], 'exp': d['expected'],
                             'mexp': d['expected']}], shape_geoms())
        got = [x for x in got if x[0]['cls'] == e['cls'] and x[0]['q'] == e['q'] and
               x[0].get('det', 'flat') == e.get('det', 'flat')]
        print('shape case:', dumps(e), 'expected', d['expected'], 'observed now', got[0][0]['obs'], got[0][1]['exc'])
        ok = got[0][0]['obs'] == d['expected']
    else:
        e = d['event']
        idx = SLICEABLE.index(e['cls'])
        got = slice_events([{'sl': {'n': 1, 'start': 0, 'stop': 1, 'step': 1}, 'exp': [1]}] * idx + [{'sl': e['sl'], 'exp': d['expected']}])
        print('slice case:', dumps(e), 'expected', d['expected'], 'observed now', got[-1][0]['obs'], got[-1][1]['exc'])
        ok = got[-1][0]['obs'] == d['expected']
    print('REPRODUCED' if not ok else 'NOT-REPRODUCED')
    return 1 if not ok else 0

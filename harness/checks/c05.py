"""C05 - every exposed adjoint satisfies <Ax,y> = <x,A*y> in the spaces' own inner products.

  A. Arithmetic combinations: every LINEAR program of the OpMachine (TLC export, layer-A reference adjoint
     N = Gd^-1 M^H Gr computed from the documented table, weighted and complex profiles) is rebuilt from real
     ODL operators; expr.adjoint is applied to every basis vector of the range and compared with the
     reference column; adjoint.domain/range are checked; expr.adjoint.adjoint must act like expr.
     Every observation is also validated by TLC (Trace_OpMachine, kind "adj").
  B. Built-in operators: for every recipe of harness/linops.py (built-in linear classes x options: weightings,
     complex dtypes, nodes on the boundary, padding modes, product-space blocks ...) the full matrices of A,
     A.adjoint and A.adjoint.adjoint and the Gram weights of both spaces are recorded from the real code and
     TLC (Trace_Adjoint) decides the identity entry-wise, i.e. for ALL x and y.
"""
import json
import os
import re
from concurrent.futures import ThreadPoolExecutor

import numpy as np
import odl

from ..tlc import run_tlc, parse_fails
from ..common import dumps, MachineryError
from .. import oputil as U
from .. import linops as L
from .c04 import validate_events

NANV = [[0, 0], [0, 0]]
ONE = [[1, 1], [0, 1]]
ZERO = [[0, 1], [0, 1]]


def unit(n, j):
    return [ONE if i == j else ZERO for i in range(n)]


def check_linear_program(ctx, line, sp, events, profile, stage):
    e = line['prog']
    sig0 = {'part': 'programs', 'profile': profile, 'top': U.top2(e), 'size': 'big' if sp.big else 'small',
            'has_mat_leaf': 'yes' if '"t": "mat"' in json.dumps(e) else 'no'}
    detail0 = {'stage': stage, 'line': line, 'profile': profile, 'big': sp.big}
    nontriv = U.n_comb(e) >= 1
    try:
        op = U.build(e, sp)
    except Exception:
        return          # an expression the library cannot build is C04's business
    if not op.is_linear:
        return          # flag problems belong to C04
    try:
        adj = op.adjoint
    except NotImplementedError:
        # the operator does not return an adjoint (e.g. a linear Functional-class leaf): nothing is demanded
        ctx.extra['linear_programs_without_adjoint'] = ctx.extra.get('linear_programs_without_adjoint', 0) + 1
        return
    except Exception as ex:
        ctx.count([e, profile, sp.big], nontriv)
        ctx.violation(dict(sig0, clause='adjoint-raised', exc=type(ex).__name__), dict(detail0, exc=str(ex)[:200]))
        return
    if U.space_name(sp, adj.domain) != line['ran'] or U.space_name(sp, adj.range) != line['dom']:
        ctx.violation(dict(sig0, clause='adjoint-maps-wrong-spaces'), detail0)
        return
    nr = 2 if line['ran'] == 'V' else 1
    nd = 2 if line['dom'] == 'V' else 1
    D = U.den_of([line['adj'], line['mat']])
    for j in range(nr):
        ctx.count([e, 'adj', j, profile, sp.big], nontriv)
        y_abs = unit(nr, j)
        exp = [line['adj'][i][j] for i in range(nd)]
        try:
            obs, note = sp.project(line['dom'], adj(sp.point(line['ran'], y_abs)), D)
            err = ''
        except Exception as ex:
            obs, note, err = [NANV] * nd, '', type(ex).__name__
        events.append({'kind': 'adj', 'prog': e, 'x': y_abs, 'd': [], 'val': obs, 'err': err, 'mode': 'adjoint',
                       'profile': profile})
        if err:
            ctx.violation(dict(sig0, clause='adjoint-call-raised', exc=err), dict(detail0, y=y_abs))
        elif obs != exp:
            ctx.violation(dict(sig0, clause='adjoint-value'), dict(detail0, y=y_abs, observed=obs, expected=exp, note=note))
    # adjoint of the adjoint acts like the operator
    try:
        aa = adj.adjoint
        Dv = U.den_of([line['vals'], line['pts']])
        for x_abs, exp in zip(line['pts'], line['vals']):
            obs, note = sp.project(line['ran'], aa(sp.point(line['dom'], x_abs)), Dv)
            events.append({'kind': 'eval', 'prog': e, 'x': x_abs, 'd': [], 'val': obs, 'err': '', 'mode': 'biadjoint',
                           'profile': profile})
            if obs != exp:
                ctx.violation(dict(sig0, clause='adjoint-adjoint-value'), dict(detail0, x=x_abs, observed=obs, expected=exp))
    except Exception as ex:
        ctx.violation(dict(sig0, clause='adjoint-adjoint-raised', exc=type(ex).__name__), dict(detail0, exc=str(ex)[:200]))
    if len(ctx.samples) < 3 and U.n_comb(e) >= 2 and hash(json.dumps(e, sort_keys=True)) % 31 == 0:
        ctx.sample({'program': U.shape_of(e), 'profile': profile, 'reference_adjoint_matrix': line['adj'],
                    'matrix': line['mat'], 'real_adjoint_class': type(adj).__name__})


def builtin_events(ctx):
    events, meta = [], []
    uncovered, noadj = [], []
    for family, opts, fn in L.recipes(ctx.tier):
        sig = dict(opts)
        sig.update({'part': 'builtin', 'class': family})
        try:
            op = fn()
        except Exception as ex:
            uncovered.append('%s %s: recipe failed to construct (%s)' % (family, opts, type(ex).__name__))
            continue
        ev = {'cls': family, 'err': '', 'M': [], 'N': [], 'N2': [], 'Gd': [], 'Gr': [], 'exact': True}
        try:
            obs = L.observe_adjoint(op, biadj=True)
            if obs is None:
                noadj.append('%s %s' % (family, opts))
                continue
            if not obs['maps_ok']:
                ev['err'] = 'adjoint-maps-wrong-spaces'
            else:
                ev.update(L.encode_event(obs))
        except Exception as ex:
            ev['err'] = type(ex).__name__
            ev['msg'] = str(ex)[:160]
        events.append(ev)
        meta.append((sig, opts, family))
        nontriv = True
        ctx.count([family, opts], nontriv)
    ctx.extra['recipes_without_adjoint_exempt'] = noadj[:40]
    ctx.extra['recipes_not_constructed'] = uncovered[:40]
    ctx.extra['recipes_not_constructed_count'] = len(uncovered)
    return events, meta


def run(ctx):
    quick = ctx.tier == 'quick'
    ctx.rule = ('(A) all linear programs of the OpMachine export (<= 3 steps exhaustively + simulated deeper ones) x basis '
                'vectors x {real, weighted real, complex} x {2, 120 entries}; (B) built-in linear operator recipes '
                '(class x options) decided through full matrices; distinct = hash(program|recipe, basis vector, '
                'profile); non-trivial = at least one combinator / every built-in recipe')
    ctx.assumptions += [
        'Gram matrices of ODL spaces are diagonal in the canonical basis (weights observed as <e_i,e_i>)',
        'operators whose documentation declares the adjoint approximate (Resampling, RayTransform, deformation) are exempt',
        'irrational matrix entries (DFT n=3, FT, wavelets) are decided with 2^-10 quantisation slack']
    work = ctx.work
    jobs = []
    for prof in ('R', 'RW', 'C'):
        jobs.append(('exh', prof, 's' if (quick or prof != 'R') else 'm3', None, None))
        jobs.append(('sim', prof, 'l', 'num=%d' % (150 if quick else 1500), 7))

    def go(j):
        name, prof, size, sim, depth = j
        out, res = U.export_programs(ctx, prof, size, name, simulate=sim, depth=depth,
                                     seed=(ctx.seed + 2) if sim else None)
        return j, out, res

    def gosane(prof):
        return 'sane-' + prof, run_tlc('MC_OpMachine.tla', 'MC_OpMachine_sane.cfg', work,
                                       env={'OM_PROFILE': prof, 'OM_SIZE': 's', 'OUT_FILE': os.devnull}, workers=3,
                                       timeout=1500)
    with ThreadPoolExecutor(max_workers=6) as ex:
        f1 = [ex.submit(go, j) for j in jobs]
        f2 = [ex.submit(gosane, p) for p in ('RW', 'C')]
        exports = [f.result() for f in f1]
        for f in f2:
            n, r = f.result()
            ctx.add_tlc(n, r)
    events = []
    nprog = 0
    for (name, prof, size, sim, depth), out, res in exports:
        ctx.add_tlc('export-%s-%s' % (name, prof), res)
        lines = [ln for ln in U.load_lines(out) if ln['lin'] and ln.get('supported', True)]
        small, big = U.Spaces(prof, big=False), U.Spaces(prof, big=True)
        for i, line in enumerate(lines):
            nprog += 1
            check_linear_program(ctx, line, small, events, prof, name)
            if (not quick) or (i + ctx.seed) % 5 == 0:
                check_linear_program(ctx, line, big, events, prof, name)
    if nprog == 0:
        raise MachineryError('no linear program exported')
    ctx.traces += nprog
    ctx.extra['linear_programs_replayed'] = nprog
    fails = validate_events(ctx, events, name='adjtrace')
    for eid, clauses in fails:
        ev = events[eid]
        ctx.violation({'part': 'programs', 'profile': ev['profile'], 'top': U.top2(ev['prog']),
                       'has_mat_leaf': 'yes' if '"t": "mat"' in json.dumps(ev['prog']) else 'no',
                       'clause': 'trace-' + ev['mode']}, {'stage': 'trace', 'event': ev, 'tlc_clauses': clauses})
    ctx.extra['program_events_validated_by_tlc'] = len(events)

    # ---- B: built-in catalogue
    bev, meta = builtin_events(ctx)
    p = os.path.join(work, 'builtin_adj.ndjson')
    with open(p, 'w') as f:
        for k, ev in enumerate(bev):
            e = {k2: v for k2, v in ev.items() if k2 != 'msg'}
            e['id'] = k
            f.write(json.dumps(e) + '\n')
    res = run_tlc('Trace_Adjoint.tla', 'Trace_Adjoint.cfg', work, env={'TRACE_FILE': p}, workers=1, timeout=1500)
    ctx.add_tlc('trace-builtin-adjoints', res)
    ctx.traces += len(bev)
    nfail = 0
    for _ln, k, _cl in parse_fails(res.output):
        if True:
            nfail += 1
            sig, opts, family = meta[k]
            for clause in sorted(set(re.findall(r'<<\s*"([\w-]+)"', _cl))):
                s = dict(sig, clause=clause)
                if clause == 'raised':
                    s['exc'] = bev[k]['err']
                ctx.violation(s, {'stage': 'builtin', 'class': family, 'options': opts, 'event': bev[k],
                                  'tlc_clauses': _cl})
    ctx.extra['builtin_recipes_checked'] = len(bev)
    ctx.extra['builtin_recipes_rejected_by_tlc'] = nfail
    ctx.extra['builtin_exact_mode'] = sum(1 for e in bev if e['exact'] and not e['err'])
    if bev:
        good = [e for e in bev if not e['err']]
        if good:
            ctx.sample({'builtin_event': {k: good[len(good) // 2][k] for k in ('cls', 'M', 'N', 'Gd', 'Gr', 'exact')}})
    # ---- product-space block operators with a layer-A meaning (BlockOpSem / BlockOpMachine): the adjoint clauses
    from ..extras import blockops
    blockops.run_stage_c05(ctx)
    ctx.exhaustive = True


def replay(body):
    d = body['detail']
    if body.get('signature', {}).get('part') == 'blockops':
        from ..extras import blockops
        return blockops.replay(body)
    if d.get('stage') == 'builtin':
        hit = None
        for family, opts, fn in L.recipes('thorough'):
            if family == d['class'] and opts == d['options']:
                hit = fn
        if hit is None:
            print('recipe not found')
            return 2
        try:
            op = hit()
            obs = L.observe_adjoint(op, biadj=True)
        except Exception as ex:
            print('raised', type(ex).__name__, ex)
            print('REPRODUCED')
            return 1
        M, N, Gd, Gr = obs['M'], obs['N'], np.array(obs['Gd']), np.array(obs['Gr'])
        lhs = Gd[:, None] * N
        rhs = np.conj(M.T) * Gr[None, :]
        print('class', d['class'], d['options'])
        print('max |Gd N - M^H Gr| =', float(np.max(np.abs(lhs - rhs))) if lhs.size else 'shape')
        if obs['N2'] is not None:
            print('max |adj.adj - A| =', float(np.max(np.abs(obs['N2'] - M))))
        bad = (lhs.shape != rhs.shape) or np.max(np.abs(lhs - rhs)) > 1e-6 or \
            (obs['N2'] is not None and np.max(np.abs(obs['N2'] - M)) > 1e-6)
        print('REPRODUCED' if bad else 'NOT-REPRODUCED')
        return 1 if bad else 0
    if 'line' in d:
        line, prof = d['line'], d['profile']
        sp = U.Spaces(prof, big=d.get('big', False))
        op = U.build(line['prog'], sp)
        print('program', U.shape_of(line['prog']), 'reference adjoint', dumps(line['adj']))
        try:
            adj = op.adjoint
            nr = 2 if line['ran'] == 'V' else 1
            D = U.den_of([line['adj'], line['mat']])
            bad = False
            for j in range(nr):
                obs, _ = sp.project(line['dom'], adj(sp.point(line['ran'], unit(nr, j))), D)
                exp = [line['adj'][i][j] for i in range(len(line['adj']))]
                print(' column', j, 'observed', dumps(obs), 'expected', dumps(exp))
                bad = bad or obs != exp
        except Exception as ex:
            print('raised', type(ex).__name__, ex)
            bad = True
        print('REPRODUCED' if bad else 'NOT-REPRODUCED')
        return 1 if bad else 0
    print(dumps(d)[:800])
    return 1

"""C11 - optimised solvers match their reference implementations and resume exactly.

Pipeline (DESIGN 4/C11):
  1. TLC, SolverMachine: the four memory-optimised solvers (admm_linearized, adupdates, doubleprox_dc,
     pdhg) as statement-level programs on an aliased heap (spec/impl/Solver*Impl.tla) composed with the
     textbook / `_simple` iteration (spec/sem/SolverSem.tla): lock-step refinement after every outer
     iteration, callback exactly once per iteration with the current iterate, no uninitialised buffer
     ever read, and a Return;Start boundary after n of n+m <= 6 iterations (fresh temporaries, only the
     API-visible state carried) leaves the behaviour unchanged.  The iterate-only solvers (landweber,
     kaczmarz, proximal_gradient, mlem, constant-step steepest_descent) are modelled one action per
     iteration.  Layer A sanity: closed-form proximals satisfy their optimality condition.
  2. TLC exports every instance of the catalogue with its exact iterate sequence (and the lattice
     denominator D_k of every iterate); each instance is replayed on REAL ODL: optimised solver,
     `_simple` sibling, split runs, under two concretisations; iterates are snapped with D_k.
  3. Seeded random instances beyond the catalogue (integer matrices up to 4x4, L1 / group-L1 on
     Pythagorean data / box / KL / L2 ... terms, dyadic steps, niter <= 20): optimised-vs-simple and
     split-vs-unsplit as relations between two real runs; all events validated by Trace_SolverMachine.

Alarm discipline: VIOLATION only for what C11 states - optimised == `_simple` iterates (admm, adupdates,
doubleprox_dc), n+m resumption (landweber, kaczmarz, proximal_gradient, mlem, steepest_descent, pdhg with
x_relax / y passed back), exactly one callback per iteration.  Disagreement with the TEXTBOOK iterates
where the two real implementations agree with each other is reported as drift.
"""
import json
import os
import random
import zlib
from collections import OrderedDict
from concurrent.futures import ThreadPoolExecutor

import numpy as np

from ..tlc import run_tlc, parse_fails
from ..common import MachineryError, dumps
from .. import solver_lib as SL

STMT = ['pdhg', 'admm', 'dpdc', 'adu']
ITER = ['landweber', 'kaczmarz', 'pg', 'mlem', 'sd']
SIBLING = ('admm', 'adu', 'dpdc')
RESUMABLE = ('pdhg',) + tuple(ITER)
# layer C mirrors the CURRENT tree: '0' since the aliased proximal of c*L1 was repaired (4ac6525)
PROX_ALIAS_ZERO = '0'


def load_export(path):
    cases = OrderedDict()
    with open(path) as f:
        for line in f:
            r = json.loads(line)
            key = json.dumps(r['inst'], sort_keys=True)
            cases.setdefault(key, {'inst': r['inst'], 'rows': {}})['rows'][r['k']] = r
    return list(cases.values())


def func_sig(inst):
    if inst['solver'] == 'adu' or inst['solver'] in ITER and inst['solver'] != 'pg':
        ks = sorted(set(SL.fkind(g) for g in inst['gs']))
        return '+'.join(ks) if ks else '-'
    return SL.fkind(inst['f'])


def sig_of(inst, clause):
    return {'solver': SL.REALNAME[inst['solver']], 'functional': func_sig(inst), 'clause': clause}


def splits_for(N, quick):
    out = [(n, N - n) for n in range(1, N)]
    if quick:
        out += [(1, 1), (2, 1), (1, 2)]
    else:
        out += [(n, m) for n in range(1, N) for m in range(1, N - n)]
    return [s for s in dict.fromkeys(out) if s[0] + s[1] <= N and s[1] >= 1]


def snapped_its(its, rows, upto):
    """[(k, snapped x_k) ...] for the iterates whose lattice is coarse enough to snap."""
    out = {}
    for k in range(1, min(upto, len(its)) + 1):
        D = rows[k]['D'] if k in rows else None
        if D is not None and D <= SL.MAXDEN:
            out[k] = SL.snapvec(its[k - 1], D)
    return out


def replay_case(args):
    """Replay one exported instance on real ODL. Returns a dict of results (picklable)."""
    case, quick, seedbit = args
    inst = case['inst']
    rows = {int(k): v for k, v in case['rows'].items()}
    sol = inst['solver']
    N = max(rows)
    res = {'viol': [], 'drift': [], 'events': [], 'counts': [], 'sample': None}
    concs = SL.applicable_concs(inst)
    if quick and len(concs) > 1:
        concs = [concs[(seedbit + zlib.crc32(inst['tag'].encode())) % 2]] if sol not in SIBLING else concs
    exp = {k: rows[k]['ref']['x'] for k in rows if k >= 1}
    nontriv = any(exp[k] != inst['x0'] for k in exp)
    for conc in concs:
        base = {'inst': inst, 'conc': conc}
        opt = SL.run_real(inst, conc, 'opt', [N], pass_state=False)
        res['counts'].append(([sol, inst['tag'], qstr(inst), conc, 'opt'], nontriv))
        if opt['err']:
            res['viol'].append((sig_of(inst, 'raised'), dict(base, stage='replay', variant='opt', segments=[N],
                                                           error=opt['err'])))
            continue
        so = snapped_its(opt['its'], rows, N)
        # -- exactly one callback per iteration
        if opt['ncb'] != [N]:
            res['viol'].append((sig_of(inst, 'callback-count'),
                                dict(base, stage='replay', variant='opt', segments=[N], callbacks=opt['ncb'])))
        # -- textbook agreement (drift level)
        tb_bad = [k for k in so if so[k] != exp[k]]
        ev = {'kind': 'exact', 'inst': inst, 'nit': N, 'ncb': opt['ncb'][0],
              'xs': [so.get(k, []) for k in range(1, N + 1)],
              'meta': dict(base, variant='opt', segments=[N], clausemap='textbook')}
        res['events'].append(ev)
        if res['sample'] is None and nontriv:
            res['sample'] = {'instance': inst['tag'], 'solver': SL.REALNAME[sol], 'concretisation': conc,
                             'D_k': [rows[k]['D'] for k in range(1, N + 1)],
                             'expected_x_last_snappable': exp[max(so)] if so else None,
                             'observed_x_last_snappable': so[max(so)] if so else None}
        # -- optimised vs `_simple`
        if sol in SIBLING:
            simp = SL.run_real(inst, conc, 'simple', [N])
            res['counts'].append(([sol, inst['tag'], qstr(inst), conc, 'simple'], nontriv))
            if simp['err']:
                res['viol'].append((sig_of(inst, 'raised'), dict(base, stage='replay', variant='simple',
                                                               segments=[N], error=simp['err'])))
            else:
                ss = snapped_its(simp['its'], rows, N)
                bad = [k for k in so if k in ss and so[k] != ss[k]]
                if len(simp['its']) != N or len(opt['its']) != N:
                    bad = bad or [0]
                if bad:
                    k0 = bad[0]
                    res['viol'].append((sig_of(inst, 'optimised-vs-simple'),
                                        dict(base, stage='replay', clause='optimised-vs-simple', segments=[N],
                                             first_bad_iteration=k0, D=rows[k0]['D'] if k0 in rows else None,
                                             optimised=so.get(k0), simple=ss.get(k0), specification=exp.get(k0),
                                             layerC_prediction=rows[k0]['impl']['x'] if k0 in rows else None)))
                elif tb_bad:
                    res['drift'].append('%s %s: optimised and _simple agree with each other but leave the textbook '
                                        'iterates at k=%d' % (SL.REALNAME[sol], inst['tag'], tb_bad[0]))
                if simp['ncb'] not in ([N], [-1]):
                    res['viol'].append((sig_of(inst, 'callback-count'),
                                        dict(base, stage='replay', variant='simple', segments=[N],
                                             callbacks=simp['ncb'])))
                pe = SL.pair_event('optimised-vs-simple', sol, N, opt['its'], simp['its'], opt['ncb'][0],
                                   simp['ncb'][0], start=SL.vec(inst['x0']))
                if pe is not None:
                    pe['meta'] = dict(base, variant='pair', segments=[N])
                    res['events'].append(pe)
        elif tb_bad:
            res['drift'].append('%s %s (%s): real iterates leave the textbook sequence at k=%d%s' % (
                SL.REALNAME[sol], inst['tag'], conc, tb_bad[0],
                ' (they follow the layer-C model)' if so[tb_bad[0]] == rows[tb_bad[0]]['impl']['x'] else ''))
        # -- resumption
        if sol in RESUMABLE:
            ref_run = opt
            if sol == 'pdhg':
                # the single call with x_relax / y owned by the caller must equal the plain call
                ref_run = SL.run_real(inst, conc, 'opt', [N], pass_state=True)
                res['counts'].append(([sol, inst['tag'], qstr(inst), conc, 'passed'], nontriv))
                if ref_run['err'] or not same_run(ref_run, opt, rows, N):
                    res['viol'].append((sig_of(inst, 'resume'), dict(base, stage='replay', clause='resume',
                                                                   segments=[N], note='x_relax/y passed vs default',
                                                                   error=ref_run['err'])))
                    continue
                for fld in ('y', 'xr'):
                    D = rows[N]['D']
                    if D <= SL.MAXDEN and SL.snapvec(ref_run[fld], D) != rows[N]['ref'][fld]:
                        res['drift'].append('pdhg %s: exposed %s after %d iterations differs from the textbook state'
                                            % (inst['tag'], fld, N))
            for (n, m) in splits_for(N, quick):
                sp = SL.run_real(inst, conc, 'opt', [n, m], pass_state=True)
                res['counts'].append(([sol, inst['tag'], qstr(inst), conc, 'split', n, m], nontriv))
                if sp['err']:
                    res['viol'].append((sig_of(inst, 'raised'), dict(base, stage='replay', variant='opt',
                                                                   segments=[n, m], error=sp['err'])))
                    continue
                if sp['ncb'] != [n, m]:
                    res['viol'].append((sig_of(inst, 'callback-count'),
                                        dict(base, stage='replay', variant='opt', segments=[n, m],
                                             callbacks=sp['ncb'])))
                if not same_run(sp, ref_run, rows, n + m):
                    ssn = snapped_its(sp['its'], rows, n + m)
                    kb = [k for k in sorted(ssn) if ssn[k] != so.get(k)]
                    res['viol'].append((sig_of(inst, 'resume'),
                                        dict(base, stage='replay', clause='resume', segments=[n, m],
                                             first_bad_iteration=kb[0] if kb else None,
                                             split=ssn.get(kb[0]) if kb else None,
                                             unsplit=so.get(kb[0]) if kb else None,
                                             specification=exp.get(kb[0]) if kb else None)))
                pe = None
                if quick or (n + m == N and n == 1 + zlib.crc32(inst['tag'].encode()) % (N - 1)):
                    # (thorough: the lattice comparison above covers every splitting; one relational event per instance)
                    pe = SL.pair_event('resume', sol, n + m, ref_run['its'][:n + m], sp['its'], n + m, sum(sp['ncb']),
                                       start=SL.vec(inst['x0']))
                if pe is not None:
                    pe['meta'] = dict(base, variant='pair', segments=[n, m])
                    res['events'].append(pe)
    # ---- the same abstract instance under option forms and dyadic scalings (iterates scale exactly): every
    # ---- stated relation must hold unchanged; an absolute tolerance or a mis-handled option form shows up here
    for o in option_variants(inst, quick, seedbit):
        base = {'inst': inst, 'conc': 'rn', 'opts': o}
        oname = option_name(o)
        osig = lambda clause: dict(sig_of(inst, clause), option=oname)
        a = SL.run_real(inst, 'rn', 'opt', [N], pass_state=(sol == 'pdhg'), opts=o)
        res['counts'].append(([sol, inst['tag'], qstr(inst), 'opt', o], nontriv))
        if a['err']:
            res['viol'].append((osig('raised'), dict(base, stage='replay', variant='opt', segments=[N], error=a['err'])))
            continue
        sa = snapped_its(a['its'], rows, N)
        if a['ncb'] != [N]:
            res['viol'].append((osig('callback-count'), dict(base, stage='replay', variant='opt', segments=[N],
                                                             callbacks=a['ncb'])))
        tb = [k for k in sa if sa[k] != exp[k]]
        if sol in SIBLING:
            b = SL.run_real(inst, 'rn', 'simple', [N], opts=o)
            res['counts'].append(([sol, inst['tag'], qstr(inst), 'simple', o], nontriv))
            if b['err']:
                res['viol'].append((osig('raised'), dict(base, stage='replay', variant='simple', segments=[N],
                                                         error=b['err'])))
                continue
            sb = snapped_its(b['its'], rows, N)
            bad = [k for k in sa if k in sb and sa[k] != sb[k]]
            if len(a['its']) != N or len(b['its']) != N:
                bad = bad or [0]
            if bad:
                k0 = bad[0]
                res['viol'].append((osig('optimised-vs-simple'),
                                    dict(base, stage='replay', clause='optimised-vs-simple', segments=[N],
                                         first_bad_iteration=k0, optimised=sa.get(k0), simple=sb.get(k0),
                                         specification=exp.get(k0))))
            elif tb:
                res['drift'].append('%s %s: under option %s optimised and _simple agree but leave the textbook iterates at k=%d'
                                    % (SL.REALNAME[sol], inst['tag'], oname, tb[0]))
            pe = SL.pair_event('optimised-vs-simple', sol, N, a['its'], b['its'], a['ncb'][0], b['ncb'][0],
                               start=SL.vec(inst['x0']))
            if pe is not None:
                pe['meta'] = dict(base, variant='pair', segments=[N], option=oname)
                res['events'].append(pe)
        elif tb:
            res['drift'].append('%s %s: under option %s real iterates leave the textbook sequence at k=%d'
                                % (SL.REALNAME[sol], inst['tag'], oname, tb[0]))
        if sol in RESUMABLE:
            n = 1 + zlib.crc32(dumps(o).encode()) % (N - 1)
            sp = SL.run_real(inst, 'rn', 'opt', [n, N - n], pass_state=True, opts=o)
            res['counts'].append(([sol, inst['tag'], qstr(inst), 'split', n, N - n, o], nontriv))
            if sp['err']:
                res['viol'].append((osig('raised'), dict(base, stage='replay', variant='opt', segments=[n, N - n],
                                                         error=sp['err'])))
            elif not same_run(sp, a, rows, N):
                res['viol'].append((osig('resume'), dict(base, stage='replay', clause='resume', segments=[n, N - n])))
    return res


def option_variants(inst, quick, seedbit):
    """Option forms / scalings under which an exported instance is re-run (quick: a rotating choice that is a
    function of the instance; thorough: all)."""
    sol = inst['solver']
    h = zlib.crc32(dumps([inst['tag'], qstr(inst)]).encode()) + seedbit
    sc = SL.SCALES
    out = [{'scale': sc[h % 3]}] if quick else [{'scale': v} for v in sc]
    if sol == 'adu':
        fm = SL.ISTEP_FORMS
        if quick:
            out += [{'istep': fm[h % 3]}, {'istep': fm[(h + 1) % 3], 'scale': sc[(h + 1) % 3]}]
        else:
            out += [{'istep': f} for f in fm] + [{'istep': fm[i], 'scale': sc[i]} for i in range(3)]
    if sol == 'pg':
        out.append({'lam_callable': True})
    if sol == 'sd':
        out.append({'ls_object': True})
    return out


def option_name(o):
    parts = []
    if 'istep' in o:
        parts.append('inner_stepsizes=' + o['istep'])
    if 'scale' in o:
        parts.append('scaled')
    if o.get('lam_callable'):
        parts.append('lam=callable')
    if o.get('ls_object'):
        parts.append('line_search=object')
    for g in ('gamma_primal', 'gamma_dual'):
        if o.get(g):
            parts.append(g)
    return '+'.join(parts) or 'default'


def drift_add(agg, msg):
    """Aggregate drift messages per (solver, kind of disagreement): 'solver instance: text' -> counts."""
    head, _, text = msg.partition(': ')
    solver = head.split(' ')[0]
    text = __import__('re').sub(r'k=\d+', 'k=*', text)
    ent = agg.setdefault((solver, text), [0, head, msg])
    ent[0] += 1


def drift_flush(ctx, agg):
    for (solver, text), (n, head, first) in sorted(agg.items()):
        ctx.drift_note('%s: %s  [%d cases; first: %s]' % (solver, text, n, first))


def qstr(inst):
    return [inst['tau'], inst['sig'], inst['th'], inst['x0']]


def same_run(a, b, rows, upto):
    """Two real runs agree on every snappable iterate up to `upto` (and on the final exposed state when
    both ran the same number of iterations); beyond the snappable range: relative 2^-30."""
    if len(a['its']) < upto or len(b['its']) < upto:
        return False
    for k in range(1, upto + 1):
        D = rows[k]['D']
        u, v = a['its'][k - 1], b['its'][k - 1]
        if D <= SL.MAXDEN:
            if SL.snapvec(u, D) != SL.snapvec(v, D):
                return False
        elif not np.allclose(u, v, rtol=2.0 ** -30, atol=0):
            return False
    if len(a['its']) == len(b['its']) == upto:
        D = rows[upto]['D']
        for fld in ('x', 'y', 'xr'):
            if (a[fld] is None) != (b[fld] is None):
                continue
            if a[fld] is not None:
                if D <= SL.MAXDEN:
                    if SL.snapvec(a[fld], D) != SL.snapvec(b[fld], D):
                        return False
                elif not np.allclose(a[fld], b[fld], rtol=2.0 ** -30, atol=0):
                    return False
    return True


# ------------------------------------------------------------------ relational driver
def rel_families():
    fams = []
    for sol in ('admm', 'dpdc'):
        fams += [(sol, fk, gk, 'optimised-vs-simple') for fk in SL.REL_F for gk in SL.REL_G]
    fams += [('adu', 'Zero', gk, 'optimised-vs-simple') for gk in SL.REL_G]
    # option axes enumerated deterministically (so that every option family is met under every seed)
    fams += [('adu', 'Zero', gk, 'optimised-vs-simple', 'istep=' + form)
             for gk in SL.ARRAY_STEP_OK for form in ('array', 'list', 'element', 'nonconst')]
    fams += [('adu', 'Zero', gk, 'optimised-vs-simple', 'random') for gk in ('L1', 'L2sq', 'KL')]
    fams += [('pg', fk, 'L2sq', 'resume', 'lam_callable') for fk in ('L1', 'Box')]
    fams += [(sol, 'Zero', 'L2sq', 'resume', 'projection') for sol in ('landweber', 'kaczmarz', 'sd')]
    fams += [(sol, 'Zero', 'L2sq', 'resume', 'nonlinear') for sol in ('landweber', 'kaczmarz', 'sd')] * 3
    fams += [('sd', 'Zero', 'L2sq', 'resume', 'ls_object'), ('kaczmarz', 'Zero', 'L2sq', 'resume', 'omega_list')]
    fams += [('pdhg', fk, gk, 'resume') for fk in SL.REL_F for gk in SL.REL_G]
    fams += [('pg', fk, 'L2sq', 'resume') for fk in SL.REL_F]
    fams += [(sol, 'Zero', 'L2sq', 'resume') for sol in ('landweber', 'kaczmarz', 'mlem', 'sd')]
    return fams


def rel_case(args):
    """One relational comparison of two real runs; returns (event or None, violations, count-key)."""
    fam, seed = args
    sol, fk, gk, clause = fam[:4]
    rnd = random.Random(seed)
    d = SL.rel_desc(rnd, sol, fk, gk, force=fam[4] if len(fam) > 4 else None)
    N = d['niter']
    viol = []
    sig = {'solver': SL.REALNAME[sol], 'functional': (gk if sol == 'adu' else fk), 'dual': gk, 'clause': clause,
           'option': SL.rel_option_name(d)}
    if clause == 'optimised-vs-simple':
        segs = [N]
        a = SL.rel_run(d, 'opt', [N])
        b = SL.rel_run(d, 'simple', [N])
        na, nb = (a['ncb'] or [0])[0], (b['ncb'] or [0])[0]
    else:
        n = rnd.randint(1, N - 1)
        segs = [n, N - n]
        a = SL.rel_run(d, 'opt', [N])
        b = SL.rel_run(d, 'opt', segs)
        na, nb = (a['ncb'] or [0])[0], sum(b['ncb'])
    meta = {'desc': d, 'segments': segs, 'clause': clause, 'sig': sig}
    if a['err'] or b['err']:
        viol.append((dict(sig, clause='raised'), dict(meta, stage='relational', error=a['err'] or b['err'])))
        return None, viol, [sol, fk, gk, clause]
    ev = SL.pair_event(clause, sol, N, a['its'], b['its'], na, nb, start=np.array(d['x0'], dtype=float))
    if ev is None:
        return None, viol, None         # non-finite iterates: not comparable, not counted
    ev['meta'] = meta
    return ev, viol, [sol, fk, gk, clause, d['Ms'], d['x0'], d['tau'], d['sigma'], N, segs]


def cbvalue_case(args):
    """Callbacks observe ITERATES (values, not only counts): every vector a callback receives equals what a run
    resumed one (sub-)step at a time hands back, and the last one equals the returned x - under a projection that
    actually changes the iterates (non-negativity, start in the negative orthant) and for inner loops."""
    kind, seed = args
    rnd = random.Random(seed)
    sol = kind.split('-')[0]
    d = SL.rel_desc(rnd, sol, 'Zero', 'L2sq', force='projection' if sol != 'adu' else None)
    d['opts'].pop('nonlinear', None)
    if sol != 'adu':
        d['x0'] = [-abs(v) - 1 for v in d['x0']]            # the unconstrained iterates leave the orthant
        d['opts']['projection'] = True
        d['pw'] = 1
    d['niter'] = min(d['niter'], 8)
    if kind.endswith('inner'):
        d['opts']['callback_loop'] = 'inner'
    ev, viol = cbvalue_eval(kind, d)
    return ev, viol, ([kind, 'values', seed] if ev is not None or viol else None)


def cbvalue_eval(kind, d):
    sol = kind.split('-')[0]
    N = d['niter']
    sig = {'solver': SL.REALNAME[sol], 'functional': '-', 'clause': 'callback-value', 'option': kind.split('-', 1)[1]}
    meta = {'desc': d, 'cbvalue_of': kind, 'sig': sig, 'clause': 'callback-value'}
    a = SL.rel_run(d, 'opt', [N])
    if a['err']:
        return None, [(dict(sig, clause='raised'), dict(meta, stage='relational', error=a['err']))]
    A = a['its'] + [a['x']]
    if sol == 'kaczmarz' and kind.endswith('inner'):
        B = SL.rel_kaczmarz_substeps(d)
    elif sol == 'adu':
        # the last inner callback of every outer iteration is the iterate the outer callback reports
        d2 = json.loads(json.dumps(d))
        d2['opts']['callback_loop'] = 'outer'
        b = SL.rel_run(d2, 'opt', [N])
        m = len(d['Ms'])
        A = a['its'][m - 1::m] + [a['x']]
        B = b['its']
    else:
        b = SL.rel_run(d, 'opt', [1] * N)                    # one iteration per call: what the caller holds
        if b['err']:
            return None, [(dict(sig, clause='raised'), dict(meta, stage='relational', error=b['err']))]
        B = b['xret']
    B = B + [B[-1]] if B else B
    if len(A) != len(B):
        return None, [(dict(sig, clause='callback-count'), dict(meta, stage='relational', callbacks=len(A) - 1,
                                                                 expected=len(B) - 1))]
    ev = SL.pair_event('callback-value', sol, len(A), A, B, -1, -1, start=np.array(d['x0'], dtype=float))
    if ev is not None:
        ev['meta'] = meta
    return ev, []


def callback_case(args):
    """Exactly one callback per iteration for the solvers C11 does not otherwise run (douglas_rachford_pd,
    forward_backward_pd, accelerated_proximal_gradient, conjugate_gradient(_normal)): a 'pair' event of the
    run with itself carries the callback count; TLC checks count = niter."""
    kind, seed = args
    from . import c12
    if kind in ('adu-inner', 'kaczmarz-inner'):
        # callback_loop='inner' is documented as one callback per inner (block) iteration
        sol = kind.split('-')[0]
        d = SL.rel_desc(random.Random(seed), sol, 'Zero', 'L2sq')
        d['opts']['callback_loop'] = 'inner'
        r = SL.rel_run(d, 'opt', [d['niter']])
        blocks = len(d['Ms']) if sol == 'adu' else len(d['Ms'][0][0])
        its, err, N = r['its'], r['err'], d['niter'] * blocks
        meta = {'desc': d, 'callbacks_of': kind}
        kind = sol
    elif kind in ('cg', 'cgn'):
        d = c12.smooth_desc(np.random.default_rng(seed), kind, 10)
        its, err = c12.smooth_run(d)
        its, N = its[1:], d['niter']
        meta = {'desc': d, 'callbacks_of': kind}
    else:
        got = None
        rnd = random.Random(seed)
        while got is None:
            got = c12.kkt_desc(rnd, 'pg' if kind == 'apg' else kind)
        inst = dict(got[0], solver=kind)
        N = 2 + seed % 7
        r = SL.run_real(inst, 'rn', 'opt', [N], pass_state=False)
        its, err = r['its'], r['err']
        meta = {'inst': inst, 'conc': 'rn', 'segments': [N], 'variant': 'opt', 'callbacks_of': kind}
    sig = {'solver': SL.REALNAME[kind], 'functional': '-', 'clause': 'callback-count'}
    if err:
        return None, [(dict(sig, clause='raised'), dict(meta, stage='relational', error=err))], [kind, 'callbacks', seed]
    ev = SL.pair_event('callback-count', kind, N, its[:N] if len(its) >= N else its + [its[-1]] * (N - len(its)) if its
                       else [np.zeros(1)] * N, its[:N] if len(its) >= N else its + [its[-1]] * (N - len(its)) if its
                       else [np.zeros(1)] * N, len(its), -1)
    if ev is None:
        return None, [], None
    ev['meta'] = dict(meta, sig=sig, clause='callback-count', callbacks=len(its), niter=N)
    return ev, [], [kind, 'callbacks', seed]


# ------------------------------------------------------------------ check
def tlc_env(solver, tier, alias, splits, out=os.devnull, kkt='0'):
    return {'SM_SOLVER': solver, 'SM_TIER': tier, 'SM_ALIAS': alias, 'SM_SPLITS': splits, 'SM_KKT': kkt,
            'OUT_FILE': out}


def validate_events(ctx, events, work, on_fail):
    """Write events in chunks, run Trace_SolverMachine on each, call on_fail(event, clauses) per rejection."""
    chunk = 1000
    files = []
    for ci in range(0, len(events), chunk):
        p = os.path.join(work, 'trace_%s_%d.ndjson' % (ctx.prop, ci // chunk))
        with open(p, 'w') as f:
            for k, ev in enumerate(events[ci:ci + chunk]):
                e = {kk: vv for kk, vv in ev.items() if kk != 'meta'}
                e['id'] = ci + k
                f.write(json.dumps(e) + '\n')
        files.append(p)

    def val(p):
        return p, run_tlc('Trace_SolverMachine.tla', 'Trace_SolverMachine.cfg', work, env={'TRACE_FILE': p},
                          workers=1, timeout=3000)
    with ThreadPoolExecutor(max_workers=8) as ex:
        vres = list(ex.map(val, files))
    import re
    nfail = 0
    for p, res in vres:
        ctx.add_tlc('trace-' + os.path.basename(p), res)
        for (line, eid, text) in parse_fails(res.output):
            nfail += 1
            clauses = sorted(set(re.findall(r'"([\w-]+)"', text)))
            on_fail(events[eid], clauses)
    return nfail


def run(ctx):
    quick = ctx.tier == 'quick'
    tier = ctx.tier
    work = ctx.work
    ctx.rule = ('instances of the SolverMachine catalogue exported by TLC (matrix x functionals x step sizes x start) x '
                'real runs (optimised, _simple sibling, every splitting n+m <= N, concretisation rn / row-block product '
                'space) and seeded random relational instances; distinct = hash of (instance, concretisation, run kind, '
                'splitting); non-trivial = the exact iterate sequence leaves the start point')
    ctx.assumptions += [
        'catalogue instances keep all iterates on dyadic lattices; iterates with D_k > 2^16 are compared only relationally',
        'snapping tolerance 2^-20/D_k separates rounding (ODL proximals shrink thresholds by (1-10 eps) on purpose) from logic errors',
        'pdhg is resumed through its x_relax= / y= keyword arguments; all other resumable solvers carry only x',
        'agreement with the TEXTBOOK iteration is stronger than the statement and is reported as drift only',
        'adupdates_simple and doubleprox_dc_simple have no callback: their iterate k is the result of a fresh run with niter=k']

    # ---- 1. model runs (parallel) ----
    jobs = [('sem-laws', 'MC_SolverSemLaws.tla', 'MC_SolverSemLaws.cfg', {}, 2, 'ok')]
    for s in STMT + ['iter']:
        out = os.path.join(work, 'exp_%s.ndjson' % s)
        if PROX_ALIAS_ZERO == '0' and quick:
            # layer C mirrors alias-safe proximals: one run checks the invariants over all splittings and
            # exports the unsplit path (single worker so that export lines never interleave)
            jobs.append(('props+export-' + s, 'MC_SolverMachine.tla', 'MC_SolverMachine_c11both.cfg',
                         tlc_env(s, tier, '0', '1', out), 1, 'ok'))
        else:
            jobs.append(('props-' + s, 'MC_SolverMachine.tla', 'MC_SolverMachine_c11props.cfg',
                         tlc_env(s, tier, '0', '1'), 2 if quick else 6, 'ok'))
            jobs.append(('export-' + s, 'MC_SolverMachine.tla', 'MC_SolverMachine_c11export.cfg',
                         tlc_env(s, tier, PROX_ALIAS_ZERO, '0', out), 1, 'ok'))
    # model-level demonstration: with the pre-4ac6525 aliased proximal (returns 0) the statement-level
    # programs of admm_linearized / doubleprox_dc do NOT refine their reference
    jobs.append(('aliasdefect-demo', 'MC_SolverMachine.tla', 'MC_SolverMachine_c11props.cfg',
                 tlc_env('aliasdemo', 'quick', '1', '0'), 1, 'any'))

    def go(j):
        return j, run_tlc(j[1], j[2], work, env=j[3], workers=j[4], timeout=3000)
    with ThreadPoolExecutor(max_workers=6 if quick else 8) as ex:
        results = list(ex.map(go, jobs))
    for j, res in results:
        ctx.add_tlc(j[0], res, expect=j[5])
        if j[0].startswith('aliasdefect-') and res.violated != 'invariant:Refinement':
            raise MachineryError('model self-test: aliased-proximal defect not reproduced by layer C (%s: %s)'
                                 % (j[0], res.violated))

    # ---- 2. replay of the exported instances on real ODL ----
    tasks = []
    ninst = {}
    for s in STMT + ['iter']:
        cases = load_export(os.path.join(work, 'exp_%s.ndjson' % s))
        if not cases:
            raise MachineryError('empty export for ' + s)
        for c in cases:
            ninst[c['inst']['solver']] = ninst.get(c['inst']['solver'], 0) + 1
        tasks += [(c, quick, ctx.seed) for c in cases]
    missing = [s for s in STMT + ITER if not ninst.get(s)]
    if missing:
        raise MachineryError('no exported instance for ' + ','.join(missing))
    import multiprocessing as mp
    with mp.get_context('fork').Pool(8 if quick else 12) as pool:
        outs = pool.map(replay_case, tasks, chunksize=4)
    events = []
    driftagg = {}
    for (case, _, _), r in zip(tasks, outs):
        for sig, detail in r['viol']:
            ctx.violation(sig, detail)
        for d in r['drift']:
            drift_add(driftagg, d)
        for key, nt in r['counts']:
            ctx.count(key, nt)
        if r['sample'] and len(ctx.samples) < 5 and zlib.crc32(case['inst']['tag'].encode()) % 7 == 0:
            ctx.sample(r['sample'])
        events += r['events']
        ctx.traces += 1
    ctx.extra['catalogue_instances'] = ninst
    drift_flush(ctx, driftagg)

    # ---- 3. relational driver (two real runs compared; deterministic family sweep + seeded extras) ----
    fams = rel_families()
    rtasks = [(fam, zlib.crc32(('/'.join(fam)).encode()) + i) for i, fam in enumerate(fams)]
    rnd = random.Random(ctx.seed * 7919 + 11)
    nextra = 300 if quick else 6000
    rtasks += [(fams[rnd.randrange(len(fams))], rnd.randrange(2 ** 31)) for _ in range(nextra)]
    ctasks = [(kind, 1000 * ki + i + 31 * ctx.seed) for ki, kind in enumerate(['dr', 'fb', 'apg', 'cg', 'cgn', 'adu-inner', 'kaczmarz-inner'])
              for i in range(12 if quick else 200)]
    with mp.get_context('fork').Pool(8 if quick else 12) as pool:
        routs = pool.map(rel_case, rtasks, chunksize=8)
        routs += pool.map(callback_case, ctasks, chunksize=4)
        vtasks = [(kind, 5000 * ki + i + 17 * ctx.seed) for ki, kind in enumerate(
            ['landweber-projection', 'sd-projection', 'kaczmarz-projection', 'kaczmarz-projection+inner', 'adu-inner'])
            for i in range(10 if quick else 150)]
        routs += pool.map(cbvalue_case, vtasks, chunksize=4)
    nrel = 0
    for ev, viol, key in routs:
        for sig, detail in viol:
            ctx.violation(sig, detail)
        if ev is not None:
            events.append(ev)
            nrel += 1
            ctx.count(key, True)
            ctx.traces += 1
    ctx.extra['relational_pairs'] = nrel
    ctx.extra['relational_families'] = len(fams)

    # ---- 4. TLC trace validation ----
    def on_fail(ev, clauses):
        meta = ev['meta']
        if ev['kind'] == 'exact':
            inst = meta['inst']
            for cl in clauses:
                if cl == 'textbook':
                    # decided in the replay stage (violation iff the two real implementations differ)
                    drift_add(tlcdrift, '%s %s: TLC (Trace_SolverMachine): snapped iterates differ from the reference iteration'
                              % (SL.REALNAME[inst['solver']], inst['tag']))
                else:
                    ctx.violation(sig_of(inst, 'callback-count' if cl in ('callback-count', 'length') else cl),
                                  dict(meta, stage='trace', tlc_clauses=clauses, clause='callbacks'))
        else:
            for cl in clauses:
                clause = ev['clause'] if cl == 'differs' else 'callback-count' if cl == 'length' else cl
                if 'inst' in meta:
                    sig = sig_of(meta['inst'], clause)
                else:
                    sig = dict(meta['sig'], clause=clause)
                ctx.violation(sig, dict(meta, stage='trace', tlc_clauses=clauses))
    tlcdrift = {}
    nfail = validate_events(ctx, events, work, on_fail)
    drift_flush(ctx, tlcdrift)
    ctx.extra['trace_events_validated_by_tlc'] = len(events)
    ctx.extra['trace_events_rejected_by_tlc'] = nfail
    ctx.extra['max_snappable_denominator'] = SL.MAXDEN
    ctx.extra['splittings_per_instance'] = [list(t) for t in splits_for(6, quick)]
    ctx.extra['layerC_mirrors_aliased_prox_defect'] = PROX_ALIAS_ZERO == '1'
    # ---- callbacks as objects (CallbackMachine, lead's extension): every history of Call / Reset on composed callbacks
    from ..extras import callbacks as CB
    CB.run_stage(ctx)
    ctx.exhaustive = True    # every instance of the declared catalogue and every splitting is replayed


def replay(body):
    d = body['detail']
    sig = body['signature']
    print('signature:', dumps(sig))
    if 'cbvalue_of' in d:
        ev, viol = cbvalue_eval(d['cbvalue_of'], d['desc'])
        bad = bool(viol) or ev is None or any(abs(p - q) > 2 for u, v in zip(ev['a'], ev['b']) for p, q in zip(u, v))
        print('callback values vs iterates:', 'differ' if bad else 'agree', viol)
        print('REPRODUCED' if bad else 'NOT-REPRODUCED')
        return 1 if bad else 0
    if 'callbacks_of' in d:
        from . import c12
        if 'desc' in d and d['desc'].get('opts', {}).get('callback_loop'):
            r = SL.rel_run(d['desc'], 'opt', [d['desc']['niter']])
            n, N, err = len(r['its']), d['niter'], r['err']
        elif 'desc' in d:
            its, err = c12.smooth_run(d['desc'])
            n, N = len(its) - 1, d['desc']['niter']
        else:
            r = SL.run_real(d['inst'], 'rn', 'opt', d['segments'], pass_state=False)
            n, N, err = len(r['its']), sum(d['segments']), r['err']
        print('solver', d['callbacks_of'], 'iterations', N, 'callbacks', n, 'error', err)
        bad = bool(err) or n != N
        print('REPRODUCED' if bad else 'NOT-REPRODUCED')
        return 1 if bad else 0
    clause = sig['clause']
    rel = 'desc' in d
    segs = d['segments']
    N = sum(segs)
    which = d.get('clause', clause)          # the comparison the event was recorded for
    if rel:
        desc = d['desc']
        print('instance :', dumps(desc))
        runner = lambda variant, sg, ps=True: SL.rel_run(desc, variant, sg, pass_state=ps)
    else:
        inst, conc = d['inst'], d['conc']
        print('instance :', inst['solver'], inst['tag'], 'concretisation', conc, 'segments', segs)
        runner = lambda variant, sg, ps=True: SL.run_real(inst, conc, variant, sg, pass_state=ps, opts=d.get('opts'))
    if which == 'optimised-vs-simple' or d.get('variant') == 'simple':
        a, b, bsegs = runner('opt', [N]), runner('simple', [N]), [N]
    elif d.get('note'):                      # pdhg: x_relax / y owned by the caller vs the plain call
        a, b, bsegs = runner('opt', [N], True), runner('opt', [N], False), [N]
    else:
        a, b, bsegs = runner('opt', [N]), runner('opt', segs), segs
    print('errors   :', a['err'], b['err'], ' callbacks:', a['ncb'], b['ncb'])
    bad_err = bool(a['err'] or b['err'])
    bad_cb = (not bad_err) and (a['ncb'] != [N] or b['ncb'] not in ([-1], bsegs))
    bad_val = False
    if not bad_err:
        tol = dict(rtol=2.0 ** -18, atol=0) if rel else dict(rtol=0, atol=2.0 ** -22)
        for k, (u, v) in enumerate(zip(a['its'], b['its']), start=1):
            if u.shape != v.shape or not np.allclose(u, v, **tol):
                print('iteration %d: %s  vs  %s   (specification: %s)' % (k, u, v, d.get('specification')))
                bad_val = True
                break
        if not bad_val and not bad_cb:
            for fld in ('x', 'y', 'xr'):
                if a[fld] is not None and b[fld] is not None and not np.allclose(a[fld], b[fld], **tol):
                    print('final %s: %s  vs  %s' % (fld, a[fld], b[fld]))
                    bad_val = True
    bad = bad_cb if clause == 'callback-count' else bad_err if clause == 'raised' else (bad_err or bad_val)
    print('REPRODUCED' if bad else 'NOT-REPRODUCED')
    return 1 if bad else 0

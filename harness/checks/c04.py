"""C04 - operator arithmetic means what the algebra table says, for arbitrary expressions.

  1. TLC explores the expression stack machine (OpMachine) exhaustively up to a step bound, checks the
     sanity invariants of the reference semantics (OpSem) and the layer-C model of the overload/class
     selection rules (RewriteImpl) against it, and exports every complete program with the values the
     documented table gives (Eval at probe points, domain, range, structural linearity).
     Deeper programs come from `tlc -simulate` behaviours of the same machine.
  2. Each exported program is rebuilt with REAL ODL operators through the Python overloads (real,
     weighted-real and complex spaces; 2 entries and, by tiling, 120 entries) and evaluated out-of-place
     and in-place; snapped values, domain, range and the linearity flag are compared.
  3. Every real evaluation is logged as an event and TLC re-evaluates the program (Trace_OpMachine).
"""
import json
import os
import re
from concurrent.futures import ThreadPoolExecutor

import numpy as np
import odl

from ..tlc import run_tlc, parse_fails
from ..common import dumps, MachineryError
from .. import oputil as U

NANV = [[0, 0], [0, 0]]


# leaf kinds whose own in-place evaluation is not safe under out = x (nothing is demanded of expressions over them)
ALIAS_UNSAFE_LEAVES = {'swap'}

def check_program(ctx, line, sp, events, profile, stage):
    e = line['prog']
    _js = json.dumps(e)
    sig0 = {'profile': profile, 'top': U.top2(e), 'size': 'big' if sp.big else 'small',
            'functional_on_field': 'yes' if ('"t": "smul"' in _js and any('"t": "%s"' % k in _js for k in ('l2sq', 'l1', 'linfn'))) else 'no'}
    detail0 = {'stage': stage, 'line': line, 'profile': profile, 'big': sp.big}
    nontriv = U.n_comb(e) >= 2 or U.has_nonlinear_leaf(e)
    # spelling: every other program is built with the @ operator instead of * (alternating with the size class)
    matmul = (hash(json.dumps(e, sort_keys=True)) % 2 == 0) != sp.big
    sig0['spelling'] = '@' if matmul else '*'
    detail0['matmul'] = matmul
    try:
        op = U.build(e, sp, None, matmul)
    except Exception as ex:
        ctx.count([e, profile, sp.big], nontriv)
        if line.get('supported', True):
            ctx.violation(dict(sig0, clause='build-raised', exc=type(ex).__name__), dict(detail0, exc=str(ex)[:200]))
        else:
            ctx.extra['unsupported_programs'] = ctx.extra.get('unsupported_programs', 0) + 1
        return
    if not line.get('supported', True):
        # documented as unsupported but ODL builds it: fine (nothing is demanded), still evaluate
        pass
    # --- domain / range / linearity flag
    dom, ran = U.space_name(sp, op.domain), U.space_name(sp, op.range)
    if dom != line['dom']:
        ctx.violation(dict(sig0, clause='domain'), dict(detail0, observed=repr(op.domain)))
    if ran != line['ran']:
        ctx.violation(dict(sig0, clause='range'), dict(detail0, observed=repr(op.range)))
    flag = bool(op.is_linear)
    if flag and not line['semlin']:
        ctx.violation(dict(sig0, clause='flagged-linear-but-not-linear'), detail0)
    if (not flag) and line['lin']:
        ctx.violation(dict(sig0, clause='flagged-nonlinear-but-expression-is-linear', cls=type(op).__name__), detail0)
    # --- evaluation
    D = U.den_of([line['vals'], line['pts']])
    for x_abs, exp in zip(line['pts'], line['vals']):
        ctx.count([e, x_abs, profile, sp.big], nontriv)
        x = sp.point(line['dom'], x_abs)
        xb = x.asarray().tobytes() if line['dom'] in ('V', 'VR') else None
        obs, note, err = None, '', ''
        try:
            y = op(x)
            obs, note = sp.project(line['ran'], y, D)
            if line['ran'] in ('V', 'VR') and y not in op.range:
                note = note or 'result-not-in-range'
        except Exception as ex:
            err = type(ex).__name__
            obs = [NANV] * len(exp)
        events.append({'prog': e, 'x': x_abs, 'val': obs, 'w': U.PROFILE_WQ[profile], 'err': err, 'mode': 'oop',
                       'profile': profile, 'deep': stage == 'sim'})
        if err:
            ctx.violation(dict(sig0, clause='call-raised', exc=err), dict(detail0, x=x_abs))
            continue
        if obs != exp:
            ctx.violation(dict(sig0, clause='value', mode='out-of-place'), dict(detail0, x=x_abs, observed=obs, note=note))
        if xb is not None and x.asarray().tobytes() != xb:
            ctx.violation(dict(sig0, clause='input-modified', mode='out-of-place'), dict(detail0, x=x_abs))
        # in-place
        if line['ran'] in ('V', 'VR'):
            x = sp.point(line['dom'], x_abs)
            out = op.range.element(np.full(sp.n, np.nan))
            try:
                r = op(x, out=out)
                obs2, note2 = sp.project(line['ran'], out, D)
                events.append({'prog': e, 'x': x_abs, 'val': obs2, 'w': U.PROFILE_WQ[profile], 'err': '', 'mode': 'ip',
                               'profile': profile, 'deep': stage == 'sim'})
                if obs2 != exp:
                    ctx.violation(dict(sig0, clause='value', mode='in-place'),
                                  dict(detail0, x=x_abs, observed=obs2, note=note2))
                if r is not out:
                    ctx.violation(dict(sig0, clause='in-place-does-not-return-out'), dict(detail0, x=x_abs))
                if xb is not None and x.asarray().tobytes() != xb:
                    ctx.violation(dict(sig0, clause='input-modified', mode='in-place'), dict(detail0, x=x_abs))
            except Exception as ex:
                ctx.violation(dict(sig0, clause='call-raised', mode='in-place', exc=type(ex).__name__),
                              dict(detail0, x=x_abs, exc=str(ex)[:200]))
            # aliased in-place evaluation: op(x, out=x) must leave the same value in x (the expression classes take
            # care of this: temporaries, scalar evaluated first, ...). Only asked when every leaf below is alias-safe by
            # itself (ALIAS_UNSAFE_LEAVES lists the leaf kinds that are not: a user-defined operator, a dense matrix).
            if line['dom'] == line['ran'] and os.environ.get('VERIF_C04_ALIAS', '1') == '1' and \
                    not (U.leaf_kinds(e) & ALIAS_UNSAFE_LEAVES):
                xa = sp.point(line['dom'], x_abs)
                try:
                    r = op(xa, out=xa)
                    obs3, note3 = sp.project(line['ran'], xa, D)
                    if obs3 != exp:
                        ctx.violation(dict(sig0, clause='value', mode='aliased', leaves='+'.join(sorted(U.leaf_kinds(e)))),
                                      dict(detail0, x=x_abs, observed=obs3, note=note3, aliased=True))
                    if r is not xa:
                        ctx.violation(dict(sig0, clause='in-place-does-not-return-out', mode='aliased'),
                                      dict(detail0, x=x_abs, aliased=True))
                except Exception as ex:
                    ctx.violation(dict(sig0, clause='call-raised', mode='aliased', exc=type(ex).__name__),
                                  dict(detail0, x=x_abs, exc=str(ex)[:200], aliased=True))
    # --- the caller hands a VECTOR OPERAND of the expression (the v of v * A, A * v, A + v, ... - the very object) to the
    #     expression as `out`: (v * A)(x, out=v) still has to hold v * A(x) for the v the expression was built with
    if line['ran'] in ('V', 'VR') and os.environ.get('VERIF_C04_OPERAND_OUT', '1') == '1' and not sp.big:
        for x_abs, exp in list(zip(line['pts'], line['vals']))[:1]:
            for which in (0, -1):
                sp.arith = []
                try:
                    op2 = U.build(e, sp, None, matmul)
                except Exception:
                    break
                cands = [v for v in sp.arith if v in op2.range]
                if not cands or (which == -1 and len(cands) == 1):
                    break
                out = cands[which]
                ctx.count([e, x_abs, profile, 'operand-out', which], nontriv)
                try:
                    r = op2(sp.point(line['dom'], x_abs), out=out)
                    obs4, note4 = sp.project(line['ran'], out, D)
                    if obs4 != exp:
                        ctx.violation(dict(sig0, clause='value', mode='out-is-operand'),
                                      dict(detail0, x=x_abs, observed=obs4, note=note4, operand_out=which))
                    if r is not out:
                        ctx.violation(dict(sig0, clause='in-place-does-not-return-out', mode='out-is-operand'),
                                      dict(detail0, x=x_abs, operand_out=which))
                except Exception as ex:
                    ctx.violation(dict(sig0, clause='call-raised', mode='out-is-operand', exc=type(ex).__name__),
                                  dict(detail0, x=x_abs, exc=str(ex)[:200], operand_out=which))
    # --- extension: expr.inverse (where ODL offers one) must invert expr; decided by TLC as Eval(prog, inverse(x)) = x
    if line['lin'] and line['dom'] == 'V' and line['ran'] == 'V' and not sp.big:
        try:
            inv = op.inverse
        except Exception:
            inv = None          # no inverse offered (or singular): nothing is demanded
        if inv is not None:
            for x_abs in line['pts']:
                try:
                    y = inv(sp.point('V', x_abs))
                    arr = np.asarray(y.asarray()).ravel()
                    if not np.all(np.isfinite(arr)):
                        break
                    val = []
                    ok = True
                    for z in arr:
                        z = complex(z)
                        parts = []
                        for c in (z.real, z.imag):
                            from fractions import Fraction
                            fr = Fraction(c).limit_denominator(720)
                            if abs(float(fr) - c) > 1e-9 * max(1.0, abs(c)) or abs(fr.numerator) > 10 ** 6:
                                ok = False
                            parts.append([fr.numerator, fr.denominator])
                        val.append(parts)
                    if ok:
                        events.append({'kind': 'inv', 'prog': e, 'x': x_abs, 'val': val, 'd': [], 'err': '', 'mode': 'inverse',
                                       'profile': profile})
                        ctx.count([e, 'inv', x_abs, profile], nontriv)
                except (ZeroDivisionError, NotImplementedError, np.linalg.LinAlgError):
                    break
                except Exception as ex:
                    ctx.violation(dict(sig0, clause='inverse-call-raised', exc=type(ex).__name__), dict(detail0, x=x_abs))
                    break
    if len(ctx.samples) < 4 and nontriv and U.n_comb(e) >= 2 and hash(json.dumps(e, sort_keys=True)) % 53 == 0:
        ctx.sample({'program': U.shape_of(e), 'abstract': e, 'points': line['pts'], 'expected': line['vals'],
                    'profile': profile, 'entries': sp.n, 'real_class': type(op).__name__})


def validate_events(ctx, events, chunk=4000, name='trace'):
    """TLC validation of evaluation events, one set of trace files per profile (W is a constant of OpSem)."""
    files = []
    for prof in sorted(set(ev['profile'] for ev in events)):
        idx = [i for i, ev in enumerate(events) if ev['profile'] == prof]
        for ci in range(0, len(idx), chunk):
            p = os.path.join(ctx.work, '%s_%s_%d.ndjson' % (name, prof, ci // chunk))
            with open(p, 'w') as f:
                for i in idx[ci:ci + chunk]:
                    e = dict(events[i])
                    e['id'] = i
                    e.setdefault('kind', 'eval')
                    e.setdefault('d', [])
                    f.write(json.dumps(e) + '\n')
            files.append((p, prof))

    def val(pp):
        p, prof = pp
        return p, run_tlc('Trace_OpMachine.tla', 'Trace_OpMachine.cfg', ctx.work,
                          env={'TRACE_FILE': p, 'OM_PROFILE': prof}, workers=1, timeout=3000)
    with ThreadPoolExecutor(max_workers=10) as ex:
        vres = list(ex.map(val, files))
    fails = []
    for p, res in vres:
        ctx.add_tlc(name + '-' + os.path.basename(p), res)
        for _ln, _eid, _cl in parse_fails(res.output):
            fails.append((_eid, _cl))
    return fails


def run(ctx):
    quick = ctx.tier == 'quick'
    ctx.rule = ('complete programs of the OpMachine stack machine (all programs with <= 3 construction steps over '
                'the leaf/combinator alphabet, exhaustively, plus TLC -simulate behaviours up to 6-7 steps) x probe '
                'points x {real, weighted real, complex} x {2, 120 entries} x {out-of-place, in-place}; distinct = '
                'hash(program, point, profile, size); non-trivial = >= 2 combinators or a nonlinear leaf')
    ctx.assumptions += [
        'values on small rational lattices, snapped with tolerance 2^-20/D',
        'expressions ODL documents as unsupported (scalar added to a non-Functional operator with field range, ...) '
        'are listed by OpSem!Supported and not demanded',
        'a linearity flag is wrong only if (a) True on an expression that is not additive/homogeneous on the probe '
        'points or (b) False on a structurally linear expression']
    work = ctx.work
    sizes = None
    jobs = []
    for prof in ('R', 'RW', 'C'):
        jobs.append(('exh', prof, 's' if (quick or prof != 'R') else 'm3', None, None))
        jobs.append(('sim', prof, 'l', 'num=%d' % (100 if quick else 1500), 7))
    # mixed fields: a complex space next to its real space (ComplexModulusSquared : V -> VR); scalars and vectors have to
    # lie in the field / space of the side they act on (A * a: domain side, a * A: range side)
    jobs.append(('exh', 'M', 's', None, None))
    jobs.append(('sim', 'M', 'l', 'num=%d' % (60 if quick else 600), 6))

    def go(j):
        name, prof, size, sim, depth = j
        out, res = U.export_programs(ctx, prof, size, name, simulate=sim, depth=depth,
                                     seed=(ctx.seed + 1) if sim else None)
        return j, out, res
    sane = []
    for prof in ('R', 'RW', 'C', 'M'):
        sane.append(('sane-' + prof, prof))

    def gosane(s):
        return s[0], run_tlc('MC_OpMachine.tla', 'MC_OpMachine_sane.cfg', work,
                             env={'OM_PROFILE': s[1], 'OM_SIZE': 's', 'OUT_FILE': os.devnull}, workers=3, timeout=1500)

    def gorewrite(prof):
        return 'rewrite-' + prof, run_tlc('MC_OpMachine.tla', 'MC_OpMachine_rewrite.cfg', work,
                                          env={'OM_PROFILE': prof, 'OM_SIZE': 's', 'OUT_FILE': os.devnull,
                                               'OM_RMULBUG': '0'}, workers=3, timeout=1500)
    with ThreadPoolExecutor(max_workers=8) as ex:
        f1 = [ex.submit(go, j) for j in jobs]
        f2 = [ex.submit(gosane, s) for s in sane]
        f3 = [ex.submit(gorewrite, p) for p in ('R', 'C')]
        exports = [f.result() for f in f1]
        for f in f2 + f3:
            n, r = f.result()
            ctx.add_tlc(n, r)
    events = []
    nprog = 0
    for (name, prof, size, sim, depth), out, res in exports:
        ctx.add_tlc('export-%s-%s' % (name, prof), res)
        lines = U.load_lines(out)
        if not lines:
            raise MachineryError('empty program export %s %s' % (name, prof))
        small = U.Spaces(prof, big=False)
        big = U.Spaces(prof, big=True)
        for i, line in enumerate(lines):
            if prof == 'M' and not (U.leaf_kinds(line['prog']) & {'cmod2', 'sqr'}):
                continue        # purely complex programs are the subject of profile C
            nprog += 1
            check_program(ctx, line, small, events, prof, name)
            if (not quick) or (i + ctx.seed) % 4 == 0:
                check_program(ctx, line, big, events, prof, name)
    ctx.traces += nprog
    ctx.extra['programs_replayed'] = nprog
    # --- code -> spec
    if quick:
        # every evaluation was already compared with the value TLC exported; TLC re-derives (code -> spec) the inverse
        # events, the events of simulated (deep) programs and every third event of the exhaustive programs
        keep = [ev for i, ev in enumerate(events) if ev.get('kind') == 'inv' or ev.get('deep') or i % 3 == 0]
        ctx.extra['trace_events_sampled_from'] = len(events)
        events = keep
    fails = validate_events(ctx, events)
    for eid, clauses in fails:
        ev = events[eid]
        ctx.violation({'profile': ev['profile'], 'top': U.top2(ev['prog']), 'clause': 'trace-' + '+'.join(
            sorted(set(re.findall(r'"([\w-]+)"', clauses)))), 'mode': ev['mode']},
            {'stage': 'trace', 'event': ev, 'tlc_clauses': clauses})
    ctx.extra['trace_events_validated_by_tlc'] = len(events)
    ctx.extra['trace_events_rejected_by_tlc'] = len(fails)
    ctx.exhaustive = True


def replay(body):
    d = body['detail']
    if 'line' not in d:
        print('trace-stage violation: event', dumps(d.get('event'))[:600])
        return 1
    line, prof = d['line'], d['profile']
    sp = U.Spaces(prof, big=d.get('big', False))
    print('program :', U.shape_of(line['prog']))
    try:
        op = U.build(line['prog'], sp, None, d.get('matmul', False))
    except Exception as ex:
        print('build raised', type(ex).__name__, ex)
        print('REPRODUCED' if body['signature'].get('clause') == 'build-raised' else 'DIFFERENT')
        return 1
    print('real    :', type(op).__name__, 'is_linear', op.is_linear, 'expected lin', line['lin'])
    bad = False
    D = U.den_of([line['vals'], line['pts']])
    for x_abs, exp in zip(line['pts'], line['vals']):
        x = sp.point(line['dom'], x_abs)
        try:
            obs, note = sp.project(line['ran'], op(x), D)
        except Exception as ex:
            obs, note = None, type(ex).__name__
        print(' x', dumps(x_abs), 'expected', dumps(exp), 'observed', dumps(obs), note)
        bad = bad or obs != exp
        if line['ran'] == 'V':
            out = op.range.element(np.full(sp.n, np.nan))
            try:
                op(sp.point(line['dom'], x_abs), out=out)
                obs2, _ = sp.project('V', out, D)
            except Exception as ex:
                obs2 = type(ex).__name__
            print('   in-place observed', dumps(obs2))
            bad = bad or obs2 != exp
            if line['dom'] == 'V' and not (U.leaf_kinds(line['prog']) & ALIAS_UNSAFE_LEAVES):
                xa = sp.point('V', x_abs)
                try:
                    op(xa, out=xa)
                    obs3, _ = sp.project('V', xa, D)
                except Exception as ex:
                    obs3 = type(ex).__name__
                print('   aliased (out = x) observed', dumps(obs3))
                bad = bad or obs3 != exp
    bad = bad or bool(op.is_linear) != bool(line['lin'])
    print('REPRODUCED' if bad else 'NOT-REPRODUCED')
    return 1 if bad else 0

"""C14 - partitions tile their domain: cells, nodes, indices and slices stay consistent.

Pipeline (DESIGN 4/C14):
  1. TLC: Config_Part over PartSem (layer A) + PartitionImpl (layer C) in three modes
       axis    every 1-d partition of the catalogue x (derived vectors, every eighth-lattice point, every index
               expression over its cells, construction routes fromgrid / nonuniform, squeeze)
       nd      2-d / 3-d partitions x (index, tuple / ellipsis / list index expressions, insert, append, squeeze, byaxis)
       uniform every (min, max, n, L, R) x every consistent argument subset x every nodes_on_bdry spelling
     with the clauses of the property as invariants and C [= A outside the one open cell (cell_sizes_vecs, one-node axis).
  2. Every (partition, query) state is exported with the layer-A answer and replayed on real
     RectPartition / RectGrid / IntervalProd objects and constructors under several concretisations.
     Histories (PartHist): every behaviour of 3 steps + final sweep over Construct(4 routes x 2 limit sets; ONE shared RectGrid
     object, caller-owned float64 arrays) / Query / MutateCallerArray / MutateReturned(10 attributes) /
     CallShared(36 families of non-mutating methods of the held IntervalProd, RectGrid and of the partition itself - collapse,
     squeeze, insert, append, min, max, corners, arithmetic, ... - with the handed-out arrays overwritten) is replayed; every
     query on every object (both orders) must equal the history-free reference.
  3. Every replayed call and the calls of a seeded random driver (1-4 d, up to 8 random dyadic nodes per axis,
     random index expressions / points / requests) are recorded as events and validated by TLC (Trace_Part).
"""
import json
import os
import random
import re
from concurrent.futures import ThreadPoolExecutor
from fractions import Fraction
from math import gcd

from ..tlc import run_tlc, parse_fails
from ..common import dumps, MachineryError
from .. import c14lib as L

NONE, NONEQ = L.NONE, L.NONEQ


# ------------------------------------------------------------------ signatures
def _pointclass(part, x):
    cls = set()
    for ax, v in zip(part, x):
        g = [L.fq(t) for t in ax['nodes']]
        b = [L.fq(ax['min'])] + [(g[i] + g[i + 1]) / 2 for i in range(len(g) - 1)] + [L.fq(ax['max'])]
        p = L.fq(v)
        cls.add('endpoint' if p in (b[0], b[-1]) else ('boundary' if p in b else 'interior'))
    for c in ('boundary', 'endpoint', 'interior'):      # label only (most special coordinate wins)
        if c in cls:
            return c
    return '-'


def _flags(cases):
    return 'L!=R' if any(c['L'] != c['R'] for c in cases) else 'L=R'


def _val(clause):
    return 'value' if clause in ('min', 'max', 'nodes') else clause


# IntervalProd.min() / max() are documented as `return self.min_pt` / `self.max_pt`: overwriting what they return is the
# MR/min_pt, MR/max_pt family of PartHist (same array object), reached through another spelling
CM_SAME_ARRAY = {'CM/set.min': 'MR/min_pt', 'CM/set.max': 'MR/max_pt'}


def signature(ev, conc, clause, k=0):
    """Family-level signature of a failed clause of one event (no literal numbers)."""
    kind = ev['kind']
    if kind == 'phist':
        mut = next(('%s/%s' % (s['a'], s['attr']) for s in ev['steps'] if s['a'] in ('MC', 'MR', 'CM')), 'none')
        via = None
        if mut in CM_SAME_ARRAY:       # the method returns the very array of an attribute already in the MR catalogue
            via, mut = mut, CM_SAME_ARRAY[mut]
        routes = sorted(set(o['route'] for o in ev['objs']))
        st = ev['steps'][k - 1] if 1 <= k <= len(ev['steps']) else {'a': '-', 'err': ''}
        sig = {'api': 'history', 'mut': mut, 'clause': 'value' if clause in L.QUERIES else clause}
        if via:
            sig['via'] = via
        if mut == 'none':       # pure sharing / ordering effects: say which construction routes and which query
            sig.update(routes='+'.join(routes), query=clause if clause in L.QUERIES else st['a'])
        return sig
    part = ev.get('part', [])
    nd = '1' if len(part) <= 1 else 'nd'
    if kind == 'derived':
        cls = L.axis_class(part[k - 1]) if 1 <= k <= len(part) else '-'
        return {'api': L.API_OF.get(clause, clause), 'clause': 'value' if clause in L.API_OF else clause, 'axis': cls}
    if kind == 'index':
        return {'api': 'index', 'mode': 'floating' if ev['floating'] else 'int',
                'clause': 'value' if clause == 'index' else clause, 'point': _pointclass(part, ev['x']), 'ndim': nd}
    if kind == 'getitem':
        return {'api': '__getitem__', 'form': L.idx_form(ev['idx']), 'clause': clause, 'ndim': nd}
    if kind in ('insert', 'append', 'squeeze', 'byaxis_item', 'byaxis_seq'):
        return {'api': kind, 'clause': clause, 'ndim': nd}
    if kind == 'fromgrid':
        return {'api': 'uniform_partition_fromgrid', 'style': conc.get('style', 'plain'), 'clause': _val(clause)}
    if kind == 'nonuniform':
        return {'api': 'nonuniform_partition', 'form': conc.get('form', 'nested'), 'clause': _val(clause)}
    if kind == 'uniform':
        cases = ev['cases']
        routes = sorted(set(L.route_name(c['args']) for c in cases))
        sig = {'api': conc.get('api', 'uniform_partition'), 'form': conc.get('form', 'nested'),
               'flags': _flags(cases), 'ndim': '1' if len(cases) == 1 else 'nd', 'clause': _val(clause)}
        sig['route'] = routes[0] if len(routes) == 1 else 'mixed'
        return sig
    return {'api': kind, 'clause': clause}


def py_clauses(ev, exp):
    """Python side of the replay comparison: exported layer-A answer vs observation -> [(clause, axis)]."""
    if ev['err']:
        return [('raised', 0)]
    kind = ev['kind']
    obs = ev['obs']
    if kind == 'derived':
        out = []
        for k, (ax, e, o) in enumerate(zip(ev['part'], exp, obs), start=1):
            for f in ('bdry', 'sizes', 'frac', 'nob', 'uniform', 'extent'):
                if e[f] != o[f]:
                    out.append((f, k))
            if e['uniform'] and o['uniform'] and e['side'] != o['side']:
                out.append(('side', k))
        return out
    if kind == 'index':
        fdef = ev.get('_fdef') or [True] * len(exp)
        return [('index', k) for k, (e, o) in enumerate(zip(exp, obs), start=1)
                if (not ev['floating'] or fdef[k - 1]) and e != o] + ([('ndim', 0)] if len(exp) != len(obs) else [])
    return [(c, 0) for c in sorted(L.part_clauses(exp, obs))]


# ------------------------------------------------------------------ replay of exported states
def expand(case, rot, thorough):
    """One exported (partition, query) state -> list of (event-without-observation, conc, expected)."""
    part, q = case['part'], case['q']
    kind = q['kind']
    out = []
    hows = ['rect', 'nonuniform', 'uniform', 'fromgrid']
    if kind == 'derived':
        for how in hows:
            out.append(({'kind': 'derived', 'part': part}, {'how': how, 'optional': how == 'uniform'}, q['ans']))
    elif kind == 'index':
        variants = [(False, True), (True, True), (False, False), (True, False)]
        if not thorough:
            variants = [variants[rot % 2], variants[2 + (rot // 2) % 2]] if len(part) == 1 else variants[:2]
        for fl, scalar in variants:
            ev = {'kind': 'index', 'part': part, 'x': q['x'], 'floating': fl, '_fdef': q['fdef']}
            out.append((ev, {'how': hows[rot % 2], 'scalar': scalar}, q['fans'] if fl else q['ans']))
    elif kind == 'getitem':
        single = q['idx']['k'] == 'tuple' and len(q['idx']['items']) == 1
        bares = [False, True] if (single and thorough) else [bool(single and rot % 2)]
        for bare in bares:
            out.append(({'kind': 'getitem', 'part': part, 'idx': q['idx']}, {'how': hows[(rot // 2) % 2], 'bare': bare}, q['ans']))
    elif kind in ('insert', 'append'):
        ev = {'kind': kind, 'part': part, 'others': q['others']}
        if kind == 'insert':
            ev['index'] = q['index']
        out.append((ev, {'how': 'rect'}, q['ans']))
    elif kind == 'squeeze':
        for bare in ([False, True] if len(q['axes']) == 1 and not q['all'] else [False]):
            out.append(({'kind': 'squeeze', 'part': part, 'all': q['all'], 'axes': q['axes']}, {'how': 'rect', 'bare': bare}, q['ans']))
    elif kind == 'byaxis_item':
        out.append(({'kind': kind, 'part': part, 'item': q['item']}, {'how': 'rect'}, q['ans']))
    elif kind == 'byaxis_seq':
        for astuple in (False, True):
            out.append(({'kind': kind, 'part': part, 'axes': q['axes']}, {'how': 'rect', 'astuple': astuple}, q['ans']))
    elif kind == 'fromgrid':
        for style in ('plain', 'dict', 'list'):
            if style == 'list' and (L.is_none_q(q['min']) or L.is_none_q(q['max'])):
                continue
            out.append(({'kind': kind, 'part': part, 'nodes': q['nodes'], 'min': q['min'], 'max': q['max']}, {'style': style}, q['ans']))
    elif kind == 'nonuniform':
        forms = ['nested', 'flat'] + (['bool'] if q['L'] == q['R'] else []) + (['omit'] if not (q['L'] or q['R']) else [])
        for form in forms:
            ev = {'kind': kind, 'part': part, 'nodes': q['nodes'], 'min': q['min'], 'max': q['max'], 'L': q['L'], 'R': q['R']}
            out.append((ev, {'form': form}, q['ans']))
    elif kind == 'uniform':
        c = q['c']
        ev = {'kind': 'uniform', 'part': [], 'cases': [{'args': q['args'], 'L': c['L'], 'R': c['R']}]}
        out.append((ev, {'form': q['form'], 'api': 'uniform_partition'}, q['ans']))
        if L.route_name(q['args']) == 'min,max,n':
            for api in ('uniform_partition_fromintv', 'uniform_grid_fromintv'):
                out.append((dict(ev), {'form': q['form'], 'api': api}, q['ans']))
    else:
        raise MachineryError('unknown exported query kind ' + kind)
    return out


def nontrivial(ev, exp):
    kind = ev['kind']
    if kind in ('getitem', 'squeeze', 'byaxis_item', 'byaxis_seq'):
        return exp != ev['part']
    if kind == 'index':
        return any(e != [0, 1] for e in exp)
    return True


def run_one(ev, conc, exp):
    """Execute one call on real objects; returns the completed event (or None if the optional concretisation
    does not describe this abstract partition)."""
    q = dict(ev)
    obs, err = L.observe(ev.get('part', []), q, conc)
    if conc.get('optional'):
        # 'uniform' / 'fromgrid' construction is a concretisation only if it yields the abstract partition
        try:
            if L.proj_part(L.mk_part(ev['part'], conc['how'])) != ev['part']:
                return None
        except Exception:
            return None
    ev = dict(ev)
    ev['obs'] = obs if obs is not None else []
    ev['err'] = err.split(':')[0] if err else ''
    ev['_errmsg'] = err
    return ev


def replay_chunk(args):
    path, lo, hi, seed, thorough = args
    res = []
    with open(path) as f:
        for ln, line in enumerate(f):
            if ln < lo or ln >= hi or not line.strip():
                continue
            case = json.loads(line)
            for ev0, conc, exp in expand(case, ln + seed, thorough):
                ev = run_one(ev0, conc, exp)
                if ev is None:
                    continue
                cl = py_clauses(ev, exp)
                if cl:
                    ev['_expected'] = exp
                res.append((ev, conc, cl, nontrivial(ev, exp), ln))
    return res


def hist_clauses(steps, hist):
    out = []
    for j, (s, h) in enumerate(zip(steps, hist), start=1):
        if s['err']:
            out.append(('raised', j))
        elif s['a'] == 'Q' and not L.ans_same(s['q'], h['exp'], s['obs']):
            out.append((s['q'], j))
        elif s['a'] == 'SWEEP':
            for q in L.QUERIES:
                first = s['obs_first'] or s['obs']
                if any(not (L.ans_same(q, e[q], o1[q]) and L.ans_same(q, e[q], o2[q]))
                       for o1, o2, e in zip(first, s['obs'], h['exp'])):
                    out.append((q, j))
    return out


def hist_chunk(args):
    path, lo, hi = args
    res = []
    with open(path) as f:
        for ln, line in enumerate(f):
            if ln < lo or ln >= hi or not line.strip():
                continue
            c = json.loads(line)
            steps = L.run_part_history(c['sc'], c['objs'], c['hist'])
            msgs = [st.pop('errmsg') for st in steps if 'errmsg' in st]
            ev = {'kind': 'phist', 'sc': c['sc'], 'objs': c['objs'], 'steps': steps, 'err': '', '_errmsg': '; '.join(msgs)}
            cl = hist_clauses(steps, c['hist'])
            if cl:
                ev['_expected'] = [h['exp'] for h in c['hist']]
            res.append((ev, {'how': 'history'}, cl, True, ln))
    return res


def combine_uniform(path, seed, count):
    """N-d uniform_partition calls assembled from exported 1-d cases (nested flags); expected = the 1-d answers."""
    rnd = random.Random(seed * 31 + 5)
    cases = []
    with open(path) as f:
        for line in f:
            if line.strip():
                c = json.loads(line)
                if c['q']['form'] == 'nested':
                    cases.append(c['q'])
    out = []
    for _ in range(count):
        nd = rnd.choice([2, 2, 3])
        qs = [rnd.choice(cases) for _ in range(nd)]
        ev = {'kind': 'uniform', 'part': [], 'cases': [{'args': q['args'], 'L': q['c']['L'], 'R': q['c']['R']} for q in qs]}
        exp = [q['ans'][0] for q in qs]
        conc = {'form': rnd.choice(['nested', 'mixed']), 'api': 'uniform_partition'}
        if all(L.route_name(q['args']) == 'min,max,n' for q in qs) and rnd.random() < 0.7:
            conc['api'] = rnd.choice(['uniform_partition_fromintv', 'uniform_grid_fromintv'])
        e = run_one(ev, conc, exp)
        cl = py_clauses(e, exp)
        if cl:
            e['_expected'] = exp
        out.append((e, conc, cl, True, -1))
    return out


# ------------------------------------------------------------------ seeded random driver (code -> spec)
def _q(fr):
    fr = Fraction(fr)
    return [fr.numerator, fr.denominator]


def rnd_axis(rnd, den=8):
    n = rnd.choice([1, 1, 2, 3, 4, 5, 6, 7, 8])
    pos = sorted(rnd.sample(range(-3 * den, 3 * den + 1), n))
    g = [Fraction(v, den) for v in pos]
    if n == 1 and rnd.random() < 0.35:
        return {'min': _q(g[0]), 'max': _q(g[0]), 'nodes': [_q(g[0])]}
    lo = g[0] - rnd.choice([0, 0, 1, 2, 3, 5]) * Fraction(1, den)
    hi = g[-1] + rnd.choice([0, 0, 1, 2, 3, 5]) * Fraction(1, den)
    if n == 1 and lo == hi:
        hi += Fraction(1, den)
    return {'min': _q(lo), 'max': _q(hi), 'nodes': [_q(v) for v in g]}


def rnd_item(rnd, n):
    """random admissible item for an axis with n nodes"""
    while True:
        if rnd.random() < 0.3:
            return {'k': 'int', 'i': rnd.randint(-n, n - 1), 'a': NONE, 'b': NONE, 's': NONE}
        o = lambda: rnd.choice([NONE, NONE] + list(range(-n - 1, n + 2)))
        a, b, s = o(), o(), rnd.choice([NONE, 1, 1, 2, 3, 4])
        sl = slice(None if a == NONE else a, None if b == NONE else b, None if s == NONE else s)
        if len(range(n)[sl]) >= 1:
            return {'k': 'slice', 'i': 0, 'a': a, 'b': b, 's': s}


ELL = {'k': 'ell', 'i': 0, 'a': NONE, 'b': NONE, 's': NONE}


def rnd_idx(rnd, part):
    nd = len(part)
    ns = [len(ax['nodes']) for ax in part]
    r = rnd.random()
    if r < 0.15:
        n = ns[0]
        m = rnd.randint(1, n)
        l = sorted(rnd.sample(range(n), m))
        if rnd.random() < 0.4:
            l = [v - n if rnd.random() < 0.5 else v for v in l]
        return {'k': 'list', 'items': [], 'l': l}
    if r < 0.55:
        items = [rnd_item(rnd, n) for n in ns]
    else:
        left = rnd.randint(0, nd)
        right = rnd.randint(0, nd - left)
        items = [rnd_item(rnd, n) for n in ns[:left]]
        tail = [rnd_item(rnd, n) for n in ns[nd - right:]] if right else []
        if tail or rnd.random() < 0.5 or left == 0:
            items = items + [ELL] + tail
    return {'k': 'tuple', 'items': items, 'l': []}


def rnd_point(rnd, ax, den=16):
    lo, hi = L.fq(ax['min']), L.fq(ax['max'])
    g = [L.fq(t) for t in ax['nodes']]
    special = [lo, hi] + g + [(g[i] + g[i + 1]) / 2 for i in range(len(g) - 1)]
    if rnd.random() < 0.45:
        return _q(rnd.choice(special))
    k = rnd.randint(0, int((hi - lo) * den))
    return _q(lo + Fraction(k, den))


def random_task(args):
    seed, count, tid0 = args
    if seed is None:
        return beyond_events()
    return random_events(random.Random(seed), count, tid0)


def beyond_events():
    """Deterministic enumeration beyond the TLC constants (all-dyadic, so every boundary may be probed):
    uniform partitions with 7..17 nodes, every 1/32-lattice point (int and floating index), every unit-step slice."""
    out = []
    specs = [(0, 1, 8, False, False), (0, 1, 9, True, True), (0, 2, 16, False, False), (0, 1, 17, True, True),
             (Fraction(-1, 2), Fraction(5, 4), 7, False, False), (Fraction(-1, 2), Fraction(5, 4), 8, True, True),
             (-2, 2, 8, True, False), (-2, 2, 8, False, True)]
    for a, b, n, Lf, Rf in specs:
        a, b = Fraction(a), Fraction(b)
        if Lf and Rf:
            g0, g1 = a, b
        elif Lf:
            g0, g1 = a, b - (b - a) / (2 * n - 1)
        elif Rf:
            g0, g1 = a + (b - a) / (2 * n - 1), b
        else:
            g0, g1 = a + (b - a) / (2 * n), b - (b - a) / (2 * n)
        case = {'args': {'min': _q(a), 'max': _q(b), 'n': n, 'h': NONEQ}, 'L': Lf, 'R': Rf}
        ev = run_one({'kind': 'uniform', 'part': [], 'cases': [case]}, {'form': 'nested', 'api': 'uniform_partition'}, None)
        out.append((ev, {'form': 'nested', 'api': 'uniform_partition'}, None, True, -1))
        if ev['err'] or any(v[1] not in (1, 2, 4, 8, 16, 32, 64) for ax in ev['obs'] for v in ax['nodes']):
            continue            # only all-dyadic partitions are probed on their boundaries (tie rule)
        part = ev['obs']        # the observed partition is the input of the further events (TLC re-derives everything from it)
        out.append((run_one({'kind': 'derived', 'part': part}, {'how': 'uniform'}, None), {'how': 'uniform'}, None, True, -1))
        k = 0
        while a + Fraction(k, 32) <= b:
            for fl in (False, True):
                conc = {'how': 'rect', 'scalar': bool(k % 2)}
                out.append((run_one({'kind': 'index', 'part': part, 'x': [_q(a + Fraction(k, 32))], 'floating': fl}, conc, None),
                            conc, None, True, -1))
            k += 1
        for i in range(n):
            for j in range(i + 1, n + 1, 3):
                idx = {'k': 'tuple', 'items': [{'k': 'slice', 'i': 0, 'a': i, 'b': j, 's': NONE}], 'l': []}
                conc = {'how': 'rect', 'bare': bool((i + j) % 2)}
                out.append((run_one({'kind': 'getitem', 'part': part, 'idx': idx}, conc, None), conc, None, True, -1))
    for ev, *_ in out:
        ev['tid'] = 0
    return out


def random_events(rnd, count, tid0=0):
    out = []
    tid = tid0
    while len(out) < count:
        tid += 1
        nd = rnd.choice([1, 1, 2, 2, 3, 4])
        part = [rnd_axis(rnd) for _ in range(nd)]
        how = rnd.choice(['rect', 'rect', 'nonuniform'])
        evs = [({'kind': 'derived', 'part': part}, {'how': how})]
        for _ in range(3):
            evs.append(({'kind': 'index', 'part': part, 'x': [rnd_point(rnd, ax) for ax in part],
                         'floating': rnd.random() < 0.5}, {'how': how, 'scalar': rnd.random() < 0.5}))
        for _ in range(4):
            idx = rnd_idx(rnd, part)
            evs.append(({'kind': 'getitem', 'part': part, 'idx': idx},
                        {'how': how, 'bare': idx['k'] == 'tuple' and len(idx['items']) == 1 and rnd.random() < 0.5}))
        others = [[rnd_axis(rnd) for _ in range(rnd.choice([1, 1, 2]))] for _ in range(rnd.choice([1, 1, 2]))]
        if rnd.random() < 0.5:
            evs.append(({'kind': 'insert', 'part': part, 'index': rnd.randint(-nd, nd), 'others': others}, {'how': how}))
        else:
            evs.append(({'kind': 'append', 'part': part, 'others': others}, {'how': how}))
        axs = sorted(rnd.sample(range(nd), rnd.randint(0, nd)))
        allax = rnd.random() < 0.3
        evs.append(({'kind': 'squeeze', 'part': part, 'all': allax, 'axes': list(range(nd)) if allax else axs}, {'how': how}))
        if rnd.random() < 0.5:
            evs.append(({'kind': 'byaxis_seq', 'part': part, 'axes': [rnd.randint(-nd, nd - 1) for _ in range(rnd.randint(1, 4))]},
                        {'how': how, 'astuple': rnd.random() < 0.5}))
        else:
            evs.append(({'kind': 'byaxis_item', 'part': part, 'item': rnd_item(rnd, nd)}, {'how': how}))
        # a uniform request with random route per axis
        und = rnd.choice([1, 1, 2, 3])
        cases = []
        for _ in range(und):
            a = Fraction(rnd.randint(-24, 24), 8)
            e = Fraction(rnd.randint(1, 40), 8)
            n = rnd.randint(1, 9)
            Lf, Rf = rnd.random() < 0.5, rnd.random() < 0.5
            if n == 1 and Lf and Rf:
                Rf = False
            h = e / (Fraction(n) - Fraction(int(Lf) + int(Rf), 2))
            route = rnd.choice([(1, 1, 1, 0), (1, 0, 1, 1), (0, 1, 1, 1), (1, 1, 0, 1), (1, 1, 1, 1)])
            if max(h.numerator, h.denominator) > 10 ** 6:
                route = (1, 1, 1, 0)
            cases.append({'args': {'min': _q(a) if route[0] else NONEQ, 'max': _q(a + e) if route[1] else NONEQ,
                                   'n': n if route[2] else NONE, 'h': _q(h) if route[3] else NONEQ}, 'L': Lf, 'R': Rf})
        form = rnd.choice(['nested', 'mixed'] + (['bool'] if len(set((c['L'], c['R']) for c in cases)) == 1 and cases[0]['L'] == cases[0]['R'] else []))
        if und == 1 and cases[0]['L'] == cases[0]['R'] and rnd.random() < 0.3:
            form = 'flat'
        conc = {'form': form, 'api': 'uniform_partition'}
        if all(L.route_name(c['args']) == 'min,max,n' for c in cases) and rnd.random() < 0.5:
            conc['api'] = rnd.choice(['uniform_partition_fromintv', 'uniform_grid_fromintv'])
        evs.append(({'kind': 'uniform', 'part': [], 'cases': cases}, conc))
        for ev0, conc in evs:
            ev = run_one(ev0, conc, None)
            ev['tid'] = tid
            out.append((ev, conc, None, True, -1))
    return out


# ------------------------------------------------------------------ check
def report(ctx, counts, sig, detail, cap=8):
    """every violating case is counted; at most `cap` replay files are written per family (known findings: no files)"""
    key = dumps(sig, sort_keys=True)
    counts[key] = counts.get(key, 0) + 1
    if counts[key] <= cap or ctx._match_known(sig) is not None:
        ctx.violation(sig, detail)


def clean(ev):
    return {k: v for k, v in ev.items() if not k.startswith('_')}


def run(ctx):
    import multiprocessing as mp
    quick = ctx.tier == 'quick'
    ctx.rule = ('abstract case = (partition, query) state of Config_Part exported by TLC (every partition of the catalogue x every '
                'probe point / index expression / structural operation / construction route) x concretisation (construction route of '
                'the real partition, scalar/list point, bare/tuple index, nodes_on_bdry spelling, min/max argument style); distinct = '
                'hash of (abstract case, concretisation); non-trivial = the answer is not the unchanged input partition / the all-zero index')
    ctx.assumptions += [
        'coordinates are small rationals; dyadic ones are compared exactly, the others after projection to the nearest rational '
        'with denominator <= 4096 (tolerance 2^-34 relative)',
        'tie rule: probe points exactly on an interior cell boundary only on all-dyadic axes, otherwise >= 1/64 away',
        '"cells are exactly the selected cells" is demanded for unit-step selections (ints, step-1 slices, lists of consecutive cells); '
        'stepped slices and general lists: selected nodes and the documented hull of the un-stepped range only',
        'a one-node axis with both nodes requested on the boundary needs min = max (otherwise the request is inconsistent and not explored)',
        'the cell-side clause side*count = extent is evaluated on the requested cell side of the constructor; the read-back cell_sides '
        'is compared for axes with >= 2 nodes and for centred one-node axes',
        'floating index on a degenerate (min = max) axis is 0/0 and not compared',
        'inconsistent constructor requests (fewer than 3 parameters, contradicting values) are outside the statement and not explored',
        'histories: a caller that overwrites an array RETURNED by a partition must leave the partition (and its siblings on the same grid) '
        'unaffected - either the array is a copy or it is read-only (a refused write counts as unaffected); the same holds for every '
        'public method of the partition, its set and its grid that is documented as returning a new object or a value (action CM: '
        'calling it, and overwriting the arrays it hands out, leaves every partition as built); in histories the size of the '
        'single cell of a one-node axis is not compared (open finding KF-C14-3)']
    import time
    T = [time.time()]
    phase = {}

    def lap(name):
        T.append(time.time())
        phase[name] = round(T[-1] - T[-2], 1)
    work = ctx.work
    big = '0' if quick else '1'
    modes = ['axis', 'nd', 'uniform']
    jobs = [('model-' + m, 'MC_Part.tla', 'MC_Part_check.cfg',
             {'PART_MODE': m, 'PART_BIG': big, 'OUT_FILE': os.path.join(work, 'exp_%s.ndjson' % m)}) for m in modes]
    jobs.append(('nonvacuity', 'MC_Part.tla', 'MC_Part_bogus.cfg', {'PART_MODE': 'axis', 'PART_BIG': '0', 'OUT_FILE': os.devnull}))
    # histories on shared grid objects / caller-owned arrays (PartHist)
    hist_path = os.path.join(work, 'exp_hist.ndjson')
    jobs.append(('model-hist', 'MC_PartHist.tla', 'MC_PartHist_check.cfg', {'PH_BIG': big, 'OUT_FILE': hist_path}))
    jobs.append(('nonvacuity-hist', 'MC_PartHist.tla', 'MC_PartHist_bogus.cfg', {'PH_BIG': '0', 'OUT_FILE': os.devnull}))

    def go(j):
        return j[0], run_tlc(j[1], j[2], work, env=j[3], workers=1, timeout=3000)
    with ThreadPoolExecutor(max_workers=6) as ex:
        results = list(ex.map(go, jobs))
    for name, res in results:
        if name.startswith('nonvacuity'):
            ctx.add_tlc(name, res, expect='any')
            if res.status != 'counterexample':
                raise MachineryError('self-test: the deliberately false invariant was not refuted')
        else:
            ctx.add_tlc(name, res)

    lap('tlc_model_and_export')

    # ---- 2. replay of the exported states (multiprocessing) ----
    tasks = []
    nlines = {}
    for m in modes:
        path = os.path.join(work, 'exp_%s.ndjson' % m)
        with open(path) as f:
            n = sum(1 for _ in f)
        if n == 0:
            raise MachineryError('empty export for mode ' + m)
        nlines[m] = n
        step = 1500
        for lo in range(0, n, step):
            tasks.append((path, lo, lo + step, ctx.seed, not quick))
    nrand, per = (4000, 500) if quick else (120000, 4000)
    rtasks = [(None, 0, 0)] + [(ctx.seed * 7919 + 14 + 1000003 * j, per, (j + 1) * 100000) for j in range(nrand // per)]
    with open(hist_path) as f:
        nh = sum(1 for _ in f)
    if nh == 0:
        raise MachineryError('empty export of PartHist')
    nlines['hist'] = nh
    htasks = [(hist_path, lo, lo + 300) for lo in range(0, nh, 300)]
    with mp.get_context('fork').Pool(12) as pool:
        ares = pool.map_async(replay_chunk, tasks, chunksize=1)
        hres = pool.map_async(hist_chunk, htasks, chunksize=1)
        rres = pool.map_async(random_task, rtasks, chunksize=1)       # ---- 3. random driver (same pool) ----
        chunks = ares.get()
        hchunks = hres.get()
        rchunks = rres.get()
    records = [r for ch in chunks for r in ch]
    records += [r for ch in hchunks for r in ch]
    records += combine_uniform(os.path.join(work, 'exp_uniform.ndjson'), ctx.seed, 150 if quick else 1500)
    ctx.extra['exported_states'] = nlines
    nreplayed = len(records)
    records += [r for ch in rchunks for r in ch]
    ctx.extra['random_driver_events'] = len(records) - nreplayed

    fam_counts = {}
    for i, (ev, conc, cl, nontriv, ln) in enumerate(records):
        ev['id'] = i
        ev.setdefault('tid', 0)
        if ev['kind'] == 'phist':
            ctx.count([ev['sc'], ev['objs'], [(st['a'], st['route'], st['lim'], st['i'], st['q'], st['attr']) for st in ev['steps']]], nontriv)
        else:
            ctx.count([clean({k: v for k, v in ev.items() if k not in ('obs', 'err', 'id', 'tid')}), conc], nontriv)
        if cl:
            seen = set()
            for clause, k in cl:
                sig = signature(ev, conc, clause, k)
                key = dumps(sig, sort_keys=True)
                if key in seen:
                    continue
                seen.add(key)
                report(ctx, fam_counts, sig, {'stage': 'replay', 'event': clean(ev), 'conc': conc, 'errmsg': ev.get('_errmsg', ''),
                                    'expected_by_spec': ev.get('_expected'), 'clauses': [list(c) for c in cl]})
    # layer C mirrors one open defect; if the real code agrees with layer A in that cell the model has drifted (not an alarm)
    for ev, conc, cl, nontriv, ln in records:
        if cl == [] and ev['kind'] == 'derived' and any(L.axis_class(ax) == 'one-node' for ax in ev['part']):
            ctx.drift_note('PartitionImpl!ImplCellSizes predicts 0 on one-node axes, the real cell_sizes_vecs agrees with PartSem')
            break
    for kind in ('index', 'getitem', 'derived', 'uniform'):
        for ev, conc, cl, nontriv, ln in records:
            if ev['kind'] == kind and not cl and nontriv and ev['id'] % 37 == 0:
                ctx.sample({'event': clean(ev), 'concretisation': conc})
                break
    ctx.traces += len(records)

    lap('replay_and_random_driver')

    # ---- 4. TLC validates every recorded event ----
    files = []
    cur, w = [], 0
    groups = []
    for rec in records:
        wt = 8 if rec[0]['kind'] == 'phist' else 1          # history events carry two full sweeps
        if cur and (w + wt > 6000 or len(cur) >= 6000):
            groups.append(cur)
            cur, w = [], 0
        cur.append(rec)
        w += wt
    if cur:
        groups.append(cur)
    for gi, grp in enumerate(groups):
        p = os.path.join(work, 'trace_%d.ndjson' % gi)
        with open(p, 'w') as f:
            for ev, conc, cl, nontriv, ln in grp:
                f.write(json.dumps(clean(ev)) + '\n')
        files.append(p)

    def val(p):
        return p, run_tlc('Trace_Part.tla', 'Trace_Part.cfg', work, env={'TRACE_FILE': p}, workers=1, timeout=3000, heap='3g')
    with ThreadPoolExecutor(max_workers=12) as ex:
        vres = list(ex.map(val, files))
    nfail = 0
    tlc_bad = set()
    for p, res in vres:
        ctx.add_tlc('trace-' + os.path.basename(p), res)
        for _line, eid, ctext in parse_fails(res.output):
            nfail += 1
            tlc_bad.add(eid)
            ev, conc, cl, nontriv, ln = records[eid]
            pairs = re.findall(r'<<\s*"([\w-]+)"\s*,\s*(\d+)\s*>>', ctext)
            if not pairs:
                raise MachineryError('unparsable FAIL clauses from TLC: %s' % ctext[:200])
            if any(c == 'precondition' or c == 'unknown-kind' for c, _ in pairs):
                raise MachineryError('driver produced an inadmissible event: %s' % dumps(clean(ev))[:300])
            seen = set()
            for clause, k in pairs:
                sig = signature(ev, conc, clause, int(k))
                key = dumps(sig, sort_keys=True)
                if key in seen:
                    continue
                seen.add(key)
                report(ctx, fam_counts, sig, {'stage': 'trace', 'event': clean(ev), 'conc': conc, 'errmsg': ev.get('_errmsg', ''),
                                    'tlc_clauses': ctext[:600]})
    # both directions judge the replayed exported cases with the same layer-A operators: they must agree event by event
    for i, (ev, conc, cl, nontriv, ln) in enumerate(records):
        if cl is not None and bool(cl) != (i in tlc_bad):
            raise MachineryError('replay comparison and TLC trace validation disagree on event %d: %s' % (i, dumps(clean(ev))[:300]))
    lap('tlc_trace_validation')
    ctx.extra['phase_s'] = phase
    ctx.extra['violating_cases_by_family'] = fam_counts
    ctx.extra['trace_events_validated_by_tlc'] = len(records)
    ctx.extra['trace_events_rejected_by_tlc'] = nfail
    ctx.extra['bounds'] = ('1-3 d (random driver: 1-4 d), 1..5 nodes per axis (random driver: 1..8), limits on a quarter lattice, '
                           '4 nodes_on_bdry placements per axis, 10 non-uniform node vectors, all ints / slices (start, stop in -(n+1)..n+1, '
                           'step 1..3) / increasing lists over the cells of each 1-d partition, eighth-lattice probe points')
    ctx.exhaustive = True     # every exported (partition, query) state of the bounded machine is replayed


def replay(body):
    d = body['detail']
    ev0 = {k: v for k, v in d['event'].items() if k not in ('obs', 'err', 'id', 'tid')}
    ev = run_one(ev0, dict(d['conc'], optional=False), None)
    print('query    :', dumps({k: v for k, v in ev0.items() if k != 'part'})[:600])
    print('partition:', dumps(ev0.get('part')))
    print('concrete :', dumps(d['conc']))
    if d.get('expected_by_spec') is not None:
        print('expected (layer A):', dumps(d['expected_by_spec'])[:600])
    print('observed then:', dumps(d['event'].get('obs'))[:600], d['event'].get('err'))
    print('observed now :', dumps(ev['obs'])[:600], ev['err'], ev['_errmsg'])
    print('failed clauses:', d.get('clauses') or d.get('tlc_clauses'))
    same = ev['obs'] == d['event'].get('obs') and ev['err'] == d['event'].get('err')
    print('REPRODUCED' if same else 'NOT-REPRODUCED')
    return 1 if same else 0

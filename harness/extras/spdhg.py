"""EXT stage `spdhg`: the stochastic primal-dual hybrid gradient family of odl/contrib/solvers/spdhg
(pdhg, spdhg, pa_spdhg, spdhg_generic, da_spdhg, spdhg_pesquet) under ARBITRARY selection schedules.

Specification: spec/sem/SpdhgSem.tla (layer A: the documented iteration, exact rationals, weighted adjoints),
spec/mach/SpdhgMachine.tla (layer B: Start / Select(S) for every subset S / Resume; laws z = A^* y, frame, saddle points
are fixed points, pdhg = the direct dual-extrapolated Chambolle-Pock form, step-size products of the accelerated
variants), spec/impl/SpdhgImpl.tla (layer C: spdhg_generic's statements as written, refines A for every list order of
a selection and every option default), spec/trace/Trace_Spdhg.tla (layer D: episodes recorded from real ODL).

  spec -> code  every maximal schedule-labelled behaviour exported by TLC (MC_Spdhg_export) is replayed on real ODL with
                `fun_select` replaying the schedule, a callback recording x, y and the caller-owned z after every
                iteration, and Resume realised as return + new call with x, y, z passed back; the snapped registers
                must equal the exported ones after EVERY prefix.  Concretisations: rn / weighted rn (user operators
                whose adjoints respect the weights) / uniform_discr with cell volume = the weight / float32; option
                spellings (f list / tuple / SeparableSum, sigma / prob list / array / tuple, selections as list /
                tuple / array in any order, niter int / numpy int, y and z passed or defaulted).
  code -> spec  seeded drivers build problems beyond the catalogue (more / larger blocks, other weights, functionals
                and step sizes, longer random schedules with resumes and empty selections) and the documented DEFAULT
                selection (serial sampling) - the episodes are validated by Trace_Spdhg (TLC recomputes every step;
                for the default selection it searches the serial schedules).
                The documented helpers of misc.py (partition_equally_1d, divide_1Darray_equally, bregman,
                total_variation, TotalVariationNonNegative values, KullbackLeiblerSmooth / ...ConvexConj values, proximal
                through its optimality condition, convex_conj pairing) and the step-size rule of pa_spdhg over long runs
                (relational) are recorded as one event per public call and validated by the same trace specification
                (layer A: the "helpers" section of SpdhgSem, sanity laws MC_SpdhgMisc).
Python builds objects, snaps observations onto rationals and moves JSON; TLC decides.  Replayed exports are compared on the
lattice of the expected denominator (house rule); driver observations are snapped to the simplest rational within the
rounding slack and an episode is cut before the first value that has none (see `snap`).
"""
import json
import os
import random
import re
import warnings
from concurrent.futures import ThreadPoolExecutor
from fractions import Fraction

import numpy as np

from ..common import MachineryError
from ..tlc import run_tlc, parse_fails

STANDALONE = True
STAGE = 'spdhg'
CORRUPT_ID = 999999


# ------------------------------------------------------------------ exact helpers (input construction only)
def fq(q):
    return Fraction(q[0], q[1])


def tq(fr):
    fr = Fraction(fr)
    return [int(fr.numerator), int(fr.denominator)]


def fvec(v):
    return [fq(q) for q in v]


def adj_all(case, y):
    """z = sum_i (wY_i / wX) M_i^T y_i on Fractions: the z a caller passes together with y (an INPUT of the call)"""
    P = case['P']
    n = P['n']
    z = [Fraction(0)] * n
    for blk, yi in zip(P['blocks'], y):
        c = fq(blk['wY']) / fq(P['wX'])
        for i, row in enumerate(blk['M']):
            for j in range(n):
                z[j] += c * fq(row[j]) * fq(yi[i])
    return [tq(v) for v in z]


def _simplest(lo, hi):
    """the fraction with the smallest denominator in [lo, hi] (0 < lo <= hi)"""
    fl = lo.numerator // lo.denominator
    if fl == lo:
        return Fraction(fl)
    if fl + 1 <= hi:
        return Fraction(fl + 1)
    return fl + 1 / _simplest(1 / (hi - fl), 1 / (lo - fl))


WIDE = None          # a finite float that is not a small rational up to rounding: the episode is cut before it


def snap(v, f32=False, wide_ok=False):
    """float -> [n, d]: the SIMPLEST rational within the rounding slack, the NaN token [0, 0] for a non-finite float
    (no rational of the specification equals it) and WIDE (with wide_ok) / the NaN token for a finite float that has no
    small rational nearby.  ODL's proximals lose a few ulps (the l-infinity projection returns 0.499999999999995 for
    0.5) and five iterations amplify that, so the slack is 2^-30 (relative) for float64 with denominators <= 2^13
    (distinct candidates are >= 2^-26 apart) and 2^-12 for float32 with denominators <= 64 (float32 runs are made only
    where the values have denominators <= 16 and magnitudes <= 8)."""
    v = float(v)
    if not np.isfinite(v):
        return [0, 0]
    scale = max(1, int(abs(v)) + 1)
    tol = Fraction(1, 4096) * scale if f32 else Fraction(1, 1 << 30) * scale
    fv = Fraction(v)
    if abs(fv) <= tol:
        return [0, 1]
    sgn = 1 if fv > 0 else -1
    fr = sgn * _simplest(abs(fv) - tol, abs(fv) + tol)
    if fr.denominator > (64 if f32 else 1 << 13) or abs(fr.numerator) >= 1 << 24:
        return WIDE if wide_ok else [0, 0]
    return tq(fr)


def near(v, q, f32=False):
    """is the float v the rational q up to rounding?  (house rule: snap onto the lattice of the EXPECTED denominator D,
    slack 2^-20 / D for float64, 2^-10 / D for float32, relative for |v| > 1)"""
    v = float(v)
    if not np.isfinite(v) or q[1] == 0:
        return False
    D = q[1]
    fr = Fraction(round(Fraction(v) * D), D)
    # float32: ODL's float32 proximals lose ~1e-5 and the extrapolation amplifies that to ~1e-3 within three iterations;
    # float32 runs are made only on the coarse lattice (denominators <= 16, magnitudes <= 4: spacing 1/16 >> 2 * slack)
    tol = 2.0 ** -8 * max(1.0, abs(v)) if f32 else 2.0 ** -20 / D * max(1.0, abs(v))
    return fr == Fraction(q[0], q[1]) and abs(float(fr) - v) <= tol


def near_reg(obs, exp, f32):
    """registers (nested lists of floats) against exported rationals"""
    if isinstance(exp, list) and len(exp) == 2 and isinstance(exp[0], int):
        return near(obs, exp, f32)
    return isinstance(obs, list) and len(obs) == len(exp) and all(near_reg(o, e, f32) for o, e in zip(obs, exp))


def narrow(regs_list):
    """are all these register values on the coarse lattice a float32 run can be snapped to?"""
    def ok(q):
        return q is not WIDE and q[1] != 0 and q[1] <= 16 and abs(q[0]) <= 4 * q[1]
    for r in regs_list:
        if not (all(ok(q) for q in r['x']) and all(ok(q) for yi in r['y'] for q in yi)
                and all(ok(q) for q in (r['z'] or []))):
            return False
    return True


def snap_arr(a, f32=False, wide_ok=False):
    return [snap(v, f32, wide_ok) for v in np.asarray(a).ravel()]


def too_wide(regs, bound):
    def w(q):
        return q is WIDE or abs(q[0]) > bound or q[1] > bound
    return any(w(q) for q in regs['x']) or any(w(q) for yi in regs['y'] for q in yi) or \
        any(w(q) for q in (regs['z'] or []))


# ------------------------------------------------------------------ real objects
def _odl():
    import odl
    return odl


class _Env(object):
    pass


def make_wmat(odl, M, dom, ran, Madj):
    """user-defined matrix operator between weighted spaces whose adjoint respects the weights"""
    class WMat(odl.Operator):
        def __init__(self, M, dom, ran, Madj):
            super(WMat, self).__init__(dom, ran, linear=True)
            self.M, self.Madj = M, Madj

        def _call(self, x, out):
            out[:] = self.M.dot(x.asarray().ravel()).reshape(out.shape)

        @property
        def adjoint(self):
            return WMat(self.Madj, self.range, self.domain, self.M)
    return WMat(M, dom, ran, Madj)


def build(case, conc, sp):
    """real spaces, operators and functionals of an abstract case under a concretisation / spelling"""
    odl = _odl()
    P = case['P']
    n = P['n']
    wX = fq(P['wX'])
    dt = 'float32' if conc == 'f32' else 'float64'
    e = _Env()
    e.f32 = conc == 'f32'
    if conc == 'discr':
        e.X = odl.uniform_discr(0, float(wX) * n, n)          # cell volume = wX
    elif wX == 1:
        e.X = odl.rn(n, dtype=dt)
    else:
        e.X = odl.rn(n, dtype=dt, weighting=float(wX))
    e.Y, e.ops, e.f = [], [], []
    for blk in P['blocks']:
        M = np.array([[float(fq(q)) for q in row] for row in blk['M']], dtype=dt)
        m = M.shape[0]
        wY = fq(blk['wY'])
        Y = odl.rn(m, dtype=dt) if wY == 1 else odl.rn(m, dtype=dt, weighting=float(wY))
        if wX == 1 and wY == 1 and conc != 'discr' and sp.get('matop', True):
            op = odl.MatrixOperator(M, domain=e.X, range=Y)
        else:
            op = make_wmat(odl, M, e.X, Y, (M.T * float(wY / wX)).astype(dt))
        f = blk['f']
        if f['k'] == 'l2sq':
            fn = 0.5 * odl.solvers.L2NormSquared(Y).translated([float(fq(q)) for q in f['b']])
        elif f['k'] == 'box':
            fn = odl.solvers.IndicatorBox(Y, float(fq(f['lo'])), float(fq(f['hi'])))
        else:
            fn = float(fq(f['c'])) * odl.solvers.L1Norm(Y)
        e.Y.append(Y)
        e.ops.append(op)
        e.f.append(fn)
    g = P['g']
    if g['k'] == 'l2sq':
        e.g = (float(fq(g['mu'])) / 2) * odl.solvers.L2NormSquared(e.X)
    elif g['k'] == 'box':
        e.g = odl.solvers.IndicatorBox(e.X, float(fq(g['lo'])), float(fq(g['hi'])))
    else:
        e.g = odl.solvers.ZeroFunctional(e.X)
    e.A = odl.BroadcastOperator(*e.ops)
    e.ran = odl.ProductSpace(*e.Y) if sp.get('pspace') else e.A.range
    return e


def seq_spell(vals, how):
    if how == 'tuple':
        return tuple(vals)
    if how == 'array':
        return np.array(vals, dtype=float)
    return list(vals)


def scal(v, how):
    v = Fraction(v)
    if how == 'np':
        return np.float64(float(v))
    if how == 'int' and v.denominator == 1:
        return int(v)
    return float(v)


def sel_spell(S, how, rnd):
    idx = [i - 1 for i in S]                      # the code's indices are 0-based
    rnd.shuffle(idx)
    if how == 'tuple':
        return tuple(idx)
    if how == 'array':
        return np.array(idx, dtype=int)
    return idx


def run_episode(alg, case, sched, conc, sp, rnd, raw=False):
    """-> dict(obs=[...], fin=..., err='')  obs entries: {x, y, z} snapped ([] for an unobserved z)"""
    odl = _odl()
    from odl.contrib.solvers.spdhg import (pdhg, spdhg, pa_spdhg, spdhg_generic, da_spdhg, spdhg_pesquet)
    e = build(case, conc, sp)
    f32 = e.f32
    nb = len(e.ops)
    x = e.X.element([float(fq(q)) for q in case['x0']])
    y0 = [[float(fq(q)) for q in yi] for yi in case['y0']]
    y0zero = all(v == 0 for yi in y0 for v in yi)
    has_resume = any(en['a'] == 'resume' for en in sched)      # the state must be the caller's to be passed back
    pass_y = not (sp.get('ydefault') and y0zero and not has_resume)
    pass_z = not (sp.get('zdefault') and not has_resume and (alg in ('generic', 'spdhg', 'pa', 'pdhg') or y0zero))
    y = e.ran.element(y0)
    z = e.X.element([float(fq(q)) for q in adj_all(case, case['y0'])])
    if alg == 'pdhg':
        ycall = e.Y[0].element(y0[0])
    obs = []

    def snap_arr(a, _f32):            # raw: the floats themselves (replay compares them on the expected lattice)
        if raw:
            return [float(v) for v in np.asarray(a).ravel()]
        return [snap(v, f32, wide_ok=True) for v in np.asarray(a).ravel()]

    def regs(yy):
        return {'x': snap_arr(x.asarray(), f32), 'y': [snap_arr(p.asarray(), f32) for p in yy],
                'z': snap_arr(z.asarray(), f32) if pass_z else []}

    def cb(v):
        obs.append({'x': snap_arr(v[0].asarray(), f32), 'y': [snap_arr(p.asarray(), f32) for p in v[1]],
                    'z': snap_arr(z.asarray(), f32) if pass_z else []})

    # segments between resumes
    segs, cur = [], []
    for en in sched:
        if en['a'] == 'resume':
            segs.append(cur)
            cur = []
        else:
            cur.append(en['S'])
    segs.append(cur)
    tau = scal(fq(case['tau']), sp.get('scal'))
    sig = [float(fq(q)) for q in case['sigma']]
    prob = seq_spell([float(fq(q)) for q in case['prob']], sp.get('prob'))
    fobj = e.f
    if sp.get('f') == 'tuple':
        fobj = tuple(e.f)
    elif sp.get('f') == 'sepsum':
        fobj = odl.solvers.SeparableSum(*e.f)
    err = ''
    with warnings.catch_warnings():
        warnings.simplefilter('ignore')
        try:
            for si, seg in enumerate(segs):
                if si > 0:
                    obs.append(regs(y if alg != 'pdhg' else [ycall]))    # the registers the new call starts from
                lists = [sel_spell(S, sp.get('sel'), rnd) for S in seg]
                niter = np.int64(len(seg)) if sp.get('niter') == 'np' else len(seg)
                kw = {'callback': cb}
                if alg != 'pdhg':
                    kw['fun_select'] = lambda k, _l=lists: _l[k]
                    if pass_y:
                        kw['y'] = y
                elif pass_y:
                    kw['y'] = ycall
                if pass_z:
                    kw['z'] = z
                if len(seg) == 0 and len(segs) > 1:
                    continue
                sg = seq_spell(sig, 'list' if alg == 'pa' and sp.get('sigma') == 'tuple' else sp.get('sigma'))
                if alg == 'generic':
                    spdhg_generic(x, fobj, e.g, e.A, tau, sg, niter, theta=scal(fq(case['theta']), sp.get('scal')),
                                  extra=seq_spell([float(fq(q)) for q in case['extra']], sp.get('prob')), **kw)
                elif alg == 'spdhg':
                    spdhg(x, fobj, e.g, e.A, tau, sg, niter, prob=prob,
                          theta=scal(fq(case['theta']), sp.get('scal')), **kw)
                elif alg == 'pesquet':
                    spdhg_pesquet(x, fobj, e.g, e.A, tau, sg, niter, **kw)
                elif alg == 'pa':
                    pa_spdhg(x, fobj, e.g, e.A, tau, sg, niter, scal(fq(case['mug']), sp.get('scal')), prob=prob, **kw)
                elif alg == 'da':
                    da_spdhg(x, fobj, e.g, e.A, tau, scal(fq(case['sigt']), sp.get('scal')), niter,
                             seq_spell([float(fq(q)) for q in case['mu']], sp.get('prob')), prob=prob, **kw)
                elif alg == 'pdhg':
                    pdhg(x, e.f[0], e.g, e.ops[0], tau, sig[0], niter,
                         theta=scal(fq(case['theta']), sp.get('scal')), **kw)
        except Exception as ex:                      # noqa: a raising solver call is an observation
            err = type(ex).__name__
    if err:
        return {'obs': [], 'fin': {'x': [], 'y': [], 'z': []}, 'err': err}
    # the final state: x is in-out; y / z are the caller's objects where they were passed, else what the callback saw
    if alg == 'pdhg':
        yfin = [snap_arr(ycall.asarray(), f32)] if pass_y else (obs[-1]['y'] if obs else [])
    else:
        yfin = [snap_arr(p.asarray(), f32) for p in y] if pass_y else (obs[-1]['y'] if obs else [])
    fin = {'x': snap_arr(x.asarray(), f32), 'y': yfin, 'z': snap_arr(z.asarray(), f32) if pass_z else []}
    return {'obs': obs, 'fin': fin, 'err': '', 'f32': f32}


# ------------------------------------------------------------------ spellings / concretisations
CONCS = ('rn', 'discr', 'f32')


def spelling(rnd, k):
    """k-th deterministic rotation plus seeded choices inside the families the rotation covers"""
    sp = {
        'f': ('list', 'tuple', 'sepsum')[k % 3],
        'sigma': ('list', 'array', 'tuple')[(k // 3) % 3],
        'prob': ('list', 'tuple', 'array')[(k // 2) % 3],
        'sel': ('list', 'tuple', 'array')[k % 3],
        'niter': ('int', 'np')[k % 2],
        'scal': ('float', 'np', 'int')[(k // 2) % 3],
        'pspace': k % 2 == 1,
        'matop': k % 4 != 3,
        'ydefault': k % 3 == 1,
        'zdefault': k % 4 == 2,
    }
    return sp


# ------------------------------------------------------------------ TLC helpers
def tlc_retry(module, cfg, work, env, workers, timeout=1500):
    res = run_tlc(module, cfg, work, env=env, workers=workers, timeout=timeout, heap='2g')
    if res.status == 'machinery' and 'Overflow' not in res.output:
        if env.get('OUT_FILE') and os.path.exists(env['OUT_FILE']):
            os.remove(env['OUT_FILE'])
        res = run_tlc(module, cfg, work, env=env, workers=workers, timeout=timeout, heap='2g')
    return res


def validate(ctx, events, label, nchunk=120):
    """Trace_Spdhg on events (ids assigned here) -> {id: clauses_text} of the rejected ones"""
    for i, ev in enumerate(events):
        if ev['id'] != CORRUPT_ID:
            ev['id'] = i + 1
    chunks = [events[i:i + nchunk] for i in range(0, len(events), nchunk)]
    paths = []
    for k, ch in enumerate(chunks):
        p = os.path.join(ctx.work, 'spdhg_%s_%d.ndjson' % (label, k))
        with open(p, 'w') as f:
            for ev in ch:
                f.write(json.dumps(ev) + '\n')
        paths.append(p)

    def go(p):
        return tlc_retry('Trace_Spdhg.tla', 'Trace_Spdhg.cfg', ctx.work, {'TRACE_FILE': p}, 1)
    with ThreadPoolExecutor(max_workers=6) as ex:
        results = list(ex.map(go, paths))
    rejected = {}
    for k, res in enumerate(results):
        ctx.add_tlc('spdhg-trace-%s-%d' % (label, k), res)
        for _line, ev_id, clauses in parse_fails(res.output):
            rejected[ev_id] = clauses
    return rejected


def clauses_of(text):
    return re.findall(r'<<\s*"([\w-]+)"\s*,\s*"([\w-]+)"\s*,\s*"([\w-]+)"\s*>>', text)


# ------------------------------------------------------------------ spec -> code
def load_export(path):
    cases, states = {}, {}
    with open(path) as f:
        for line in f:
            if not line.strip():
                continue
            st = json.loads(line)
            if st['case']:
                cases[st['cid']] = st['case'][0]
            key = (st['cid'], st['alg'])
            h = tuple((en['a'], tuple(sorted(en['S']))) for en in st['hist'])
            states.setdefault(key, {})[h] = st
    return cases, states


def sel_class(S, nb):
    if len(S) == 0:
        return 'empty'
    if len(S) == nb:
        return 'full'
    return 'serial' if len(S) == 1 else 'subset'


_RP = {}


def _replay_one(task):
    """worker (forked): run one exported behaviour on real ODL and compare every prefix -> (verdict, out)"""
    cid, alg, h, conc, spk, seed = task
    case, table = _RP['cases'][cid], _RP['states'][(cid, alg)]
    nb = len(case['P']['blocks'])
    rnd = random.Random(seed)
    sp = spelling(rnd, spk)
    sched = [{'a': a, 'S': list(S)} for a, S in h]
    out = run_episode(alg, case, sched, conc, sp, rnd, raw=True)
    f32 = out.get('f32', False)
    if out['err']:
        return ('raised', out['err'], 0), out, sp
    if len(out['obs']) != len(h):
        return ('callback-count', 'any', 0), out, sp
    for j in range(1, len(h) + 1):
        exp = table[h[:j]]['r']
        o = out['obs'][j - 1]
        for reg in ('x', 'y', 'z'):
            if reg == 'z' and o['z'] == []:
                continue
            if not near_reg(o[reg], exp[reg], f32):
                cls = h[j - 1][0] if h[j - 1][0] == 'resume' else sel_class(h[j - 1][1], nb)
                if j > 1 and h[j - 2][0] == 'resume':
                    cls = 'post-resume-' + cls
                return ('register-' + reg, cls, j), out, sp
    exp = table[h]['r']
    for reg in ('x', 'y', 'z'):
        if out['fin'][reg] != [] and not near_reg(out['fin'][reg], exp[reg], f32):
            return ('returned-' + reg, 'any', len(h)), out, sp
    return None, None, sp


def replay_export(ctx, cases, states, rnd):
    import multiprocessing as mp
    tasks = []
    kcount = 0
    for (cid, alg), table in sorted(states.items()):
        hs = set(table)
        maximal = [h for h in hs if h and not any(len(g) == len(h) + 1 and g[:len(h)] == h for g in hs)]
        for h in sorted(maximal):
            for c in range(1 if ctx.tier == 'quick' else 2):
                kcount += 1
                conc = CONCS[(kcount + c) % 3] if (kcount % 2 == 0) else 'rn'
                if conc == 'f32' and (len(h) > 3 or not narrow([table[h[:j]]['r'] for j in range(len(h) + 1)])):
                    conc = 'discr'
                tasks.append((cid, alg, h, conc, kcount + 7 * ctx.seed, rnd.randrange(1 << 30)))
    _RP['cases'], _RP['states'] = cases, states
    with mp.get_context('fork').Pool(6) as pool:
        results = pool.map(_replay_one, tasks, chunksize=32)
    n_cmp = 0
    for (cid, alg, h, conc, spk, _seed), (verdict, out, sp) in zip(tasks, results):
        n_cmp += len(h)
        ctx.count(['spdhg-replay', cid, alg, [list(S) for _a, S in h], conc], len(h) >= 2)
        if verdict is None:
            continue
        clause, cls, step = verdict
        sig = {'part': 'spdhg', 'alg': alg, 'source': 'replay', 'clause': clause}
        if clause == 'raised':
            sig['exc'] = cls
        else:
            sig['class'] = cls
        ctx.violation(sig, {'stage_module': STAGE, 'cid': cid, 'alg': alg, 'case': cases[cid],
                            'sched': [{'a': a, 'S': list(S)} for a, S in h], 'conc': conc, 'spelling': sp,
                            'step': step, 'observed': out,
                            'expected': states[(cid, alg)][h[:step]]['r'] if step else None})
    return len(tasks), n_cmp


# ------------------------------------------------------------------ code -> spec : drivers
H = Fraction(1, 2)


def rand_case(rnd, tier):
    """a documented call beyond the TLC catalogue; every proximal stays exact on small rationals"""
    n = rnd.choice([1, 2, 3, 5] if tier != 'quick' else [1, 2, 3])
    nb = rnd.choice([1, 2, 3, 4])
    wX = rnd.choice([1, 1, 2, H, 4])
    gk = rnd.choice(['l2sq', 'box', 'zero'])
    g = {'k': gk, 'mu': tq(1 if gk == 'l2sq' else 0), 'lo': tq(0), 'hi': tq(0)}
    if gk == 'box':
        g['lo'], g['hi'] = tq(rnd.choice([-1, -2, 0])), tq(rnd.choice([1, 2, 3]))
    tau = rnd.choice([1, 3]) if gk == 'l2sq' else rnd.choice([H, 1, 2])
    blocks, sigma = [], []
    for _ in range(nb):
        m = rnd.choice([1, 1, 2, 3])
        M = [[tq(rnd.choice([-2, -1, 0, 1, 1, 2])) for _j in range(n)] for _i in range(m)]
        fk = rnd.choice(['l2sq', 'box', 'l1'])
        f = {'k': fk, 'b': [tq(0)] * m, 'lo': tq(0), 'hi': tq(0), 'c': tq(0)}
        if fk == 'l2sq':
            f['b'] = [tq(rnd.choice([-2, -1, 0, 1, 2, 3])) for _i in range(m)]
            sigma.append(tq(rnd.choice([1, 1, 3])))
        elif fk == 'box':
            f['lo'], f['hi'] = tq(rnd.choice([-1, 0, -2])), tq(rnd.choice([1, 2]))
            sigma.append(tq(rnd.choice([H, 1, 2])))
        else:
            f['c'] = tq(rnd.choice([H, 1, 2]))
            sigma.append(tq(rnd.choice([H, 1, 2, 4])))
        blocks.append({'M': M, 'wY': tq(rnd.choice([1, 1, 2, H])), 'f': f})
    probs = {1: [1], 2: [H, H], 3: [H, Fraction(1, 4), Fraction(1, 4)],
             4: [Fraction(1, 4)] * 4}[nb]
    if rnd.random() < 0.3:
        probs = [Fraction(1)] * nb                       # every block always: full sampling
    rnd.shuffle(probs)
    zero_y = rnd.random() < 0.4
    y0 = [[tq(0 if zero_y else rnd.choice([-1, 0, 1, H])) for _i in range(len(b['M']))] for b in blocks]
    return {'P': {'n': n, 'wX': tq(wX), 'g': g, 'blocks': blocks}, 'tau': tq(tau), 'sigma': sigma,
            'theta': tq(rnd.choice([1, 1, H, 0])), 'extra': [tq(rnd.choice([1, 1, 2, H])) for _ in range(nb)],
            'prob': [tq(p) for p in probs], 'mug': tq(0), 'mu': [tq(1)] * nb, 'sigt': tq(0),
            'x0': [tq(rnd.choice([-2, -1, 0, 1, 2, H])) for _ in range(n)], 'y0': y0}


def rand_sched(rnd, nb, depth, alg):
    sched = []
    for j in range(depth):
        r = rnd.random()
        if alg != 'pdhg' and r < 0.12:
            S = []
        elif alg == 'pdhg' or r < 0.3:
            S = list(range(1, nb + 1))
        elif r < 0.7:
            S = [rnd.randint(1, nb)]
        else:
            S = sorted(rnd.sample(range(1, nb + 1), rnd.randint(1, nb)))
        if alg == 'pdhg':
            S = [1]
        if sched and sched[-1]['a'] == 'sel' and j < depth - 1 and rnd.random() < 0.15:
            sched.append({'a': 'resume', 'S': []})
        sched.append({'a': 'sel', 'S': S})
    return sched[:depth + 2]


def truncate(case, sched, out, bound=1 << 11):
    """keep the longest prefix whose observations stay small enough for TLC's 32-bit integers"""
    k = 0
    for o in out['obs']:
        if too_wide(o, bound) or any(q == [0, 0] and False for q in o['x']):
            break
        k += 1
    if k == len(sched):
        return sched, out
    while k > 0 and sched[k - 1]['a'] == 'resume':
        k -= 1
    return sched[:k], {'obs': out['obs'][:k], 'fin': out['obs'][k - 1] if k else out['fin'], 'err': ''}


def driver_events(ctx, rnd, nep):
    events, meta = [], []
    for i in range(nep):
        case = rand_case(rnd, ctx.tier)
        nb = len(case['P']['blocks'])
        if nb == 1:
            alg = rnd.choice(['pdhg', 'spdhg', 'generic', 'pesquet'])
        else:
            alg = rnd.choice(['generic', 'spdhg', 'pesquet', 'spdhg', 'generic'])
        depth = rnd.choice([2, 3, 4, 5] if ctx.tier != 'quick' else [2, 3, 4])
        sched = rand_sched(rnd, nb, depth, alg) if i % 25 != 7 else []          # niter = 0 now and then
        conc = rnd.choice(['rn', 'rn', 'discr'])
        sp = spelling(rnd, rnd.randrange(36))
        out = run_episode(alg, case, sched, conc, sp, rnd)
        if (not out['err'] and len(out['obs']) == len(sched) and len(sched) <= 3 and narrow(out['obs'] + [out['fin']])
                and rnd.random() < 0.7):
            # the float64 run stays on the coarse lattice: its float32 twin is projected onto the float64 run's values
            # (float32 slack, see `near`); a value that is not the float64 one up to that slack becomes the NaN token
            conc = 'f32'
            raw = run_episode(alg, case, sched, conc, sp, rnd, raw=True)
            if raw['err'] or len(raw['obs']) != len(sched):
                out = raw
            else:
                def proj(o, q):
                    if isinstance(q, list) and len(q) == 2 and isinstance(q[0], int):
                        return q if near(o, q, True) else [0, 0]
                    if not isinstance(o, list) or len(o) != len(q):
                        return [[0, 0]] if q else []
                    return [proj(a, b) for a, b in zip(o, q)]
                out = {'obs': [{k: proj(ro[k], qo[k]) for k in ('x', 'y', 'z')} for ro, qo in zip(raw['obs'], out['obs'])],
                       'fin': {k: proj(raw['fin'][k], out['fin'][k]) for k in ('x', 'y', 'z')}, 'err': ''}
        if not out['err']:
            if len(out['obs']) == len(sched):
                sched, out = truncate(case, sched, out)
            if not sched and i % 25 != 7:
                continue
        ev = {'id': 0, 'tid': i, 'kind': 'episode', 'alg': alg, 'c': case, 'sched': sched, 'n': len(sched),
              'obs': out['obs'], 'fin': out['fin'], 'err': out['err']}
        events.append(ev)
        meta.append({'conc': conc, 'spelling': sp})
        ctx.count(['spdhg-driver', alg, conc, [en['S'] for en in sched]], len(sched) >= 2)
    return events, meta


def default_selection_events(ctx, cases, rnd):
    """the documented default of `fun_select` (serial sampling): the call must run, and what the callback sees must be
    the layer-A run of SOME serial schedule (TLC searches them)"""
    events, meta = [], []
    odl = _odl()
    from odl.contrib.solvers.spdhg import spdhg, pa_spdhg, spdhg_generic, da_spdhg, spdhg_pesquet
    plan = [(1, 'generic'), (1, 'spdhg'), (1, 'pesquet'), (3, 'spdhg'), (3, 'generic'), (4, 'pesquet'), (7, 'generic'),
            (7, 'spdhg'), (9, 'pa'), (11, 'da'), (5, 'spdhg')]
    for cid, alg in plan:
        case = cases[cid]
        niter = 2 if alg in ('pa', 'da') else 3
        if alg == 'generic':
            case = dict(case, extra=[tq(1)] * len(case['sigma']))     # the default of `extra`
        if alg == 'da':
            niter = 2
        e = build(case, 'rn', {})
        x = e.X.element([float(fq(q)) for q in case['x0']])
        y = e.A.range.element([[float(fq(q)) for q in yi] for yi in case['y0']])
        z = e.X.element([float(fq(q)) for q in adj_all(case, case['y0'])])
        obs = []

        def cb(v):
            obs.append({'x': snap_arr(v[0].asarray()), 'y': [snap_arr(p.asarray()) for p in v[1]],
                        'z': snap_arr(z.asarray())})
        tau = float(fq(case['tau']))
        sig = [float(fq(q)) for q in case['sigma']]
        prob = [float(fq(q)) for q in case['prob']]
        err = ''
        st = np.random.get_state()
        np.random.seed(ctx.seed + cid)
        with warnings.catch_warnings():
            warnings.simplefilter('ignore')
            try:
                if alg == 'generic':
                    spdhg_generic(x, e.f, e.g, e.A, tau, sig, niter, y=y, z=z, callback=cb,
                                  theta=float(fq(case['theta'])))
                elif alg == 'spdhg':
                    spdhg(x, e.f, e.g, e.A, tau, sig, niter, y=y, z=z, callback=cb, prob=prob,
                          theta=float(fq(case['theta'])))
                elif alg == 'pesquet':
                    spdhg_pesquet(x, e.f, e.g, e.A, tau, sig, niter, y=y, z=z, callback=cb)
                elif alg == 'pa':
                    pa_spdhg(x, e.f, e.g, e.A, tau, sig, niter, float(fq(case['mug'])), y=y, z=z, callback=cb, prob=prob)
                else:
                    da_spdhg(x, e.f, e.g, e.A, tau, float(fq(case['sigt'])), niter, [float(fq(q)) for q in case['mu']],
                             y=y, z=z, callback=cb, prob=prob)
            except Exception as ex:                  # noqa
                err = type(ex).__name__
            finally:
                np.random.set_state(st)
        fin = {'x': snap_arr(x.asarray()), 'y': [snap_arr(p.asarray()) for p in y], 'z': snap_arr(z.asarray())}
        events.append({'id': 0, 'tid': 100000 + cid, 'kind': 'defsel', 'alg': alg, 'c': case, 'sched': [], 'n': niter,
                       'obs': [] if err else obs, 'fin': fin, 'err': err})
        meta.append({'conc': 'rn', 'spelling': {'fun_select': 'default'}})
        ctx.count(['spdhg-default-selection', cid, alg], True)
    return events, meta


def model_episodes(cases, states, limit):
    """episodes made from the EXPORT itself (layer B registers as observations): layer D must accept all of them -
    a consistency check between the machine and the trace specification, and the source of the corruption probe"""
    events = []
    for (cid, alg), table in sorted(states.items()):
        hs = set(table)
        maximal = sorted(h for h in hs if h and not any(len(g) == len(h) + 1 and g[:len(h)] == h for g in hs))
        for h in maximal[:limit]:
            obs = [{k: table[h[:j]]['r'][k] for k in ('x', 'y', 'z')} for j in range(1, len(h) + 1)]
            events.append({'id': 0, 'tid': 0, 'kind': 'episode', 'alg': alg, 'c': cases[cid],
                           'sched': [{'a': a, 'S': list(S)} for a, S in h], 'n': len(h), 'obs': obs, 'fin': obs[-1], 'err': ''})
    return events


# ------------------------------------------------------------------ misc.py helpers
def misc_events(ctx, rnd):
    """one event per public call of the documented helpers of odl/contrib/solvers/spdhg/misc.py"""
    odl = _odl()
    from odl.contrib.solvers.spdhg import misc
    ev = []

    def add(fn, a, call):
        err, o = '', None
        with warnings.catch_warnings():
            warnings.simplefilter('ignore')
            try:
                o = call()
            except Exception as ex:              # noqa
                err = type(ex).__name__
        ev.append({'id': 0, 'tid': len(ev), 'kind': 'misc', 'alg': 'misc', 'fn': fn, 'a': a, 'o': o if not err else [], 'err': err})
        ctx.count(['spdhg-misc', fn, json.dumps(a)[:60]], True)

    sizes = [0, 1, 2, 3, 5, 8] + ([13, 16] if ctx.tier != 'quick' else [])
    for n in sizes:
        for npart in (1, 2, 3, 4):
            vals = [rnd.randrange(0, 8) for _ in range(n)]
            for order in ('interlaced', 'block'):
                for kind in ('int', 'float'):
                    arr = np.array(vals, dtype=kind)
                    kw = {'order': order} if (n + npart) % 2 or order == 'block' else {}     # 'interlaced' is the default
                    add('part', {'order': order, 'np': npart, 'arr': vals},
                        lambda: [[int(v) for v in part] for part in misc.partition_equally_1d(arr, npart, **kw)])
            perm = list(range(n))
            rnd.shuffle(perm)
            for ind in (list(range(n)), perm):
                def call(ind=ind):
                    sub, inv = misc.divide_1Darray_equally(np.array(ind, dtype=int), npart)
                    return {'sub': [[int(v) for v in part] for part in sub], 'inv': [[int(v) for v in lst] for lst in inv]}
                add('divide', {'ind': ind, 'np': npart}, call)

    # Kullback-Leibler (smooth): components on the branches where the documented value is rational
    rs = [H, Fraction(1), Fraction(2)]
    def comp_val():
        r = rnd.choice(rs)
        if rnd.random() < 0.5:
            x = rnd.choice([Fraction(0), H, Fraction(1), Fraction(3)])
            y = rnd.choice([Fraction(0), x + r])
        else:
            x = rnd.choice([-H, Fraction(-1), Fraction(-3)])
            y = rnd.choice([Fraction(0), r])
        return x, y, r

    def comp_conj():
        r = rnd.choice(rs)
        k = rnd.random()
        if k < 0.5:
            y = r                                   # quadratic branch: p < 1 - y/r = 0
            p = rnd.choice([-H, Fraction(-1), Fraction(-2)])
        elif k < 0.85:
            y = rnd.choice([r, 2 * r, 3 * r])       # log branch at p = 0 >= 1 - y/r
            p = Fraction(0)
        else:
            y = r
            p = rnd.choice([Fraction(1), Fraction(2)])      # outside the domain: +infinity
        return p, y, r

    PYTH = [(3, 4, 5), (-3, 4, 5), (5, 12, 13), (8, 6, 10), (0, 2, 2), (-4, 3, 5), (0, 1, 1), (12, 5, 13)]

    def comp_prox(s):
        r = rnd.choice(rs)
        if rnd.random() < 0.4:
            y = rnd.choice([H, Fraction(1), Fraction(2), Fraction(3)])
            v = 1 - y / r - rnd.choice([H, Fraction(1), Fraction(2)])          # quadratic branch (always rational)
            return v, y, r, 'quadratic'
        a, b, _c = rnd.choice(PYTH)                 # (v + s r - 1)^2 + 4 s y = c^2
        y = Fraction(b * b, 4) / s
        v = Fraction(a) - s * r + 1
        if v < 1 - y / r:
            return comp_prox(s)
        return v, y, r, 'log'

    nrep = 40 if ctx.tier == 'quick' else 200
    for i in range(nrep):
        n = rnd.choice([1, 2, 3, 4])
        dt = 'float64'
        sp = odl.rn(n, dtype=dt)
        xs, ys, rr = zip(*[comp_val() for _ in range(n)])
        f = lambda: misc.KullbackLeiblerSmooth(sp, sp.element([float(v) for v in ys]), sp.element([float(v) for v in rr]))
        add('kl-val', {'x': [tq(v) for v in xs], 'y': [tq(v) for v in ys], 'r': [tq(v) for v in rr]},
            lambda: snap(f()(sp.element([float(v) for v in xs]))))
        ps, ys2, rr2 = zip(*[comp_conj() for _ in range(n)])
        fc = lambda: misc.KullbackLeiblerSmoothConvexConj(sp, sp.element([float(v) for v in ys2]),
                                                         sp.element([float(v) for v in rr2]))

        def cval():
            v = float(fc()(sp.element([float(v) for v in ps])))
            return [1, 0] if v == np.inf else snap(v)
        add('klconj-val', {'x': [tq(v) for v in ps], 'y': [tq(v) for v in ys2], 'r': [tq(v) for v in rr2]}, cval)
        s = rnd.choice([H, Fraction(1), Fraction(2), Fraction(4)])
        vs, ys3, rr3, modes = zip(*[comp_prox(s) for _ in range(n)])
        mode = modes[0] if len(set(modes)) == 1 else 'mixed'
        for alias in (False, True):
            def cprox(alias=alias):
                fun = misc.KullbackLeiblerSmoothConvexConj(sp, sp.element([float(v) for v in ys3]),
                                                           sp.element([float(v) for v in rr3]))
                via = fun if i % 2 else misc.KullbackLeiblerSmooth(sp, fun.data, fun.background).convex_conj
                prox = via.proximal(float(s) if i % 3 else np.float64(float(s)))
                v = sp.element([float(q) for q in vs])
                if alias:
                    prox(v, out=v)                  # the way spdhg_generic calls it
                    return snap_arr(v.asarray())
                return snap_arr(prox(v).asarray())
            add('klconj-prox', {'x': [tq(v) for v in vs], 's': tq(s), 'y': [tq(v) for v in ys3], 'r': [tq(v) for v in rr3],
                                'mode': mode + ('-inplace' if alias else '')}, cprox)
        for cls in ('KullbackLeiblerSmooth', 'KullbackLeiblerSmoothConvexConj'):
            def cpair(cls=cls):
                fun = getattr(misc, cls)(sp, sp.element([float(v) for v in ys3]), sp.element([float(v) for v in rr3]))
                cc = fun.convex_conj
                return {'cc': type(cc).__name__, 'same': bool(cc.data is fun.data or cc.data == fun.data) and
                        bool(cc.background == fun.background) and cc.domain == fun.domain}
            if i < 6:
                add('pair', {'cls': cls}, cpair)

    # bregman(f, v, subgrad) = f - f(v) - <subgrad, . - v>
    for i in range(12 if ctx.tier == 'quick' else 60):
        n = rnd.choice([1, 2, 3])
        w = rnd.choice([Fraction(1), Fraction(2), H])
        sp = odl.rn(n) if w == 1 else odl.rn(n, weighting=float(w))
        fk = ('l2sq', 'l1')[i % 2]
        v = [Fraction(rnd.choice([-2, -1, 1, 2, 3])) for _ in range(n)]
        x = [Fraction(rnd.choice([-3, -1, 0, 1, 2])) * rnd.choice([1, H]) for _ in range(n)]
        p_ = [2 * q for q in v] if fk == 'l2sq' else [Fraction(1 if q > 0 else -1) for q in v]

        def cbreg(sp=sp, fk=fk, v=v, x=x, p_=p_):
            f = odl.solvers.L2NormSquared(sp) if fk == 'l2sq' else odl.solvers.L1Norm(sp)
            d = misc.bregman(f, sp.element([float(q) for q in v]), sp.element([float(q) for q in p_]))
            return snap(d(sp.element([float(q) for q in x])))
        add('bregman', {'f': fk, 'w': tq(w), 'x': [tq(q) for q in x], 'v': [tq(q) for q in v], 'p': [tq(q) for q in p_]}, cbreg)

    # total_variation / TotalVariationNonNegative values on images whose gradient norms are rational
    for i in range(16 if ctx.tier == 'quick' else 80):
        rows, cols = rnd.choice([(2, 2), (3, 2), (2, 3), (3, 4), (4, 2)])      # odl.Gradient needs >= 2 points per axis
        hx, hy = rnd.choice([Fraction(1), H, Fraction(2)]), rnd.choice([Fraction(1), H])
        pattern = ('rows-const', 'cols-const', 'ramp', 'ramp-negative')[i % 4]
        if pattern == 'rows-const':
            col = [Fraction(rnd.choice([0, 1, 2, 5])) for _ in range(rows)]
            img = [[col[a]] * cols for a in range(rows)]
        elif pattern == 'cols-const':
            row = [Fraction(rnd.choice([0, 1, 3, 4])) for _ in range(cols)]
            img = [list(row) for _ in range(rows)]
        else:
            off = Fraction(0 if pattern == 'ramp' else -2)
            img = [[3 * hx * a + 4 * hy * b + off for b in range(cols)] for a in range(rows)]
        nn = i % 3 != 0
        alpha, beta = Fraction(rnd.choice([1, 2])), Fraction(rnd.choice([0, 0, 1, 2]))

        def ctv(rows=rows, cols=cols, hx=hx, hy=hy, img=img, nn=nn, alpha=alpha, beta=beta):
            sp = odl.uniform_discr([0, 0], [float(rows * hx), float(cols * hy)], [rows, cols])
            if nn:
                fun = misc.TotalVariationNonNegative(sp, alpha=float(alpha), strong_convexity=float(beta), prox_options={})
            else:
                fun = misc.total_variation(sp)
            val = float(fun(sp.element(np.array([[float(q) for q in r_] for r_ in img]))))
            return [1, 0] if val == np.inf else snap(val)
        add('tv', {'img': [[tq(q) for q in r_] for r_ in img], 'hx': tq(hx), 'hy': tq(hy), 'nn': nn, 'alpha': tq(alpha),
                   'beta': tq(beta), 'pattern': pattern}, ctv)

    # pa_spdhg over several iterations (theta irrational): the step-size rule, relationally, through the caller's sigma list
    from odl.contrib.solvers.spdhg import pa_spdhg
    for i in range(6 if ctx.tier == 'quick' else 30):
        mu = Fraction(rnd.choice([1, 2, H]))
        tau0 = Fraction(rnd.choice([1, 2, 3, H]))
        case = {'P': {'n': 2, 'wX': tq(1), 'g': {'k': 'l2sq', 'mu': tq(mu), 'lo': tq(0), 'hi': tq(0)},
                      'blocks': [{'M': [[tq(1), tq(2)], [tq(0), tq(1)]], 'wY': tq(1),
                                  'f': {'k': 'l2sq', 'b': [tq(1), tq(2)], 'lo': tq(0), 'hi': tq(0), 'c': tq(0)}},
                                 {'M': [[tq(2), tq(-1)]], 'wY': tq(1),
                                  'f': {'k': 'l1', 'b': [tq(0)], 'lo': tq(0), 'hi': tq(0), 'c': tq(2)}}]}}
        niter = rnd.choice([3, 5, 8])
        sched = [[rnd.randrange(2)] if rnd.random() < 0.7 else [0, 1] for _ in range(niter)]

        def cpa(case=case, mu=mu, tau0=tau0, niter=niter, sched=sched):
            e = build(case, 'rn', {})
            x = e.X.element([1, 1])
            sig = [float(rnd.choice([1, 2, H])), float(rnd.choice([1, 3]))]
            hist = [list(sig)]
            pa_spdhg(x, e.f, e.g, e.A, float(tau0), sig, niter, float(mu), fun_select=lambda k: sched[k],
                     prob=[0.5, 0.5], callback=lambda v: hist.append(list(sig)))
            steps = []
            for k in range(niter):
                th = [hist[k][b] / hist[k + 1][b] for b in range(2)]
                tau = float(tau0) * hist[0][0] / hist[k][0]
                steps.append({'th': tq(Fraction(th[0]).limit_denominator(128)),
                              'tau': tq(Fraction(tau).limit_denominator(128)),
                              'same': bool(abs(th[0] - th[1]) <= 1e-12 * abs(th[0]))})
            return steps
        steps_holder = {}

        def call(cpa=cpa, h=steps_holder):
            h['steps'] = cpa()
            return []
        add('pa-steps', {'mu': tq(mu), 'steps': []}, call)
        ev[-1]['a']['steps'] = steps_holder.get('steps', [])
    return ev


def report(ctx, events, meta, rejected, source):
    n = 0
    for ev, m in zip(events, meta):
        if ev['id'] not in rejected:
            continue
        n += 1
        cl = clauses_of(rejected[ev['id']]) or [('rejected', ev['alg'], 'any')]
        for clause, alg, cls in cl[:1]:
            sig = {'part': 'spdhg', 'alg': alg, 'source': source, 'clause': clause, 'class': cls}
            if ev['kind'] == 'misc':
                sig = {'part': 'spdhg-misc', 'fn': alg, 'clause': clause, 'class': cls}
            if clause == 'raised':
                sig['exc'] = ev['err']
            ctx.violation(sig, {'stage_module': STAGE, 'event': ev, 'conc': m['conc'], 'spelling': m['spelling'],
                                'clauses': rejected[ev['id']]})
    return n


# ------------------------------------------------------------------ stage
def run_stage(ctx):
    thorough = ctx.tier != 'quick'
    rnd = random.Random(1000 + ctx.seed)
    env = {'SP_LEN': '4' if thorough else '3'}
    out = os.path.join(ctx.work, 'spdhg_export.ndjson')
    jobs = {
        'laws': lambda: tlc_retry('MC_Spdhg.tla', 'MC_Spdhg_laws.cfg', ctx.work, env, 4),
        'bogus': lambda: tlc_retry('MC_Spdhg.tla', 'MC_Spdhg_bogus.cfg', ctx.work, env, 1),
        'export': lambda: tlc_retry('MC_Spdhg.tla', 'MC_Spdhg_export.cfg', ctx.work, dict(env, OUT_FILE=out), 1),
        'impl': lambda: tlc_retry('MC_SpdhgImpl.tla', 'MC_SpdhgImpl_refines.cfg', ctx.work, env, 2),
        'impl-bogus': lambda: tlc_retry('MC_SpdhgImpl.tla', 'MC_SpdhgImpl_bogus.cfg', ctx.work, env, 1),
        'misc-laws': lambda: tlc_retry('MC_SpdhgMisc.tla', 'MC_SpdhgMisc.cfg', ctx.work, env, 1),
    }
    import time
    t0 = time.time()
    tm = {}
    pool = ThreadPoolExecutor(max_workers=len(jobs))
    futs = {k: pool.submit(fn) for k, fn in jobs.items()}

    res = futs['export'].result()
    ctx.add_tlc('spdhg-export', res)
    cases, states = load_export(out)
    n_states = sum(len(t) for t in states.values())
    if n_states < 3000:
        raise MachineryError('spdhg export too small: %d states' % n_states)

    tm['export'] = round(time.time() - t0, 1)
    # spec -> code
    n_beh, n_cmp = replay_export(ctx, cases, states, rnd)
    tm['replay'] = round(time.time() - t0, 1)
    ctx.traces += n_beh

    # code -> spec
    ev_model = model_episodes(cases, states, 8 if not thorough else 60)
    corrupt = json.loads(json.dumps(ev_model[3]))
    corrupt['id'] = CORRUPT_ID
    q = corrupt['obs'][-1]['x'][0]
    corrupt['obs'][-1]['x'][0] = [q[0] + q[1], q[1]]              # one register entry off by one
    ev_drv, meta_drv = driver_events(ctx, rnd, 300 if not thorough else 2500)
    ev_def, meta_def = default_selection_events(ctx, cases, rnd)
    ev_misc = misc_events(ctx, rnd)
    tm['drivers'] = round(time.time() - t0, 1)
    rej_model = validate(ctx, ev_model + [corrupt], 'model')
    tm['trace-model'] = round(time.time() - t0, 1)
    if CORRUPT_ID not in rej_model:
        raise MachineryError('the corrupted copy of an episode was not rejected by Trace_Spdhg')
    others = [i for i in rej_model if i != CORRUPT_ID]
    if others:
        raise MachineryError('Trace_Spdhg rejects behaviours exported by SpdhgMachine: %r' % rej_model[others[0]])
    meta_misc = [{'conc': 'rn', 'spelling': {}} for _ in ev_misc]
    rej = validate(ctx, ev_drv + ev_def + ev_misc, 'drv')
    n_rej = report(ctx, ev_drv + ev_def + ev_misc, meta_drv + meta_def + meta_misc, rej, 'driver')
    ctx.traces += len(ev_drv) + len(ev_def) + len(ev_misc)
    tm['trace-drv'] = round(time.time() - t0, 1)

    for k in ('laws', 'impl', 'misc-laws'):
        ctx.add_tlc('spdhg-' + k, futs[k].result())
    for k, inv in (('bogus', 'BogusNoRelax'), ('impl-bogus', 'BogusNeverDescending')):
        r = futs[k].result()
        ctx.add_tlc('spdhg-' + k, r, expect='any')
        if r.status != 'counterexample' or inv not in (r.violated or ''):
            raise MachineryError('non-vacuity probe %s did not produce its counterexample (%s)' % (inv, r.status))
    pool.shutdown()
    tm['all'] = round(time.time() - t0, 1)

    ctx.extra['spdhg'] = {
        'exported_states': n_states, 'replayed_behaviours': n_beh, 'register_comparisons': n_cmp,
        'driver_episodes': len(ev_drv), 'default_selection_episodes': len(ev_def), 'misc_events': len(ev_misc), 'model_episodes': len(ev_model),
        'episodes_rejected': n_rej, 'corrupted_event_rejected': True, 'timeline_s': tm,
    }
    notes = [
        'spdhg: block indices returned by fun_select are 0-based (the documented default returns such indices); a '
        'selection is a SET - lists with a repeated index are not exercised (the documentation does not define them)',
        'spdhg: z_relax is not a documented state argument: a resumed call restarts from zr = z (Resume of the machine); '
        'n + m = n ; m is claimed only where zr = z at the split',
        'spdhg: spdhg_pesquet / da_spdhg are never called with a non-zero y and no z (no documented default there)',
        'spdhg: accelerated variants are compared exactly only while theta is rational (two iterations)',
        'spdhg: pa_spdhg divides the entries of the caller\'s sigma list in place - not documented, not judged',
        'spdhg-misc: partition_equally_1d has no docstring: "interlaced" = element j goes to part j mod nparts, "block" '
        'only has to concatenate to the input (nothing is demanded of the chunk sizes); divide_1Darray_equally is exercised '
        'with permutations of range(n) (ind2sub is indexed by the VALUES of ind)',
        'spdhg-misc: Kullback-Leibler values are judged only on the components where the documented value is rational '
        '(log of 1, or data 0), on unweighted rn (the docstring defines a plain sum); the proximal of the conjugate is '
        'judged through its optimality condition (v - p)/sigma = (phi^*)\'(p), p < 1, with rational discriminants; '
        'TotalVariationNonNegative.proximal (FGP iterations) is not covered',
    ]
    ctx.assumptions += notes
    ctx.extra['spdhg']['assumptions'] = notes
    return n_beh


def replay(body):
    """./vcheck replay <file>: re-run the recorded case on the real code and print what is observed"""
    det = body.get('detail', {})
    rnd = random.Random(0)
    if 'event' in det:
        ev = det['event']
        print('event rejected by Trace_Spdhg with', det.get('clauses'))
        if ev.get('kind') == 'episode':
            out = run_episode(ev['alg'], ev['c'], ev['sched'], det.get('conc', 'rn'), det.get('spelling', {}), rnd)
            print('schedule', [(en['a'], en['S']) for en in ev['sched']])
            print('observed now', json.dumps(out)[:2000])
        else:
            print(json.dumps({k: ev.get(k) for k in ('kind', 'fn', 'alg', 'a', 'o', 'err', 'n')})[:2000])
        return 1
    out = run_episode(det['alg'], det['case'], det['sched'], det['conc'], det['spelling'], rnd)
    print('alg', det['alg'], 'conc', det['conc'], 'schedule', [(en['a'], en['S']) for en in det['sched']])
    print('observed', json.dumps(out)[:2000])
    print('expected at step', det.get('step'), json.dumps(det.get('expected'))[:1000])
    return 1

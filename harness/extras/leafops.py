"""EXT stage `leafops`: VALUE semantics of the built-in leaf operators (odl/operator/tensor_ops.py, default_ops.py) and of
the space / vector factories (odl/space/space_utils.py).

Specification: spec/sem/LeafOpSem.tla (layer A: the documented value of every leaf operator and of what it hands out -
.adjoint, .inverse, .derivative(x) - over Gaussian rationals), spec/mach/LeafOpMachine.tla (layer B: root constructor call
+ chain of derived objects; laws: adjointness in the documented weighted inner products, bi-adjoint, inverse, derivative
as exact symmetric difference, linearity, the docstring examples), spec/impl/LeafOpImpl.tla (layer C: MatrixOperator
range inference and the tensordot / moveaxis call, sampling-point normalisation + ravel_multi_index + bincount,
PointwiseNorm's branches, odl.vector's dtype dispatch), spec/cfg/MC_LeafOp*.{tla,cfg}, spec/trace/Trace_LeafOp.tla.

Spec -> code: every exported state (root description, chain, domain, range, linearity, values at lattice points) is
rebuilt on real ODL through the public API under concretisations (rn / cn / weighted rn / uniform_discr with cell volume
1/4, float64 / float32 / integer, C / F ordered inputs) and constructor spellings (positional / keyword, list / tuple /
ndarray / scipy.sparse / element arguments, weighting as constant / array / None, exponent in the space or the operator)
and queried out of place, on element-likes, in place, repeatedly and with the caller overwriting returned arrays.

Code -> spec: drivers build operators beyond the TLC constants (other shapes, matrices, points, scalars, weights) and
record one NDJSON event per object; Trace_LeafOp recomputes every observation from layer A.
"""
import json
import os
import random
import re
from concurrent.futures import ThreadPoolExecutor
from fractions import Fraction
from math import gcd

import numpy as np
import odl

from .. import exact
from ..common import MachineryError
from ..tlc import run_tlc, parse_fails

STANDALONE = True
PARTS = ['pw', 'mat', 'samp', 'dflt', 'cplx']


# ====================================================================== numbers
def fq(q):
    return Fraction(q[0], q[1])


def cpy(c):
    re_, im = fq(c[0]), fq(c[1])
    return float(re_) if im == 0 else complex(float(re_), float(im))


def cq(re_, im=0):
    return [exact.to_q(Fraction(re_)), exact.to_q(Fraction(im))]


def _dens(obj, acc):
    if isinstance(obj, list):
        if len(obj) == 2 and all(isinstance(t, int) and not isinstance(t, bool) for t in obj):
            if obj[1] > 0:
                acc.add(obj[1])
            return
        for o in obj:
            _dens(o, acc)


def lattice_den(obj):
    acc = set()
    _dens(obj, acc)
    D = 1
    for d in acc:
        D = D * d // gcd(D, d)
    return D


def is_integral(obj):
    acc = set()
    _dens(obj, acc)
    return acc <= {1}


def parts_real(parts):
    return all(c[1] == [0, 1] for p in parts for c in p)


# ====================================================================== descriptions (mirror of LeafOpSem!Mk)
def sp_T(shape, fld, b='base'):
    return {'t': 'T', 'n': 1, 'shape': list(shape), 'fld': fld, 'b': b}


def sp_F(fld):
    return {'t': 'F', 'n': 1, 'shape': [], 'fld': fld, 'b': 'plain'}


def mk(k, sp, env, **kw):
    d = {'k': k, 'sp': sp, 'env': env, 'n': 0, 'q': [1, 1], 'w': [], 'pw': [], 'v': [], 'm': [], 'ax': 0, 'pts': [],
         'var': '', 'a': cq(1), 'b': cq(0), 'ran': sp, 'c': cq(1), 'ok': True, 'why': ''}
    d.update(kw)
    return d


CLASS = {'pwnorm': 'PointwiseNorm', 'pwinner': 'PointwiseInner', 'pwinneradj': 'PointwiseInnerAdjoint',
         'pwsum': 'PointwiseSum', 'mat': 'MatrixOperator', 'sample': 'SamplingOperator',
         'wsum': 'WeightedSumSamplingOperator', 'flat': 'FlatteningOperator', 'scale': 'ScalingOperator',
         'id': 'IdentityOperator', 'lincomb': 'LinCombOperator', 'mul': 'MultiplyOperator', 'mulS': 'MultiplyOperator',
         'mulC': 'MultiplyOperator', 'pow': 'PowerOperator', 'inner': 'InnerProductOperator', 'norm': 'NormOperator',
         'dist': 'DistOperator', 'const': 'ConstantOperator', 'zero': 'ZeroOperator', 'cemb': 'ComplexEmbedding',
         'cmod': 'ComplexModulus', 'cmod2': 'ComplexModulusSquared'}


def class_of(root):
    if root['k'] == 'reim':
        return 'RealPart' if root['b'] == cq(0) else 'ImagPart'
    return CLASS.get(root['k'], root['k'])


def env_cls(env):
    wt, cv = fq(env['wt']), fq(env['cv'])
    if cv != 1:
        return 'discr'
    return 'rnw' if wt != 1 else 'rn'


# ====================================================================== concretisations
class Conc(object):
    """Concrete spaces for an environment (weighting constant / cell volume): cls = rn | rnw | discr, precision 64 | 32 or
    integer (`prec='int'`, real unweighted only), memory order of the arrays handed to ODL."""

    def __init__(self, env, prec, order):
        self.env, self.prec, self.order = env, prec, order
        self.cls = env_cls(env)
        self.wt, self.cv = float(fq(env['wt'])), float(fq(env['cv']))
        self.name = '%s-%s-%s' % (self.cls, prec, order)
        self.vf = None            # the vector field space the root was built with
        self.derived = False      # will derived objects be taken from the root?

    def dtype(self, fld):
        if self.prec == 'int':
            return np.dtype('int64')
        if fld == 'C':
            return np.dtype('complex64' if self.prec == 32 else 'complex128')
        return np.dtype('float32' if self.prec == 32 else 'float64')

    def plain(self, shape, fld):
        return odl.tensor_space(tuple(shape), dtype=self.dtype(fld))

    def wplain(self, shape, fld):
        if self.wt == 1.0:
            return self.plain(shape, fld)
        return odl.tensor_space(tuple(shape), dtype=self.dtype(fld), weighting=self.wt)

    def base(self, shape, fld):
        shape = tuple(shape)
        if self.cls == 'discr':
            mx = [float(shape[0]) * self.cv] + [float(s) for s in shape[1:]]
            return odl.uniform_discr([0.0] * len(shape), mx, shape, dtype=self.dtype(fld))
        if self.cls == 'rnw':
            if fld == 'C':
                return odl.cn(shape, dtype=self.dtype(fld), weighting=self.wt)
            return odl.rn(shape, dtype=self.dtype(fld), weighting=self.wt)
        if self.prec == 'int':
            return odl.tensor_space(shape, dtype='int64')
        return odl.cn(shape, dtype=self.dtype(fld)) if fld == 'C' else odl.rn(shape, dtype=self.dtype(fld))

    def tspace(self, sp):
        if sp['b'] == 'plain':
            return self.plain(sp['shape'], sp['fld'])
        if sp['b'] == 'wplain':
            return self.wplain(sp['shape'], sp['fld'])
        return self.base(sp['shape'], sp['fld'])

    def space(self, sp):
        if sp['t'] == 'F':
            return odl.ComplexNumbers() if sp['fld'] == 'C' else odl.RealNumbers()
        if sp['t'] == 'P':
            if self.vf is None:
                raise MachineryError('leafops: power space requested before the root was built')
            return self.vf
        return self.tspace(sp)

    # ---- values -------------------------------------------------------------------------------------------------
    def array(self, sp, part, order=None):
        a = np.array([cpy(c) for c in part], dtype=self.dtype(sp['fld'])).reshape(tuple(sp['shape']))
        if (order or self.order) == 'F':
            a = np.asfortranarray(a)
        return a

    def value(self, sp, parts, kind='element', space=None):
        """parts -> element (kind 'element'), ndarray(s) ('array') or nested lists ('list') of the space."""
        if sp['t'] == 'F':
            z = cpy(parts[0][0])
            if kind == 'element' or sp['fld'] == 'C':
                return complex(z) if sp['fld'] == 'C' else float(z)
            return z if kind == 'array' else (int(z) if float(z).is_integer() else z)
        space = space if space is not None else self.space(sp)
        if sp['t'] == 'P':
            arrs = [self.array(sp, p) for p in parts]
            if kind == 'element':
                return space.element(arrs)
            if kind == 'array':
                return np.stack([np.ascontiguousarray(a) for a in arrs])
            return [a.tolist() for a in arrs]
        a = self.array(sp, parts[0])
        if kind == 'element':
            return space.element(a)
        return a if kind == 'array' else a.tolist()

    def project(self, sp, y, pw, D):
        """Real result -> (parts as JSON C numbers or None, token, negative?)."""
        try:
            if sp['t'] == 'F':
                arrs = [np.asarray([y])]
            elif sp['t'] == 'P':
                if len(y) != sp['n']:
                    return None, 'shape', False
                arrs = [np.asarray(y[j]) for j in range(sp['n'])]
            else:
                arrs = [np.asarray(y)]
        except Exception as ex:
            return None, 'unprojectable:' + type(ex).__name__, False
        out, neg = [], False
        nent = int(np.prod(sp['shape'])) if sp['shape'] else 1
        for a in arrs:
            if a.size != nent or (sp['t'] != 'F' and tuple(a.shape) != tuple(sp['shape'])):
                return None, 'shape', False
            if a.dtype == object:
                return None, 'object-dtype', False
            dt = a.dtype if a.dtype.kind in 'fc' else np.dtype('float64')
            if self.prec == 32 and sp['t'] == 'F':
                dt = np.dtype('float32')             # field results of single precision spaces are Python floats
            if pw == 2:
                if np.iscomplexobj(a):
                    if np.abs(a.imag).max() > 1e-6:
                        return None, 'complex-norm', False
                    a = a.real
                neg = bool((a < 0).any())
                a = a.astype('float64') ** 2
            vals = exact.snap_array(a, D, dt)
            part = []
            for v in vals:
                if v == exact.OFF or (isinstance(v, float)):
                    return None, 'offlattice', neg
                if isinstance(v, tuple):
                    if any(isinstance(t, float) for t in v):
                        return None, 'offlattice', neg
                    part.append([exact.to_q(v[0]), exact.to_q(v[1])])
                else:
                    part.append([exact.to_q(v), [0, 1]])
            out.append(part)
        return out, '', neg

    def quantise(self, sp, y, pw):
        """Real result -> (parts of [round(4096 re), round(4096 im)], token, negative?) for the trace specification."""
        try:
            if sp['t'] == 'F':
                arrs = [np.asarray([y])]
            elif sp['t'] == 'P':
                if len(y) != sp['n']:
                    return [], 'shape', False
                arrs = [np.asarray(y[j]) for j in range(sp['n'])]
            else:
                arrs = [np.asarray(y)]
        except Exception as ex:
            return [], 'unprojectable', False
        out, neg = [], False
        nent = int(np.prod(sp['shape'])) if sp['shape'] else 1
        for a in arrs:
            if a.size != nent or a.dtype == object:
                return [], 'shape', False
            a = a.ravel(order='C').astype('complex128')
            if pw == 2:
                if np.abs(a.imag).max() > 1e-6:
                    return [], 'complex-norm', False
                neg = bool((a.real < 0).any())
                a = (a.real ** 2).astype('complex128')
            if not np.all(np.isfinite(a)):
                return [], 'nonfinite', neg
            if max(np.abs(a.real).max(), np.abs(a.imag).max()) > 500:
                return [], 'large', neg
            out.append([[int(round(z.real * 4096)), int(round(z.imag * 4096))] for z in a])
        return out, '', neg

    # ---- projection of a real space onto the space records of the specification --------------------------------
    def describe(self, space):
        if isinstance(space, (odl.RealNumbers, odl.ComplexNumbers)):
            return {'t': 'F', 'n': 1, 'shape': [], 'fld': 'C' if isinstance(space, odl.ComplexNumbers) else 'R',
                    'b': ['plain'], 'pwt': []}
        if isinstance(space, odl.ProductSpace):
            if not space.is_power_space or len(space) == 0 or isinstance(space[0], odl.ProductSpace):
                return {'t': 'other', 'n': len(space), 'shape': [], 'fld': '-', 'b': [], 'pwt': []}
            d = self.describe(space[0])
            w = space.weighting
            if hasattr(w, 'array'):
                pwt = [Fraction(float(t)).limit_denominator(1 << 12) for t in np.asarray(w.array).ravel()]
            elif hasattr(w, 'const'):
                pwt = [Fraction(float(w.const)).limit_denominator(1 << 12)] * len(space)
            else:
                pwt = []
            d.update({'t': 'P', 'n': len(space), 'pwt': [exact.to_q(t) for t in pwt]})
            return d
        if not isinstance(space, odl.space.base_tensors.TensorSpace):
            return {'t': 'other', 'n': 0, 'shape': [], 'fld': '-', 'b': [], 'pwt': []}
        fld = 'C' if space.is_complex else 'R'
        labels = []
        for lab, mkr in (('base', self.base), ('plain', self.plain), ('wplain', self.wplain)):
            # (the class of the space: the data type may be a promoted one, e.g. an integer matrix on a float32 domain)
            try:
                cand = mkr(space.shape, fld)
                if cand.dtype != space.dtype:
                    cand = cand.astype(space.dtype)
                if space == cand:
                    labels.append(lab)
            except Exception:
                pass
        return {'t': 'T', 'n': 1, 'shape': [int(s) for s in space.shape], 'fld': fld, 'b': labels, 'pwt': []}


def concs_for(root, tier, k=0):
    """Concretisations admissible for a root (the environment is part of the root)."""
    env = root['env']
    out = [Conc(env, 64, 'C'), Conc(env, 32, 'F'), Conc(env, 64, 'F'), Conc(env, 32, 'C')]
    return out


INT_KINDS = {'mat', 'sample', 'wsum', 'flat'}


def int_ok(line):
    """The integer concretisation: documented for tensor spaces of arbitrary dtype where no scaling is involved."""
    r = line['root']
    if line['chain'] or not line['ok'] or r['k'] not in INT_KINDS or env_cls(r['env']) != 'rn':
        return False
    if r['sp']['fld'] != 'R' or (r['k'] == 'mat' and (r['ran']['fld'] != 'R' or not is_integral(r['m']))):
        return False
    return r['var'] not in ('integrate', 'dirac')


# ====================================================================== spellings
def wspell(ws, form, allow_none=False):
    """Weighting argument for a sequence of rational weights: constant (float / int / numpy scalar) when all are equal,
    else list / tuple / ndarray."""
    vals = [float(fq(w)) for w in ws]
    if len(set(vals)) == 1 and form % 2 == 0:
        c = vals[0]
        k = (form // 2) % 3
        if k == 0:
            return c
        if k == 1:
            return np.float64(c)
        return int(c) if float(c).is_integer() else c
    k = (form // 2) % 3
    return vals if k == 0 else (tuple(vals) if k == 1 else np.array(vals))


def scal_spell(c, form, fld):
    z = cpy(c)
    if isinstance(z, complex):
        return z if form % 2 == 0 else np.complex128(z)
    k = form % 4
    if k == 0:
        return z
    if k == 1:
        return int(z) if float(z).is_integer() else z
    if k == 2:
        return np.float64(z)
    return complex(z) if fld == 'C' else z


def make_vf(cz, base, n, pw, form, exponent=None):
    kw = {}
    if pw and any(fq(w) != 1 for w in pw):
        kw['weighting'] = wspell(pw, form // 3)
    elif pw and form % 5 == 4:
        kw['weighting'] = 1.0
    if exponent is not None:
        kw['exponent'] = exponent
    return odl.ProductSpace(base, n, **kw)


def exp_spell(q, form):
    if q == [1, 0]:
        return (float('inf'), np.inf, np.float64('inf'))[form % 3]
    p = fq(q)
    if p.denominator == 1:
        return (int(p), float(p), np.float64(p), np.int64(p))[form % 4]
    return float(p)


def pts_spell(pts, ndim, form):
    """sampling_points spellings: 1-d: int (single point) / list / tuple / ndarray; n-d: sequence of index array-likes,
    or one sequence for a single point."""
    if ndim == 1:
        flat = [p[0] for p in pts]
        if len(flat) == 1 and form % 3 == 0:
            return flat[0]
        k = (form // 3) % 4
        return flat if k == 0 else (tuple(flat) if k == 1 else (np.array(flat) if k == 2 else np.array(flat, dtype='int32')))
    cols = [[p[a] for p in pts] for a in range(ndim)]
    if len(pts) == 1 and form % 3 == 0:
        return list(pts[0]) if (form // 3) % 2 == 0 else tuple(pts[0])
    k = (form // 3) % 4
    if k == 0:
        return cols
    if k == 1:
        return tuple(np.array(c) for c in cols)
    if k == 2:
        return np.array(cols)
    return [tuple(c) for c in cols]


def mat_spell(m, form, cz, dom_ndim, fld_dom):
    """matrix spellings: ndarray (float / the domain's dtype / integer when integral), nested lists / tuples,
    scipy.sparse (one-axis domains only)."""
    cplx = not all(c[1] == [0, 1] for row in m for c in row)
    rows = [[cpy(c) for c in row] for row in m]
    k = form % 6
    dt = cz.dtype('C' if cplx else 'R')
    if cz.prec == 'int':
        return np.array(rows, dtype='int64'), 'int-ndarray'
    if k == 0:
        return np.array(rows, dtype=dt), 'ndarray'
    if k == 1:
        return np.asfortranarray(np.array(rows, dtype=dt)), 'ndarray-F'
    if k == 2 and cz.prec == 64:
        return rows, 'list'
    if k == 3 and cz.prec == 64:
        return tuple(tuple(r) for r in rows), 'tuple'
    if k == 4 and dom_ndim == 1:
        import scipy.sparse
        return scipy.sparse.csr_matrix(np.array(rows, dtype=dt)), 'scipy-csr'
    if k == 5 and dom_ndim == 1:
        import scipy.sparse
        return scipy.sparse.coo_matrix(np.array(rows, dtype=dt)), 'scipy-coo'
    if k == 2 and is_integral(m) and not cplx and not cz.derived:
        # (an integer matrix on a single precision domain gives a double precision range: no adjoint / inverse then)
        return np.array(rows, dtype='int64'), 'int-ndarray'
    return np.array(rows, dtype=dt), 'ndarray'


# ====================================================================== building roots
class Built(object):
    def __init__(self, op, note=''):
        self.op, self.note = op, note
        self.dom_override = None
        self.ran_override = None
        self.structural = False


def build_root(D, cz, form):
    """The constructor call the description stands for, in the spelling `form`.  Exceptions propagate to the caller."""
    k, sp = D['k'], D['sp']
    T = odl.operator.tensor_ops
    fld = sp['fld']
    if k in ('pwnorm', 'pwinner', 'pwsum', 'pwinneradj'):
        base = cz.tspace(sp)
        n = D['n']
        psp = dict(sp, t='P', n=n)
        wkw = None if not D['w'] else wspell(D['w'], form)
        if k == 'pwnorm':
            in_space = (form % 7 == 3 and D['q'] != [1, 0] and fq(D['q']) >= 1)
            cz.vf = make_vf(cz, base, n, D['pw'], form, exponent=float(fq(D['q'])) if in_space else None)
            if in_space:
                op = odl.PointwiseNorm(cz.vf) if wkw is None else odl.PointwiseNorm(cz.vf, weighting=wkw)
            elif form % 2 == 0:
                op = odl.PointwiseNorm(cz.vf, exp_spell(D['q'], form // 2), wkw)
            else:
                op = odl.PointwiseNorm(cz.vf, exponent=exp_spell(D['q'], form // 2), weighting=wkw)
            return Built(op)
        if k == 'pwsum':
            cz.vf = make_vf(cz, base, n, D['pw'], form)
            op = odl.PointwiseSum(cz.vf, wkw) if form % 2 == 0 else odl.PointwiseSum(vfspace=cz.vf, weighting=wkw)
            return Built(op)
        if k == 'pwinner':
            cz.vf = make_vf(cz, base, n, D['pw'], form)
            vec = cz.value(psp, D['v'], ('element', 'array', 'list')[form % 3], space=cz.vf)
            op = (odl.PointwiseInner(cz.vf, vec, wkw) if (form // 3) % 2 == 0
                  else odl.PointwiseInner(vfspace=cz.vf, vecfield=vec, weighting=wkw))
            return Built(op)
        # PointwiseInnerAdjoint(sspace, vecfield, vfspace=None, weighting=None)
        if D['var'] == 'vfspace':
            cz.vf = make_vf(cz, base, n, D['pw'], form)
            vec = cz.value(psp, D['v'], ('element', 'array', 'list')[form % 3], space=cz.vf)
            op = (T.PointwiseInnerAdjoint(base, vec, cz.vf, wkw) if (form // 3) % 2 == 0
                  else T.PointwiseInnerAdjoint(sspace=base, vecfield=vec, vfspace=cz.vf, weighting=wkw))
            return Built(op)
        # default range: ProductSpace(sspace, len(vecfield), weighting=weighting)
        cz.vf = odl.ProductSpace(base, n, weighting=wkw)
        vec = cz.value(psp, D['v'], ('element', 'list')[form % 2], space=cz.vf)
        op = T.PointwiseInnerAdjoint(base, vec, weighting=wkw)
        # (array weightings compare by identity of the array: the default range is compared structurally)
        cz.vf = op.range if isinstance(op.range, odl.ProductSpace) else cz.vf
        b = Built(op)
        b.structural = True
        return b
    if k == 'mat':
        nd = len(sp['shape'])
        m, mname = mat_spell(D['m'], form, cz, nd, fld)
        ax = D['ax']
        axs = (ax, np.int64(ax))[(form // 6) % 2]
        if D['var'] == 'dom0':
            b = Built(odl.MatrixOperator(m) if form % 2 == 0 else odl.MatrixOperator(matrix=m), mname)
            mdt = m.dtype if hasattr(m, 'dtype') else np.asarray(m).dtype
            b.dom_override = odl.tensor_space(sp['shape'], dtype=mdt)
            b.ran_override = odl.tensor_space(D['ran']['shape'], dtype=mdt)
            return b
        dom = cz.tspace(sp)
        mdt = m.dtype if hasattr(m, 'dtype') else np.asarray(m).dtype
        if D['var'] == 'dom':
            if ax == 0 and form % 3 == 0:
                op = odl.MatrixOperator(m, dom)
            elif form % 3 == 1:
                op = odl.MatrixOperator(m, dom, None, axs)
            else:
                op = odl.MatrixOperator(m, domain=dom, axis=axs)
            b = Built(op, mname)
            # the promoted data type of matrix and domain, the constant weighting of the domain
            rdt = np.promote_types(mdt, dom.dtype)
            if cz.wt != 1.0 and sp['b'] != 'plain':
                b.ran_override = odl.tensor_space(D['ran']['shape'], dtype=rdt, weighting=cz.wt)
            else:
                b.ran_override = odl.tensor_space(D['ran']['shape'], dtype=rdt)
            return b
        ran = cz.tspace(D['ran'])
        if cz.prec != 'int':
            # the data type of the result must be castable to that of the given range: matrices of the domain's precision
            rows = [[cpy(c) for c in row] for row in D['m']]
            cplx = not all(c[1] == [0, 1] for row in D['m'] for c in row)
            m = np.array(rows, dtype=cz.dtype('C' if cplx else 'R'))
            if form % 3 == 1:
                m = np.asfortranarray(m)
            mname = 'ndarray'
        op = odl.MatrixOperator(m, dom, ran, axs) if form % 2 == 0 else odl.MatrixOperator(m, domain=dom, range=ran, axis=axs)
        return Built(op, mname)
    if k in ('sample', 'wsum'):
        space = cz.tspace(sp)
        pts = pts_spell(D['pts'], len(sp['shape']), form)
        cls = odl.SamplingOperator if k == 'sample' else odl.WeightedSumSamplingOperator
        default = 'point_eval' if k == 'sample' else 'char_fun'
        if D['var'] == default and form % 2 == 0:
            return Built(cls(space, pts))
        if form % 4 == 1:
            return Built(cls(space, pts, D['var']))
        if k == 'sample':
            return Built(cls(space, sampling_points=pts, variant=D['var']))
        return Built(cls(range=space, sampling_points=pts, variant=D['var']))
    if k == 'flat':
        space = cz.tspace(sp)
        if D['var'] == 'C' and form % 3 == 0:
            return Built(odl.FlatteningOperator(space))
        return Built(odl.FlatteningOperator(space, D['var']) if form % 2 == 0 else odl.FlatteningOperator(space, order=D['var']))
    space = cz.space(sp)
    if k == 'scale':
        s = scal_spell(D['a'], form, fld)
        return Built(odl.ScalingOperator(space, s) if form % 2 == 0 else odl.ScalingOperator(domain=space, scalar=s))
    if k == 'id':
        return Built(odl.IdentityOperator(space))
    if k == 'lincomb':
        cz.vf = odl.ProductSpace(space, space) if form % 2 == 0 else odl.ProductSpace(space, 2)
        a, b = scal_spell(D['a'], form, fld), scal_spell(D['b'], form // 4, fld)
        return Built(odl.LinCombOperator(space, a, b))
    if k == 'const' and D['ran'] != sp:
        # the constant lives in the range; the domain is given separately
        ran = cz.space(D['ran'])
        c = cz.value(D['ran'], D['v'], ('element', 'array', 'list')[form % 3], space=ran)
        if form % 3 == 0 and form % 2 == 0:
            return Built(odl.ConstantOperator(c, domain=space))
        return Built(odl.ConstantOperator(c, space, ran) if form % 2 else odl.ConstantOperator(c, domain=space, range=ran))
    if k in ('mul', 'mulS', 'inner', 'dist', 'const'):
        y = cz.value(sp, D['v'], 'element')
        if k == 'mul':
            return Built(odl.MultiplyOperator(y) if form % 2 == 0 else odl.MultiplyOperator(y, domain=space, range=space))
        if k == 'mulS':
            return Built(odl.MultiplyOperator(y, domain=space.field) if form % 2 == 0
                         else odl.MultiplyOperator(y, space.field, space))
        if k == 'inner':
            return Built(odl.InnerProductOperator(y) if form % 2 == 0 else y.T)
        if k == 'dist':
            return Built(odl.DistOperator(y))
        if form % 3 == 0:
            return Built(odl.ConstantOperator(y))
        if form % 3 == 1:
            return Built(odl.ConstantOperator(cz.value(sp, D['v'], 'array'), domain=space, range=space))
        return Built(odl.ConstantOperator(cz.value(sp, D['v'], 'list'), space, space))
    if k == 'mulC':
        return Built(odl.MultiplyOperator(scal_spell(D['a'], form, fld), domain=space, range=space))
    if k == 'pow':
        e = (D['n'], float(D['n']), np.float64(D['n']))[form % 3]
        return Built(odl.PowerOperator(space, e) if form % 2 == 0 else odl.PowerOperator(space, exponent=e))
    if k == 'norm':
        return Built(odl.NormOperator(space))
    if k == 'zero':
        ran = cz.space(D['ran'])
        if D['ran'] == sp and form % 2 == 0:
            return Built(odl.ZeroOperator(space))
        return Built(odl.ZeroOperator(space, ran) if form % 3 else odl.ZeroOperator(domain=space, range=ran))
    if k == 'reim':
        return Built(odl.RealPart(space) if D['b'] == cq(0) else odl.ImagPart(space))
    if k == 'cemb':
        s = cpy(D['a'])
        if s == 1 and form % 3 == 0:
            return Built(odl.ComplexEmbedding(space))
        s = (s, complex(s), np.complex128(s))[form % 3] if not isinstance(s, complex) or form % 2 else s
        return Built(odl.ComplexEmbedding(space, s) if form % 2 == 0 else odl.ComplexEmbedding(space, scalar=s))
    if k == 'cmod':
        return Built(odl.ComplexModulus(space))
    if k == 'cmod2':
        return Built(odl.ComplexModulusSquared(space))
    raise MachineryError('leafops: no constructor recipe for kind %r' % k)


DOCUMENTED_ERR = {'NotImplementedError': NotImplementedError, 'OpNotImplementedError': odl.OpNotImplementedError}


def apply_step(op, st, dom_sp, cz, form):
    # (properties are read twice in half of the spellings: what is handed out must not depend on an earlier access)
    if st['a'] == 'adjoint':
        if form % 2:
            op.adjoint
        return op.adjoint
    if st['a'] == 'inverse':
        if form % 2:
            op.inverse
        return op.inverse
    # element-likes only where the docstring of .derivative says `element-like` (or shows a list in its example)
    like = dom_sp['t'] != 'F' and type(op).__name__ in ('PointwiseNorm', 'NormOperator', 'DistOperator', 'ConstantOperator')
    x = cz.value(dom_sp, st['x'], ('element', 'array', 'list')[form % 3] if like else 'element', space=op.domain)
    return op.derivative(x)


# ====================================================================== observation
GARBAGE = float('nan')


def observe_calls(op, line_dom, line_ran, pts, pw, cz, D, hist=True):
    """Calls on the one object `op`: out of place on an element, on element-likes, in place, again after another input and
    after the caller has overwritten a returned array.  Returns [{'mode', 'x', 'y', 'tok', 'neg', 'note'}]."""
    calls = []
    dom, ran = line_dom, line_ran
    in_place_ok = ran['t'] != 'F'

    def fail(mode, x, ex):
        calls.append({'mode': mode, 'x': x, 'y': [], 'yq': [], 'tok': 'raised:' + type(ex).__name__, 'tokq': 'raised', 'neg': False,
                      'note': str(ex)[:160]})

    def rec(mode, x, y, note=''):
        yq, tokq, negq = cz.quantise(ran, y, pw)
        if D is None:
            calls.append({'mode': mode, 'x': x, 'y': [], 'yq': yq, 'tok': tokq, 'tokq': tokq, 'neg': bool(negq), 'note': note})
            return
        yp, tok, neg = cz.project(ran, y, pw, D)
        calls.append({'mode': mode, 'x': x, 'y': yp if yp is not None else [], 'yq': yq, 'tok': tok, 'tokq': tokq, 'neg': bool(neg),
                      'note': note})

    def unchanged(xe, x):
        back, tok, _ = cz.project(dom, xe, 1, lattice_den(x))
        return tok == '' and back == x

    first = None
    prev_out = None
    for q, x in enumerate(pts):
        try:
            xe = cz.value(dom, x, 'element', space=op.domain)
        except Exception as ex:
            # the real domain does not take a point of the documented domain (reported by the domain clause as well)
            fail('oop', x, ex)
            continue
        # out of place on an element
        try:
            y = op(xe)
            note = ''
            if dom['t'] != 'F' and not unchanged(xe, x):
                note = 'input-modified'
            elif ran['t'] != 'F' and y not in op.range:
                note = 'result-not-in-range'
            elif ran['t'] == 'F' and isinstance(y, complex) and ran['fld'] == 'R':
                note = 'result-not-in-range'
            rec('oop', x, y, note)
            if first is None:
                first = (x, xe, y)
        except Exception as ex:
            fail('oop', x, ex)
            continue
        # element-likes: ndarray (in the order of the concretisation) and nested lists
        if dom['t'] != 'F':
            for kind in ('array', 'list'):
                if kind == 'list' and cz.prec == 32 and q > 0:
                    continue
                try:
                    rec(kind, x, op(cz.value(dom, x, kind)))
                except Exception as ex:
                    fail(kind, x, ex)
        # in place: pre-filled out, `out` is returned
        if in_place_ok:
            try:
                if q > 0 and prev_out is not None:
                    out = prev_out              # history: the caller re-uses `out`, it still holds the previous result
                else:
                    out = op.range.element()
                    if cz.prec != 'int' and getattr(op.range, 'dtype', np.dtype(float)).kind in 'fc':
                        if ran['t'] == 'P':
                            for o in out:
                                o[:] = GARBAGE
                        else:
                            out[:] = GARBAGE
                prev_out = out
                r = op(xe, out=out)
                note = '' if r is out else 'ret-is-not-out'
                if not note and dom['t'] != 'F' and not unchanged(xe, x):
                    note = 'input-modified'
                rec('inplace', x, out, note)
            except Exception as ex:
                fail('inplace', x, ex)
    if hist and first is not None and len(pts) > 1:
        x, xe, y = first
        # the first result is still what it was after the later calls; overwriting it does not change a new call
        rec('kept', x, y)
        try:
            if ran['t'] == 'P':
                for o in y:
                    o[:] = 7
            elif ran['t'] == 'T':
                y[:] = 7
            rec('again', x, op(cz.value(dom, x, 'element', space=op.domain)))
        except Exception as ex:
            fail('again', x, ex)
    return calls


def chain_name(chain):
    return '.'.join(s['a'] for s in chain) or '-'


def signature(line, clause, mode, cz):
    # family level: class of the root, the derived object, the clause and the field of the root's space (the call mode
    # and the concretisation are part of the replayable detail)
    return {'stage': 'leafops', 'class': class_of(line['root']), 'chain': chain_name(line['chain']), 'clause': clause,
            'field': line['root']['sp']['fld']}


def replay_line(line, env_prec_order, form):
    """Rebuild one exported state on real ODL and compare.  Returns (violations, event, nontrivial)."""
    root, chain = line['root'], line['chain']
    prec, order = env_prec_order
    cz = Conc(root['env'], prec, order)
    viols = []
    ev = {'root': root, 'chain': chain, 'built': False, 'err': '', 'errcls': [], 'dom': None, 'ran': None, 'lin': False,
          'calls': [], 'conc': cz.name, 'form': form, 'prec': prec, 'order': order}

    def V(clause, mode='', **det):
        d = {'stage_module': 'leafops', 'line': strip(line), 'metas': line['_metas'], 'prec': prec, 'order': order, 'form': form,
             'mode': mode, 'space': cz.cls}
        d.update(det)
        viols.append((signature(line, clause, mode, cz), d))

    root_ok = line.get('root_ok', True)
    cz.derived = bool(chain)
    try:
        b = build_root(root, cz, form)
    except MachineryError:
        raise
    except Exception as ex:
        ev['err'] = 'ctor'
        ev['errcls'] = [c.__name__ for c in type(ex).__mro__]
        if root_ok:
            V('construction-raised', exc='%s: %s' % (type(ex).__name__, str(ex)[:200]))
        return viols, ev, False
    ev['built'] = True
    if not root_ok:
        V('construction-accepted', why=line.get('why', ''))
        return viols, ev, False
    op = b.op
    metas = line['_metas']
    for q, st in enumerate(chain):
        try:
            op = apply_step(op, st, metas[q], cz, form + q)
        except MachineryError:
            raise
        except Exception as ex:
            ev['err'] = 'step:%d' % (q + 1)
            ev['errcls'] = [c.__name__ for c in type(ex).__mro__]
            last = q == len(chain) - 1
            if last and not line['ok']:
                want = DOCUMENTED_ERR.get(line['why'])
                if want is not None and not isinstance(ex, want):
                    V('wrong-exception', step=st['a'], exc=type(ex).__name__, want=line['why'])
            elif line['ok'] or not last:
                V('raised', step=st['a'], exc='%s: %s' % (type(ex).__name__, str(ex)[:200]))
            return viols, ev, True
    if not line['ok']:
        V('step-accepted', why=line['why'])
        return viols, ev, True
    # domain, range, linearity
    exp_dom = b.dom_override if (b.dom_override is not None and not chain) else None
    exp_ran = b.ran_override if (b.ran_override is not None and not chain) else None
    if chain and root['k'] == 'mat':
        # the derived matrix operators live between the spaces of the root
        spaces = {json.dumps(root['sp'], sort_keys=True): b.dom_override, json.dumps(root['ran'], sort_keys=True): b.ran_override}
        exp_dom = spaces.get(json.dumps(line['dom'], sort_keys=True))
        exp_ran = spaces.get(json.dumps(line['ran'], sort_keys=True))
    try:
        if exp_dom is None:
            exp_dom = cz.space(line['dom'])
        if exp_ran is None:
            exp_ran = cz.space(line['ran'])
    except MachineryError:
        raise
    ev['dom'], ev['ran'] = cz.describe(op.domain), cz.describe(op.range)
    ev['lin'] = bool(op.is_linear)
    if op.domain != exp_dom:
        V('domain', got=repr(op.domain)[:200], want=repr(exp_dom)[:200])
    if op.range != exp_ran:
        V('range', got=repr(op.range)[:200], want=repr(exp_ran)[:200])
    for which, got, sp in (('domain', ev['dom'], line['dom']), ('range', ev['ran'], line['ran'])):
        # structural comparison of power spaces: components, base space class and the documented weights
        if sp['t'] == 'P' and not (got['t'] == 'P' and got['n'] == sp['n'] and got['shape'] == sp['shape'] and got['fld'] == sp['fld']
                                   and sp['b'] in got['b'] and (root['k'] == 'lincomb' or got['pwt'] == root['pw'])):
            V(which, got=json.dumps(got), want=json.dumps(sp), structural=True)
    if bool(op.is_linear) != bool(line['lin']):
        V('linear-flag', got=bool(op.is_linear))
    D = lattice_den([line['vals'], line['pts']])
    if D > (1 << 10) and prec == 32:
        return viols, ev, True
    pts = line['pts']
    if prec == 'int' or getattr(op.domain, 'dtype', np.dtype(float)).kind in 'iu':
        pts = [p for p in pts if is_integral(p)]
    calls = observe_calls(op, line['dom'], line['ran'], pts, line['pw'], cz, D)
    ev['calls'] = calls
    want = {json.dumps(p): v for p, v in zip(line['pts'], line['vals'])}
    for c in calls:
        exp = want[json.dumps(c['x'])]
        if c['tok']:
            V('raised' if c['tok'].startswith('raised') else 'value', c['mode'], call=c, expected=exp)
        elif c['y'] != exp:
            V('value', c['mode'], call=c, expected=exp)
        elif c['neg']:
            V('sign', c['mode'], call=c)
        if c['note'] in NOTES:
            V(c['note'], c['mode'], call=c)
    nontrivial = any(any(e != cq(0) for p in v for e in p) for v in line['vals'])
    return viols, ev, nontrivial


NOTES = ('input-modified', 'ret-is-not-out', 'result-not-in-range')


def strip(line):
    return {k: v for k, v in line.items() if not k.startswith('_')}


# ====================================================================== TLC jobs
def tlc_env(part, tier, out=None):
    return {'LO_PART': part, 'LO_SIZE': 'q' if tier == 'quick' else 't', 'OUT_FILE': out or os.devnull}


def run_models(ctx):
    jobs = []
    outs = {}
    for part in PARTS:
        jobs.append(('laws', part, None))
        out = os.path.join(ctx.work, 'leafops_%s.ndjson' % part)
        if os.path.exists(out):
            os.remove(out)
        outs[part] = out
        jobs.append(('export', part, out))
    jobs.append(('bogus', 'samp', None))
    for name in IMPL_CFGS:
        jobs.append(('impl', name, None))

    def go(j):
        kind, part, out = j
        if kind == 'bogus':
            return j, run_tlc('MC_LeafOp.tla', 'MC_LeafOp_bogus.cfg', ctx.work, env=tlc_env(part, 'quick'), workers=1,
                              timeout=3000, heap='2g')
        if kind == 'impl':
            return j, run_tlc('MC_LeafOpImpl.tla', part, ctx.work,
                              env={'LO_SIZE': 'q' if ctx.tier == 'quick' else 't',
                                   'OUT_FILE': os.path.join(ctx.work, 'leafops_impl.ndjson') if 'export' in part else os.devnull},
                              workers=1 if 'export' in part else 2, timeout=3000, heap='2g')
        if kind == 'laws':
            return j, run_tlc('MC_LeafOp.tla', 'MC_LeafOp_laws.cfg', ctx.work, env=tlc_env(part, ctx.tier), workers=3,
                              timeout=3000, heap='3g')
        return j, run_tlc('MC_LeafOp.tla', 'MC_LeafOp_export.cfg', ctx.work, env=tlc_env(part, ctx.tier, out), workers=1,
                          timeout=3000, heap='3g')
    with ThreadPoolExecutor(max_workers=8) as ex:
        results = list(ex.map(go, jobs))
    for (kind, part, out), res in results:
        if kind == 'bogus':
            ctx.add_tlc('leafop-bogus-flat-adjoint', res, expect='any')
            if res.status != 'counterexample' or 'BogusFlatAdjointIsInverse' not in (res.violated or ''):
                raise MachineryError('non-vacuity probe BogusFlatAdjointIsInverse was not refuted: %r' % res)
            continue
        if kind == 'impl' and part in IMPL_EXPECT_CEX:
            ctx.add_tlc('leafop-impl-%s' % part.replace('.cfg', ''), res, expect='any')
            if res.status != 'counterexample':
                raise MachineryError('layer C probe %s: expected a counter-example (pinned quirk), got %r' % (part, res))
            continue
        ctx.add_tlc('leafop-%s-%s' % (kind, part.replace('.cfg', '')), res)
    return outs


IMPL_CFGS = ['MC_LeafOpImpl_refines.cfg', 'MC_LeafOpImpl_quirk.cfg', 'MC_LeafOpImpl_export.cfg']
IMPL_EXPECT_CEX = {'MC_LeafOpImpl_quirk.cfg'}


def load_export(path):
    lines, seen = [], set()
    with open(path) as f:
        for ln in f:
            ln = ln.strip()
            if not ln or ln in seen:
                continue
            seen.add(ln)
            lines.append(json.loads(ln))
    return lines


def link_metas(lines):
    """Every prefix of a chain is itself an exported state: take from it the domain before each step and whether the
    root is admissible."""
    index = {}
    for ln in lines:
        index[(json.dumps(ln['root'], sort_keys=True), json.dumps(ln['chain'], sort_keys=True))] = ln
    for ln in lines:
        rk = json.dumps(ln['root'], sort_keys=True)
        metas = []
        for q in range(len(ln['chain'])):
            pre = index.get((rk, json.dumps(ln['chain'][:q], sort_keys=True)))
            if pre is None:
                raise MachineryError('leafops: export is not prefix-closed')
            metas.append(pre['dom'])
        ln['_metas'] = metas
        ln['root_ok'] = bool(index[(rk, '[]')]['ok'])
    return lines


def _work(args):
    import warnings
    warnings.simplefilter('ignore')
    line, epo, form = args
    try:
        return replay_line(line, epo, form)
    except Exception:
        import traceback
        return 'ERR', traceback.format_exc(), None


EPO = [(64, 'C'), (32, 'F'), (64, 'F'), (32, 'C')]


def replay_exports(ctx, outs, share=3):
    import multiprocessing as mp
    quick = ctx.tier == 'quick'
    tasks = []
    n_lines = 0
    for part, path in sorted(outs.items()):
        lines = link_metas(load_export(path))
        if not lines:
            raise MachineryError('empty export %s' % path)
        for q, line in enumerate(lines):
            n_lines += 1
            reps = 1 if quick else 3
            for r in range(reps):
                kk = q + r + ctx.seed
                tasks.append((line, EPO[(kk + 2 * r) % len(EPO)], (q // 4 + 7 * r + 5 * ctx.seed) % 60))
            if int_ok(line) and (not quick or q % 2 == 0):
                tasks.append((line, ('int', 'C'), (q + ctx.seed) % 60))
    nproc = min(12, max(2, (os.cpu_count() or 4) - 2))
    events = []
    nrep = 0
    with mp.get_context('fork').Pool(nproc) as pool:
        for task, res in zip(tasks, pool.imap(_work, tasks, chunksize=48)):
            nrep += 1
            if res[0] == 'ERR':
                raise MachineryError('leafops replay worker failed:\n' + res[1])
            viols, ev, nontrivial = res
            line = task[0]
            ctx.count(['leafops', ev['conc'], line['root'], line['chain']], nontrivial)
            for sig, detail in viols:
                ctx.violation(sig, detail)
            if nrep % share == ctx.seed % share and task[1][0] != 'int':
                events.append(ev)
            if len(ctx.samples) < 3 and nontrivial and len(line['chain']) == 2 and nrep % 401 == 0:
                ctx.sample({'root': line['root'], 'chain': line['chain'], 'concretisation': ev['conc'],
                            'expected': line['vals'], 'observed_calls': ev['calls'][:2]})
    ctx.traces += len(tasks)
    ctx.extra['leafops_states_exported'] = n_lines
    ctx.extra['leafops_replays'] = len(tasks)
    return events


# ====================================================================== code -> spec: events for Trace_LeafOp
def event_of(ev, eid):
    nodesc = {'t': '-', 'n': 0, 'shape': [], 'fld': '-', 'b': [], 'pwt': []}
    return {'id': eid, 'root': ev['root'], 'chain': ev['chain'], 'built': bool(ev['built']), 'err': ev['err'],
            'errcls': ev['errcls'], 'dom': ev['dom'] or nodesc, 'ran': ev['ran'] or nodesc, 'lin': bool(ev['lin']),
            # (results too large for the quantised 32-bit comparison are left to the exact replay direction)
            'calls': [{'mode': c['mode'], 'x': c['x'], 'yq': c['yq'], 'tok': (c['tok'] or c.get('tokq', '')).split(':')[0], 'neg': c['neg'],
                       'note': c['note'] if c['note'] in NOTES else ''} for c in ev['calls'] if c.get('tokq') != 'large']}


def validate_events(ctx, evs):
    files = []
    chunk = 1200 if ctx.tier == 'quick' else 4000
    for c0 in range(0, len(evs), chunk):
        p = os.path.join(ctx.work, 'lo_trace_%d.ndjson' % c0)
        with open(p, 'w') as f:
            for k, ev in enumerate(evs[c0:c0 + chunk]):
                f.write(json.dumps(event_of(ev, c0 + k)) + '\n')
        files.append((c0, p))
    sc = corrupted_events(evs)
    if sc:
        sc_evs, expect_sc = sc
        p = os.path.join(ctx.work, 'lo_trace_selfcheck.ndjson')
        with open(p, 'w') as f:
            for k, e in enumerate(sc_evs):
                f.write(json.dumps(dict(e, id=k)) + '\n')
        files.append((-1, p))

    def val(j):
        c0, p = j
        return j, run_tlc('Trace_LeafOp.tla', 'Trace_LeafOp.cfg', ctx.work, env={'TRACE_FILE': p}, workers=1, timeout=3000,
                          heap='3g')
    with ThreadPoolExecutor(max_workers=8) as ex:
        res = list(ex.map(val, files))
    nfail = 0
    for (c0, p), r in res:
        if c0 == -1:
            ctx.add_tlc('leafop-trace-selfcheck', r)
            got = {}
            for _ln, eid, cl in parse_fails(r.output):
                got[eid] = set(re.findall(r'<<\s*"([\w-]+)"\s*,', cl))
            nrej = nctl = 0
            ids = sorted(expect_sc)
            for g0 in range(0, len(ids), 6):
                grp = ids[g0:g0 + 6]
                if grp[0] in got:
                    continue
                nctl += 1
                for k in grp[1:]:
                    if expect_sc[k] not in got.get(k, set()):
                        raise MachineryError('Trace_LeafOp self-check: corrupted copy %d (%s) was not rejected for that '
                                             'clause: %r' % (k, expect_sc[k], got.get(k)))
                    nrej += 1
            if nctl == 0:
                ctx.skip('Trace_LeafOp self-check: every control event was rejected')
            ctx.extra['leafops_trace_selfcheck'] = 'rejected %d corrupted copies, accepted %d controls' % (nrej, nctl)
            continue
        ctx.add_tlc('leafop-trace-%d' % c0, r)
        for _ln, eid, cl in parse_fails(r.output):
            nfail += 1
            ev = evs[eid]
            cz = Conc(ev['root']['env'], ev.get('prec', 64), ev.get('order', 'C'))
            for clause, mode in sorted(set(re.findall(r'<<\s*"([\w-]+)"\s*,\s*"([\w-]*)"\s*>>', cl))):
                if clause == 'harness-step-not-enabled' and ev.get('tid'):
                    # a random driver chain left the machine (the specification decides which steps exist): no verdict
                    ctx.extra['leafops_driver_chains_outside_machine'] = ctx.extra.get('leafops_driver_chains_outside_machine', 0) + 1
                    continue
                if clause == 'harness-point-shape' and re.search(r'<<\s*"domain"\s*,', cl):
                    continue     # the driver drew its points from the real (wrong) domain: the domain clause reports it
                if clause.startswith('harness-'):
                    raise MachineryError('leafops: Trace_LeafOp reports a harness error: %s on %s' % (cl, json.dumps(ev['root'])[:300]))
                sig = signature(ev, clause, mode, cz)
                ctx.violation(sig, {'stage_module': 'leafops', 'stage': 'trace', 'mode': mode, 'event': event_of(ev, eid), 'conc': ev.get('conc'),
                                    'form': ev.get('form'), 'tlc_clauses': cl})
    ctx.extra['leafops_events_validated'] = len(evs)
    ctx.extra['leafops_events_rejected'] = nfail
    ctx.traces += len(evs)
    return nfail


def corrupted_events(evs):
    """Binding self-check: copies of accepted events with ONE field corrupted each (value, domain, range, linear flag,
    sign / chain), preceded by the unmodified control."""
    import copy
    out, expect = [], {}
    picked = 0
    for ev in evs:
        if picked >= 6:
            break
        if not (ev['built'] and not ev['err'] and ev['calls'] and all(c['tok'] == '' and c['yq'] for c in ev['calls'])
                and ev['dom'] and ev['dom']['t'] == 'T'):
            continue
        e0 = event_of(ev, 0)
        picked += 1
        base = len(out)
        out.append(e0)
        expect[base] = None
        c1 = copy.deepcopy(e0)
        y = c1['calls'][0]['yq'][0][0]
        c1['calls'][0]['yq'][0][0] = [y[0] + 64, y[1]]
        c2 = copy.deepcopy(e0)
        c2['dom']['shape'] = c2['dom']['shape'] + [2]
        c3 = copy.deepcopy(e0)
        c3['ran']['fld'] = 'C' if c3['ran']['fld'] == 'R' else 'R'
        c4 = copy.deepcopy(e0)
        c4['lin'] = not c4['lin']
        c5 = copy.deepcopy(e0)
        c5['calls'][-1]['note'] = 'input-modified'
        for c, clause in ((c1, 'value'), (c2, 'domain'), (c3, 'range'), (c4, 'linear-flag'), (c5, 'input-modified')):
            expect[len(out)] = clause
            out.append(c)
    if not out:
        return None
    return out, {k: v for k, v in expect.items()}


# ====================================================================== drivers (beyond the TLC constants)
E_RN = {'wt': [1, 1], 'cv': [1, 1]}


def _rq(rnd, den=2, lim=4):
    return Fraction(rnd.randint(-lim * den, lim * den), den)


PYTH = [(3, 4), (-4, 3), (0, 2), (-2, 0), (5, 0), (4, -3), (0, -1), (1, 0), (-3, -4), (0, 0)]


def _rc(rnd, fld, nz=False):
    """a lattice entry with rational modulus"""
    while True:
        if fld == 'C':
            a, b = rnd.choice(PYTH)
            h = rnd.choice((1, 1, 2))
            z = cq(Fraction(a, h), Fraction(b, h))
        else:
            z = cq(_rq(rnd))
        if not nz or z != cq(0):
            return z


def _parts(rnd, sp, nz=False):
    n = int(np.prod(sp['shape'])) if sp['shape'] else 1
    return [[_rc(rnd, sp['fld'], nz) for _ in range(n)] for _ in range(sp['n'])]


def _env(rnd):
    k = rnd.randint(0, 3)
    if k == 0:
        return {'wt': [1, 1], 'cv': [1, 1]}
    if k == 1:
        w = rnd.choice(([9, 1], [1, 4], [4, 1]))
        return {'wt': w, 'cv': [1, 1]}
    c = rnd.choice(([1, 4], [4, 1], [1, 16]))
    return {'wt': c, 'cv': c}


DRV_SHAPES = [[1], [2], [4], [3, 2], [2, 1, 2], [1, 3], [5], [2, 2]]
TVEC = {1: [1], 2: [3, -4], 3: [1, -2, 2], 4: [1, -1, 1, 1], 5: [2, 0, 0, 0, 0], 6: [1, -2, 2, 0, 0, 0]}


def _weights(rnd, n):
    k = rnd.randint(0, 3)
    sq = [[1, 1], [4, 1], [1, 4], [9, 1], [1, 9]]
    if k == 0:
        return [], [[1, 1]] * n
    if k == 1:
        return [], [rnd.choice(sq) for _ in range(n)]
    if k == 2:
        return [rnd.choice(sq) for _ in range(n)], [[1, 1]] * n
    return [rnd.choice(sq) for _ in range(n)], [rnd.choice(sq) for _ in range(n)]


def random_root(rnd):
    """(root, list of admissible chains as step-name lists; 'deriv' steps get their point from deriv_point)."""
    fld = rnd.choice('RRC')
    env = _env(rnd)
    shape = rnd.choice(DRV_SHAPES)
    sp = sp_T(shape, fld)
    N = int(np.prod(shape))
    k = rnd.choice(['pwnorm', 'pwinner', 'pwsum', 'pwinneradj', 'mat', 'mat', 'sample', 'wsum', 'flat', 'scale', 'id',
                    'lincomb', 'mul', 'mulS', 'mulC', 'pow', 'inner', 'norm', 'dist', 'const', 'zero', 'reim', 'cemb',
                    'cmod', 'cmod2'])
    AA = [[], ['adjoint'], ['adjoint', 'adjoint']]
    if k in ('pwnorm', 'pwinner', 'pwsum', 'pwinneradj'):
        n = rnd.randint(1, 4)
        w, pw = _weights(rnd, n)
        psp = dict(sp, t='P', n=n)
        if k == 'pwnorm':
            q = rnd.choice(([1, 1], [2, 1], [1, 0]))
            chains = [[]]
            if fld == 'R' and q != [1, 0]:
                chains += [['deriv'], ['deriv', 'adjoint']]
            elif rnd.random() < 0.3:
                chains = [['deriv']]
            return mk(k, sp, env, n=n, q=q, w=w, pw=pw), chains
        v = _parts(rnd, psp) if k != 'pwsum' else [[cq(1)] * N for _ in range(n)]
        if k == 'pwinneradj':
            if rnd.random() < 0.5:
                return mk(k, sp, env, n=n, w=w, pw=pw, v=v, var='vfspace'), AA
            return mk(k, sp, env, n=n, w=w, pw=(w or [[1, 1]] * n), v=v), AA
        return mk(k, sp, env, n=n, w=w, pw=pw, v=v), AA
    if k == 'mat':
        ax = rnd.randrange(len(shape))
        rows = rnd.choice((1, 2, 3)) if rnd.random() < 0.6 else shape[ax]
        cplx = rnd.random() < 0.3
        if rows == shape[ax] and rows <= 2:
            # (inverses are offered for these: small integer entries keep the exact inverse within 32-bit arithmetic)
            m = [[cq(rnd.randint(-3, 3), rnd.choice((0, 0, 1, -1)) if cplx else 0) for _ in range(shape[ax])] for _ in range(rows)]
        else:
            m = [[_rc(rnd, 'C' if cplx else 'R') for _ in range(shape[ax])] for _ in range(rows)]
        mf = 'C' if not all(c[1] == [0, 1] for r in m for c in r) else 'R'
        rshape = list(shape)
        rshape[ax] = rows
        chains = [[], ['adjoint'], ['adjoint', 'adjoint']]
        if rows == shape[ax] and rows <= 2:
            chains += [['inverse'], ['inverse', 'inverse'], ['inverse', 'adjoint']]
        if rnd.random() < 0.3 and len(shape) == 1:
            spd = sp_T(shape, mf, 'plain')
            return mk(k, spd, E_RN, m=m, var='dom0', ran=sp_T(rshape, mf, 'plain')), chains
        ran = sp_T(rshape, 'C' if 'C' in (mf, fld) else 'R', 'wplain')
        return mk(k, sp, env, m=m, ax=ax, var='dom', ran=ran), chains
    if k in ('sample', 'wsum'):
        npts = rnd.randint(1, 5)
        pts = [[rnd.randrange(s) for s in shape] for _ in range(npts)]
        var = rnd.choice(('point_eval', 'integrate') if k == 'sample' else ('char_fun', 'dirac'))
        return mk(k, sp, env, pts=pts, var=var), AA
    if k == 'flat':
        return mk(k, sp, env, var=rnd.choice('CF')), [[], ['adjoint'], ['inverse'], ['adjoint', 'adjoint'], ['inverse', 'inverse'],
                                                     ['adjoint', 'inverse'], ['inverse', 'adjoint']]
    if k in ('scale', 'mulC'):
        a = _rc(rnd, fld)
        chains = list(AA)
        if k == 'scale':
            chains += [['inverse'], ['inverse', 'adjoint'], ['inverse', 'inverse']]
        return mk(k, sp, env, a=a), chains
    if k == 'id':
        return mk(k, sp, env), AA + [['inverse']]
    if k == 'lincomb':
        return mk(k, sp, env, a=_rc(rnd, fld), b=_rc(rnd, fld)), [[]]
    if k in ('mul', 'mulS', 'inner'):
        return mk(k, sp, env, v=_parts(rnd, sp)), AA
    if k == 'pow':
        n = rnd.randint(1, 3)
        return mk(k, sp, E_RN, n=n), [[], ['deriv'], ['deriv', 'adjoint']]
    if k in ('norm', 'dist'):
        v = _parts(rnd, sp) if k == 'dist' else []
        chains = [[]]
        if fld == 'R' and N in TVEC:
            chains += [['deriv'], ['deriv', 'adjoint']]
        return mk(k, sp, env, v=v), chains
    if k == 'const':
        if fld == 'R' and rnd.random() < 0.3:
            ran = sp_T([3], 'R', 'plain')
            v = _parts(rnd, ran) if rnd.random() < 0.7 else [[cq(0)] * 3]
            return mk(k, sp, env, v=v, ran=ran), [[], ['deriv'], ['adjoint'], ['deriv', 'adjoint']]
        v = _parts(rnd, sp) if rnd.random() < 0.7 else [[cq(0)] * N]
        return mk(k, sp, env, v=v), [[], ['deriv'], ['adjoint'], ['deriv', 'adjoint']]
    if k == 'zero':
        ran = rnd.choice((sp, sp_T([3], 'C', 'plain'), sp_T([2, 2], 'R', 'plain')))
        return mk(k, sp, env, ran=ran), AA
    if k == 'reim':
        a, b = rnd.choice(((cq(1), cq(0)), (cq(0), cq(1))))
        return mk(k, sp, env, a=a, b=b), AA + [['inverse'], ['inverse', 'adjoint'], ['deriv'], ['adjoint', 'inverse'], ['inverse', 'inverse']]
    if k == 'cemb':
        a = _rc(rnd, 'C', nz=True)
        return mk(k, sp, env, a=a), AA + [['inverse'], ['inverse', 'adjoint'], ['adjoint', 'inverse'], ['inverse', 'inverse']]
    return mk(k, sp, env), [[], ['deriv'], ['deriv', 'adjoint'], ['deriv', 'adjoint', 'adjoint']][:3]


def deriv_point(rnd, D):
    """A point of the domain of the ROOT at which the documented derivative is exact (mirrors LeafOpMachine!DPt)."""
    k, sp = D['k'], D['sp']
    N = int(np.prod(sp['shape']))
    if k == 'pwnorm':
        w = [fq(t) for t in (D['w'] or D['pw'])]
        n = D['n']
        if D['q'] == [2, 1] and n in (1, 2, 3):
            t = {1: [1], 2: [3, 4], 3: [1, 2, 2]}[n]
            u = [rnd.choice((1, -1, 2, -2)) for _ in range(N)]
            from math import isqrt
            def sq(fr_):
                return Fraction(isqrt(fr_.numerator), isqrt(fr_.denominator))
            return [[cq(Fraction(t[j] * u[i]) / sq(w[j])) for i in range(N)] for j in range(n)]
        if D['q'] == [2, 1]:
            return None
        return [[cq(rnd.choice((1, -1, 2, -3))) for _ in range(N)] for _ in range(n)]
    if k == 'norm':
        s = rnd.choice((1, 2, -1))
        return [[cq(s * t) for t in TVEC[N]]]
    if k == 'dist':
        s = rnd.choice((1, 2, -1))
        return [[cq(fq(D['v'][0][i][0]) + s * TVEC[N][i]) for i in range(N)]]
    if k == 'cmod':
        return _parts(rnd, sp, nz=True)
    return _parts(rnd, sp)


SHADOW_DOM = {}


def random_episode(rnd, tid):
    root, chains = random_root(rnd)
    names = rnd.choice(chains)
    chain = []
    for a in names:
        if a == 'deriv':
            if chain:
                return None
            x = deriv_point(rnd, root)
            if x is None:
                names = []
                break
            chain.append({'a': 'deriv', 'x': x})
        else:
            chain.append({'a': a, 'x': []})
    return root, chain


def driver_event(rnd, root, chain, tid):
    """Build the object on real ODL and record what it does; the expected values are NOT known here - Trace_LeafOp
    computes them."""
    prec, order = rnd.choice(EPO)
    form = rnd.randrange(60)
    cz = Conc(root['env'], prec, order)
    cz.derived = bool(chain)
    ev = {'root': root, 'chain': chain, 'built': False, 'err': '', 'errcls': [], 'dom': None, 'ran': None, 'lin': False,
          'calls': [], 'conc': cz.name, 'form': form, 'prec': prec, 'order': order, 'tid': tid}
    try:
        b = build_root(root, cz, form)
    except MachineryError:
        raise
    except Exception as ex:
        ev['err'], ev['errcls'] = 'ctor', [c.__name__ for c in type(ex).__mro__]
        return ev
    ev['built'] = True
    op = b.op
    for q, st in enumerate(chain):
        try:
            if st['a'] == 'deriv':
                op = op.derivative(cz.value(dict(root['sp'], **({'t': 'P', 'n': root['n']} if root['k'] == 'pwnorm' else {})),
                                            st['x'], 'element', space=op.domain))
            else:
                op = apply_step(op, st, None, cz, form)
        except MachineryError:
            raise
        except Exception as ex:
            ev['err'], ev['errcls'] = 'step:%d' % (q + 1), [c.__name__ for c in type(ex).__mro__]
            return ev
    ev['dom'], ev['ran'] = cz.describe(op.domain), cz.describe(op.range)
    ev['lin'] = bool(op.is_linear)
    dom, ran = ev['dom'], ev['ran']
    if dom['t'] not in 'TPF' or ran['t'] not in 'TPF':
        return ev
    dsp = {'t': dom['t'], 'n': dom['n'], 'shape': dom['shape'], 'fld': dom['fld'], 'b': 'base'}
    rsp = {'t': ran['t'], 'n': ran['n'], 'shape': ran['shape'], 'fld': ran['fld'], 'b': 'base'}
    if dom['t'] == 'P':
        cz.vf = op.domain
    pts = [_parts(rnd, dsp) for _ in range(2)]
    if getattr(op.domain, 'dtype', np.dtype(float)).kind in 'iu':
        # (MatrixOperator without a domain takes the data type of the matrix: integer points for an integer matrix)
        pts = [[[cq(fq(c[0]) * 2, fq(c[1]) * 2) for c in part] for part in x] for x in pts]
    pw = 2 if (root['k'] in ('norm', 'dist') and not chain) or (root['k'] == 'pwnorm' and root['q'] == [2, 1] and not chain) else 1
    # no lattice is guessed here: results are logged quantised and compared by the trace specification
    ev['calls'] = observe_calls(op, dsp, rsp, pts, pw, cz, None)
    return ev


def run_drivers(ctx):
    rnd = random.Random(7919 * ctx.seed + 13)
    nep = 700 if ctx.tier == 'quick' else 12000
    evs = []
    tid = 0
    while len(evs) < nep and tid < 4 * nep:
        tid += 1
        ep = random_episode(rnd, tid)
        if ep is None:
            continue
        root, chain = ep
        ev = driver_event(rnd, root, chain, tid)
        if ev is None:
            continue
        evs.append(ev)
        ctx.count(['leafops-driver', root, chain], bool(ev['calls']))
    return evs


ASSUMPTIONS = [
    'leafops: norm-like values (NormOperator, DistOperator, PointwiseNorm with exponent 2) are compared through their '
    'squares together with the documented sign; moduli and 1- / inf-norms on entries with rational modulus',
    'leafops: InnerProductOperator(y)(x) is read as x.inner(y) (linear in x, as the class is documented to be linear and '
    'as MultiplyOperator.adjoint describes it); the one-line formula y.inner(x) differs from it by conjugation on complex spaces',
    'leafops: DistOperator.derivative follows its Examples section and the Notes of NormOperator ((z - y) / d(y, z)); the '
    'one-line formula of the docstring has the opposite sign and contradicts the example below it',
    'leafops: the adjoints of SamplingOperator / WeightedSumSamplingOperator / FlatteningOperator are documented through the '
    'cell volume; their VALUES are checked on every space, their adjointness only where the weighting is the cell volume',
    'leafops: MatrixOperator range inference is checked for constant weightings (propagated as documented); what happens to '
    'an array weighting of equal shape is not documented and not checked',
    'leafops: the class of an error is checked only where the docstring names it (NotImplementedError of '
    'PointwiseNorm.derivative, the missing adjoint of a non-zero ConstantOperator); elsewhere any exception is accepted',
    'leafops: caller-owned matrices / index arrays / vectors are not mutated after construction (the docstrings promise '
    'nothing about copying); results returned earlier are overwritten by the caller and must not influence later calls',
]


def run_stage(ctx):
    import time
    for a in ASSUMPTIONS:
        if a not in ctx.assumptions:
            ctx.assumptions.append(a)
    t0 = time.time()
    outs = run_models(ctx)
    t1 = time.time()
    events = replay_exports(ctx, outs, share=4 if ctx.tier == 'quick' else 3)
    t2 = time.time()
    events += run_drivers(ctx)
    t3 = time.time()
    validate_events(ctx, events)
    factory_stage(ctx)
    ctx.extra['leafops_wall_s'] = {'tlc_models': round(t1 - t0, 1), 'replay': round(t2 - t1, 1),
                                   'drivers': round(t3 - t2, 1), 'trace_validation_and_factories': round(time.time() - t3, 1)}
    dbg = os.environ.get('LEAFOPS_SUMMARY')
    if dbg:
        fam = {}
        for sig, _path in ctx.violations:
            if sig.get('stage') == 'leafops':
                key = json.dumps(sig, sort_keys=True)
                fam[key] = fam.get(key, 0) + 1
        with open(dbg, 'w') as f:
            json.dump({'extra': {k: v for k, v in ctx.extra.items() if k.startswith('leafops')},
                       'tlc': [r for r in ctx.tlc_runs if r['name'].startswith('leafop')],
                       'families': fam, 'evaluations': ctx.evaluations}, f, indent=1)
    return ctx.extra.get('leafops_replays', 0)


CLS_VAL = {'bool': True, 'int': 2, 'float': 1.5, 'complex': (1 - 2j)}
CLS_KIND = {'bool': 'b', 'int': 'iu', 'float': 'f', 'complex': 'c'}
CLS_RANK = {'bool': 0, 'int': 1, 'float': 2, 'complex': 3}
CLS_SPELL = {'bool': [bool, 'bool', np.dtype(bool)], 'int': [int, 'int64', np.dtype('int32'), 'int8'],
             'float': [float, 'float64', 'float32', np.dtype('float32'), np.float64],
             'complex': [complex, 'complex128', 'complex64', np.dtype('complex64')]}


def factory_stage(ctx):
    """odl.vector / rn / cn / tensor_space argument rules and the sampling-point normalisation: the cases exported by
    MC_LeafOpImpl (expected result = layer A), every one in several spellings."""
    path = os.path.join(ctx.work, 'leafops_impl.ndjson')
    lines = load_export(path)
    if not lines:
        raise MachineryError('leafops: empty export of MC_LeafOpImpl')
    n = 0

    def V(cls, clause, **det):
        ctx.violation({'stage': 'leafops', 'class': cls, 'chain': '-', 'clause': clause, 'field': '-'},
                      dict(det, stage_module='leafops', stage='factory'))

    for q, ln in enumerate(lines):
        a, want = ln['a'], ln['want']
        if ln['t'] == 'vec':
            data_rank = max(CLS_RANK[c] for c in a['classes'])
            for f in range(4):
                vals = [CLS_VAL[a['classes'][i % len(a['classes'])]] for i in range(4)]
                if a['scalar']:
                    inp = vals[0] if f % 2 == 0 else np.asarray(vals[0])[()]
                elif a['depth'] == 1:
                    inp = (vals, tuple(vals), np.array(vals), list(reversed(vals)))[f]
                else:
                    inp = ([vals, vals], (tuple(vals), tuple(vals)), np.array([vals, vals]), [vals, list(reversed(vals))])[f]
                kw = {}
                if a['dtype']:
                    sp = CLS_SPELL[a['dtype']]
                    kw['dtype'] = sp[(q + f) % len(sp)]
                lossy = bool(a['dtype']) and CLS_RANK[a['dtype']] < data_rank
                n += 1
                ctx.count(['leafops-vector', a, f], True)
                try:
                    import warnings
                    with warnings.catch_warnings():
                        warnings.simplefilter('ignore')
                        v = odl.vector(inp, **kw) if (f % 2 == 0 or not kw) else odl.vector(inp, kw['dtype'])
                except Exception as ex:
                    if not lossy:
                        V('vector', 'raised', case=a, form=f, exc='%s: %s' % (type(ex).__name__, str(ex)[:160]))
                    continue
                if v.space.dtype.kind not in CLS_KIND[want['dtype']]:
                    V('vector', 'dtype', case=a, form=f, got=str(v.space.dtype), want=want['dtype'])
                if list(v.shape) != want['shape']:
                    V('vector', 'shape', case=a, form=f, got=list(v.shape), want=want['shape'])
                if 'dtype' in kw and not lossy and v.space.dtype != np.dtype(kw['dtype']):
                    V('vector', 'dtype', case=a, form=f, got=str(v.space.dtype), want=str(np.dtype(kw['dtype'])))
                if not lossy and not np.array_equal(np.asarray(v), np.array(inp, ndmin=1).astype(v.space.dtype)):
                    V('vector', 'value', case=a, form=f)
        elif ln['t'] == 'fac':
            fn = {'rn': odl.rn, 'cn': odl.cn, 'tensor_space': odl.tensor_space}[a['fn']]
            spells = CLS_SPELL[a['dtype']] if a['dtype'] else [None]
            for f, dt in enumerate(spells):
                for shape in (3, (3,), [2, 3], np.int64(3), (2, 3)):
                    n += 1
                    ctx.count(['leafops-factory', a, f], True)
                    try:
                        if dt is None:
                            spc = fn(shape)
                        else:
                            spc = fn(shape, dt) if f % 2 == 0 else fn(shape, dtype=dt)
                    except Exception as ex:
                        if want != 'ValueError':
                            V(a['fn'], 'raised', case=a, dtype=str(dt), exc='%s: %s' % (type(ex).__name__, str(ex)[:160]))
                        elif not isinstance(ex, (ValueError, TypeError)):
                            V(a['fn'], 'wrong-exception', case=a, dtype=str(dt), exc=type(ex).__name__)
                        continue
                    if want == 'ValueError':
                        V(a['fn'], 'accepted', case=a, dtype=str(dt), got=repr(spc))
                        continue
                    if spc.dtype.kind not in CLS_KIND[want]:
                        V(a['fn'], 'dtype', case=a, dtype=str(dt), got=str(spc.dtype))
                    if dt is not None and spc.dtype != np.dtype(dt):
                        V(a['fn'], 'dtype', case=a, dtype=str(dt), got=str(spc.dtype))
                    if dt is None and spc.dtype != np.dtype('complex128' if a['fn'] == 'cn' else 'float64'):
                        V(a['fn'], 'default-dtype', case=a, got=str(spc.dtype))
                    eshape = (int(shape),) if np.ndim(shape) == 0 else tuple(shape)
                    if spc.shape != eshape:
                        V(a['fn'], 'shape', case=a, got=list(spc.shape), want=list(eshape))
            if a['dtype'] in ('', 'float', 'complex') and want != 'ValueError':
                # weighting keywords are handed to the space: constant and array weightings
                dt = None if not a['dtype'] else CLS_SPELL[a['dtype']][1]
                try:
                    s1 = fn(3, dtype=dt, weighting=2.0)
                    s2 = fn(3, dtype=dt, weighting=[1.0, 2.0, 3.0])
                    s3 = fn(3, dtype=dt, impl='numpy', exponent=1.0)
                    ok = (getattr(s1.weighting, 'const', None) == 2.0 and np.array_equal(getattr(s2.weighting, 'array', []), [1.0, 2.0, 3.0])
                          and s3.exponent == 1.0 and s3.impl == 'numpy')
                    if not ok:
                        V(a['fn'], 'keywords', case=a)
                except Exception as ex:
                    V(a['fn'], 'raised', case=a, keywords=True, exc='%s: %s' % (type(ex).__name__, str(ex)[:160]))
        elif ln['t'] == 'samp':
            shape, sp = a['shape'], a['sp']
            for f in range(4):
                v = sp['v']
                if sp['kind'] == 'int':
                    inp = (v, np.int64(v), v, int(v))[f]
                elif sp['kind'] in ('seq', 'point'):
                    inp = (list(v), tuple(v), np.array(v), np.array(v, dtype='int32'))[f]
                elif sp['kind'] == 'rowseq':
                    inp = ([list(v[0])], [tuple(v[0])], np.array([v[0]]), (list(v[0]),))[f]
                else:
                    inp = ([list(c) for c in v], tuple(np.array(c) for c in v), np.array(v), [tuple(c) for c in v])[f]
                for cls in (odl.SamplingOperator, odl.WeightedSumSamplingOperator):
                    n += 1
                    ctx.count(['leafops-sampling-points', a, f], True)
                    try:
                        op = cls(odl.rn(tuple(shape)), inp)
                        got = [[int(np.asarray(c).ravel()[k]) for c in op.sampling_points] for k in range(np.asarray(op.sampling_points[0]).size)]
                    except Exception as ex:
                        V(cls.__name__, 'raised', case=a, form=f, exc='%s: %s' % (type(ex).__name__, str(ex)[:160]))
                        continue
                    if got != want:
                        V(cls.__name__, 'sampling-points', case=a, form=f, got=got, want=want)
    # documented preconditions of the constructors that are not part of the machine's root families
    import scipy.sparse
    r3, r23 = odl.rn(3), odl.rn((2, 3))
    pr = odl.ProductSpace(odl.rn(2), odl.rn(3))
    must_raise = [
        ('MatrixOperator', 'sparse-matrix-on-several-axes', lambda: odl.MatrixOperator(scipy.sparse.eye(3, format='csr'), domain=r23, axis=1)),
        ('MatrixOperator', 'domain-not-a-tensor-space', lambda: odl.MatrixOperator(np.eye(2), domain=pr)),
        ('MatrixOperator', 'range-not-a-tensor-space', lambda: odl.MatrixOperator(np.eye(3), domain=r3, range=pr)),
        ('MatrixOperator', 'matrix-with-three-axes', lambda: odl.MatrixOperator(np.zeros((2, 2, 2)))),
        ('MatrixOperator', 'axis-not-integer', lambda: odl.MatrixOperator(np.eye(3), domain=r23, axis=1.5)),
        ('PointwiseNorm', 'not-a-product-space', lambda: odl.PointwiseNorm(r3)),
        ('PointwiseNorm', 'not-a-power-space', lambda: odl.PointwiseNorm(pr)),
        ('PointwiseInner', 'not-a-product-space', lambda: odl.PointwiseInner(r3, r3.one())),
        ('PointwiseSum', 'not-a-product-space', lambda: odl.PointwiseSum(r3)),
        ('SamplingOperator', 'domain-not-a-tensor-space', lambda: odl.SamplingOperator(pr, [0])),
        ('WeightedSumSamplingOperator', 'range-not-a-tensor-space', lambda: odl.WeightedSumSamplingOperator(pr, [0])),
        ('FlatteningOperator', 'domain-not-a-tensor-space', lambda: odl.FlatteningOperator(pr)),
        ('ConstantOperator', 'array-constant-without-range', lambda: odl.ConstantOperator([1.0, 2.0, 3.0])),
        ('ConstantOperator', 'array-constant-without-domain', lambda: odl.ConstantOperator([1.0, 2.0, 3.0], range=r3)),
        ('ScalingOperator', 'domain-not-a-space', lambda: odl.ScalingOperator([1, 2], 2.0)),
        ('PowerOperator', 'out-with-field-domain', lambda: odl.PowerOperator(odl.RealNumbers(), 2)._call(2.0, out=r3.element())),
    ]
    for cls, what, fn in must_raise:
        n += 1
        ctx.count(['leafops-documented-error', cls, what], True)
        try:
            fn()
        except Exception:
            continue
        V(cls, 'construction-accepted', what=what)
    # odl.vector(array, order=...): "axis ordering of the data storage"; None enforces nothing
    for order in ('C', 'F', None):
        for inp in ([[1, 2, 3], [4, 5, 6]], np.asfortranarray(np.arange(6.0).reshape(2, 3)), np.arange(6.0).reshape(2, 3)):
            n += 1
            ctx.count(['leafops-vector-order', order, type(inp).__name__], True)
            try:
                v = odl.vector(inp, order=order) if order is not None else odl.vector(inp)
            except Exception as ex:
                V('vector', 'raised', order=order, exc='%s: %s' % (type(ex).__name__, str(ex)[:160]))
                continue
            flags = v.data.flags
            if (order == 'C' and not flags.c_contiguous) or (order == 'F' and not flags.f_contiguous):
                V('vector', 'order', order=order, inp=type(inp).__name__)
            if not np.array_equal(np.asarray(v), np.asarray(inp)):
                V('vector', 'value', order=order, inp=type(inp).__name__)
    # layer C pins a quirk of the code as written (MC_LeafOpImpl_quirk): an array weighting is never propagated to the
    # inferred range, not even when the shapes agree.  Layer A leaves that case open; a change is model drift only.
    try:
        rw = odl.MatrixOperator(np.eye(3), domain=odl.rn(3, weighting=[1.0, 2.0, 3.0])).range.weighting
        if hasattr(rw, 'array'):
            ctx.drift_note('leafops: MatrixOperator now propagates an array weighting to a range of equal shape; '
                           'LeafOpImpl!MatInit (list_ne_tuple) pins the old behaviour')
    except Exception:
        pass
    ctx.traces += n
    ctx.extra['leafops_factory_cases'] = n
    return n


def replay(body):
    d = body['detail']
    if d.get('stage') == 'trace':
        print('trace-stage violation: event', json.dumps(d['event'])[:800])
        print('TLC clauses:', d.get('tlc_clauses'))
        print('re-run ./vcheck EXT with VERIF_EXT=leafops')
        return 0
    line = d['line']
    # domains before each step: recomputed by replaying the prefix on real ODL is not possible without the export;
    # the detail carries them
    line['_metas'] = d.get('metas') or [line['root']['sp']] * len(line['chain'])
    viols, ev, _nt = replay_line(line, (d['prec'], d['order']), d['form'])
    print('root   :', json.dumps(line['root'])[:400])
    print('chain  :', chain_name(line['chain']), ' concretisation:', ev['conc'], 'form', d['form'])
    for sig, det in viols:
        print('clause :', sig['clause'], sig.get('mode', ''), det.get('exc', ''), json.dumps(det.get('call', ''))[:300])
    want = body['signature']['clause']
    hit = any(sig['clause'] == want for sig, _ in viols)
    print('REPRODUCED' if hit else 'NOT-REPRODUCED')
    return 1 if hit else 0

"""EXT stage `diag`: ODL's own diagnostics and test utilities as decision procedures with a specification.

Specification: spec/sem/DiagSem.tla (layer A, from the docstrings / err_msg formulas), spec/impl/DiagImpl.tla (layer C: the
tolerance comparisons, the all_almost_equal recursion and the ProgressBar arithmetic as written), spec/mach/DiagMachine.tla
(case machine + fail_counter / ProgressBar history machines), spec/cfg/MC_Diag*.{tla,cfg}, spec/trace/Trace_Diag.tla.

Both directions:
  * TLC enumerates (planted defect x diagnostic method x options), the nested-value pairs of all_equal / all_almost_equal
    and the fail_counter / ProgressBar histories, checks the laws and C [= A, and exports every case with the documented
    expectation; each case is rebuilt on REAL objects (exact operators on R^n with a planted defect, toy LinearSpace
    subclasses, NumPy arrays / ODL elements / lists) under several concretisations and executed;
  * every execution (replays and the drivers that widen beyond the TLC constants) is recorded as one NDJSON event and
    validated by the total trace specification Trace_Diag, which re-evaluates layer A on the logged arguments.  A
    violation is raised only for an event the trace specification rejects.
The observation of a diagnostic is the token sequence parsed from its captured output (sub-test name + the documented
"*** FAILED n TEST CASE(S) ***" line / completion line / unconditional messages).
"""
import contextlib
import io
import json
import os
import random
import re
import sys
import time
import warnings
from concurrent.futures import ThreadPoolExecutor
from fractions import Fraction

import numpy as np

from ..common import MachineryError
from ..tlc import parse_fails, run_tlc

STANDALONE = True
STAGE = 'diag'

# ----------------------------------------------------------------------------------------------------------------------
# capture + token parser
# ----------------------------------------------------------------------------------------------------------------------
OP_NAMES = {
    'Verifying the identity <Ax, y> = <x, Ay>': 'selfadj',
    'Verifying the identity <Ax, y> = <x, A^T y>': 'adjdef',
    'Verifying the identity Ax = (A^*)^* x': 'adjadj',
    'Verifying that derivative is a first-order approximation': 'deriv',
    'Verifying homogeneity under scalar multiplication': 'scale',
    'Verifying distributivity under vector addition': 'sum',
}
SP_NAMES = {
    'Verifying associativity of addition': 'assoc',
    'Verifying commutativity of addition': 'add-comm',
    'Verifying identity element of addition': 'add-ident',
    'Verifying inverse element of addition': 'add-inv',
    'Verifying commutativity of scalar multiplication': 'smul-comm',
    'Verifying identity element of multiplication': 'mul-ident',
    'Verifying distributivity of scalar multiplication under vector addition': 'dist-vec',
    'Verifying distributivity of scalar multiplication under scalar addition': 'dist-scal',
    'Verifying element subtraction': 'subtraction',
    'Verifying scalar division': 'division',
    'Verifying linear combination with aliased input': 'lincomb-alias',
    'Verifying conjugate symmetry of the inner product': 'inner-sym',
    'Verifying homogeneity of the inner product in the first argument': 'inner-lin-scalar',
    'Verifying distributivity of the inner productin the first argument': 'inner-lin-sum',
    'Verifying positive definiteness of the inner product': 'inner-pos',
    'Verifying positive definiteness of the norm': 'norm-pos',
    'Verifying sub-additivity of the norm': 'norm-sub',
    'Verifying positive homogeneity of the norm': 'norm-homog',
    'Verifying compatibility of norm and inner product': 'norm-inner',
    'Verifying nonnegativity of the distance': 'dist-pos',
    'Verifying symmetry of the distance': 'dist-sym',
    'Verifying sub-additivity of the distance': 'dist-sub',
    'Verifying compatibility of distance and norm': 'dist-norm',
    'Verifying vector multiplication with zero': 'mult-zero',
    'Verifying commutativity of vector multiplication': 'mult-comm',
    'Verifying associativity of vector multiplication': 'mult-assoc',
    'Verifying distributivity of vector multiplication under scalar multiplication': 'mult-dist-scalar',
    'Verifying distributivity of vector multiplication under vector multiplication': 'mult-dist-vector',
    'Verifying element method': 'element',
    'Verifying field property': 'field',
    'Verify behavior of `space == obj` when `obj` is not a space': 'eq-nonspace',
    'Verify behavior of `obj in space`': 'contains',
    'Verify behavior of `LinearSpaceElement.assign`': 'el-assign',
    'Verify behavior of `LinearSpaceElement.copy`': 'el-copy',
    'Verify behavior of `LinearSpaceElement.set_zero`': 'el-setzero',
    'Verify behavior of `element1 == element2`': 'el-equals',
    'Verify `LinearSpaceElement.space`': 'el-space',
}
MESSAGES = [
    (re.compile(r'^Operator is not linear$'), 'notlinear'),
    (re.compile(r'^\|\|A\(0\)\|\|=.*Should be 0\.0000$'), 'zero'),
    (re.compile(r'^\*\*\* ERROR: A\.domain != A\.adjoint\.range \*\*\*$'), 'adj-domain'),
    (re.compile(r'^\*\*\* ERROR: A\.range != A\.adjoint\.domain \*\*\*$'), 'adj-range'),
    (re.compile(r'^Domain and range of adjoint are not OK, exiting\.$'), 'adj-exit'),
    (re.compile(r'^Operator has no adjoint$'), 'noadjoint'),
    (re.compile(r'^A\^\* has no adjoint$'), 'adjoint-noadjoint'),
    (re.compile(r'^Derivative is not a linear operator$'), 'deriv-notlinear'),
    (re.compile(r'^Operator has no derivative$'), 'noderiv'),
    (re.compile(r'^\*\*\* SPACE HAS NO ZERO VECTOR \*\*\*$'), 'nozero'),
    (re.compile(r'^\*\* .* failed ?\*\*\*$'), 'space-eq'),
]
FAILED_RE = re.compile(r'^\*\*\* FAILED (\d+) TEST CASE\(S\) \*\*\*$')
DONE_SUFFIX = ': Completed all test cases.'


def capture(fn, *args, **kw):
    """Run fn with stdout captured. Returns (text, exception name or '')."""
    buf = io.StringIO()
    exc = ''
    with warnings.catch_warnings():
        warnings.simplefilter('ignore')
        try:
            with contextlib.redirect_stdout(buf):
                fn(*args, **kw)
        except Exception as e:          # the diagnostic itself failed: that is an observation
            exc = type(e).__name__
    return buf.getvalue(), exc


def parse_tokens(text, names):
    """Project the captured output on the token sequence of DiagSem (F / C / M)."""
    toks = []
    pending = None
    for raw in text.splitlines():
        line = raw.strip()
        if not line:
            continue
        if line in names:
            pending = names[line]
            continue
        if line.endswith(DONE_SUFFIX):
            nm = line[:-len(DONE_SUFFIX)].strip()
            toks.append(['C', names.get(nm, 'unknown'), 0])
            continue
        m = FAILED_RE.match(line)
        if m:
            toks.append(['F', pending or 'unknown', int(m.group(1))])
            pending = None
            continue
        for rx, key in MESSAGES:
            if rx.match(line):
                toks.append(['M', key, 0])
                break
    return toks


# ----------------------------------------------------------------------------------------------------------------------
# exact objects with planted defects
# ----------------------------------------------------------------------------------------------------------------------
def fq(q):
    return Fraction(int(q[0]), int(q[1]))


def qj(x):
    x = Fraction(x)
    return [x.numerator, x.denominator]


def _mat(m):
    return np.array([[float(fq(e)) for e in row] for row in m], dtype=float)


def _vec(v):
    return np.array([float(fq(e)) for e in v], dtype=float)


def make_exspace(n, dtype, examples, weighting=None):
    import odl
    from odl.space.npy_tensors import NumpyTensorSpace

    class ExSpace(NumpyTensorSpace):
        """rn(n) with a deterministic `examples` property (the exact sample vectors of the specification, zero padded)."""

        @property
        def examples(self):
            for name, v in examples:
                a = np.zeros(n, dtype=dtype)
                a[:2] = v
                yield (name, self.element(a))

    kw = {} if weighting is None else {'weighting': weighting}
    return ExSpace(n, dtype=dtype, **kw)


def make_planted_operator(rec, n=2, dtype='float64', weighting=None, other_space=None):
    """Real odl.Operator for an operator record of DiagSem (matrices act on the first two coordinates)."""
    import odl
    M, b, q = _mat(rec['M']), _vec(rec['b']), float(fq(rec['q']))
    ADJ, AA, DJ = _mat(rec['adj']), _mat(rec['AA']), _mat(rec['dJ'])
    kind = rec['kind']
    examples = [(e['n'], _vec(e['v'])) for e in rec['ex']]
    space = make_exspace(n, dtype, examples, weighting)
    other = odl.rn(n, dtype=dtype) if other_space is None else other_space

    def pad(v):
        out = np.zeros(n, dtype=dtype)
        out[:2] = v
        return out

    class MatOp(odl.Operator):
        def __init__(self, mat, dom, ran, adjoint_of=None, adj_mat=None):
            super(MatOp, self).__init__(dom, ran, linear=True)
            self.mat = mat
            self._adjoint_of = adjoint_of
            self._adj_mat = adj_mat

        def _call(self, x):
            return pad(self.mat.dot(np.asarray(x)[:2]))

        @property
        def adjoint(self):
            if self._adjoint_of is not None:
                return self._adjoint_of
            return MatOp(self._adj_mat if self._adj_mat is not None else self.mat.T, self.range, self.domain)

    class Planted(odl.Operator):
        def __init__(self):
            super(Planted, self).__init__(space, space, linear=bool(rec['flag']))

        def _call(self, x):
            a = np.asarray(x)[:2].astype(float)
            if kind == 'lin':
                r = M.dot(a)
            elif kind == 'aff':
                r = M.dot(a) + b
            elif kind == 'abs':
                r = M.dot(np.abs(a))
            else:
                r = M.dot(a) + q * np.array([a[0] * a[0], a[0] * a[1]])
            return pad(r)

        @property
        def adjoint(self):
            if kind == 'quad':
                return super(Planted, self).adjoint
            dom = other if rec['adjdom'] in ('ran', 'both') else space        # A.range != A^*.domain
            ran = other if rec['adjdom'] in ('dom', 'both') else space        # A.domain != A^*.range
            if rec['adjadj'] == 'self':
                return MatOp(ADJ, dom, ran, adjoint_of=self)
            return MatOp(ADJ, dom, ran, adj_mat=AA)

        def derivative(self, point):
            if self.is_linear:
                return self
            a = np.asarray(point)[:2].astype(float)
            J = M.copy()
            if kind == 'quad':
                J = J + q * np.array([[2 * a[0], 0.0], [a[1], a[0]]])
            return MatOp(J + DJ, space, space)

    return Planted()


def scaled_record(rec, twin, s):
    """Joint scaling of the planted perturbation (relative to the correct twin) by s - law checked by TLC (OpLaws)."""
    s = Fraction(s)
    out = dict(rec)

    def mix(a, t):
        return qj(fq(t) + s * (fq(a) - fq(t)))
    out['b'] = [mix(a, t) for a, t in zip(rec['b'], twin['b'])]
    for f in ('adj', 'AA'):
        out[f] = [[mix(a, t) for a, t in zip(ra, rt)] for ra, rt in zip(rec[f], twin[f])]
    out['dJ'] = [[qj(fq(a) * s) for a in row] for row in rec['dJ']]
    return out


def make_toy_space(rec, dtype='float64'):
    """A LinearSpace over R^2 written from scratch, with the planted defect of the space record."""
    import odl
    from odl.set.space import LinearSpace, LinearSpaceElement, LinearSpaceNotImplementedError
    d, s = rec['d'], float(fq(rec['s']))
    ex = [(e['n'], _vec(e['v'])) for e in rec['ex']]
    A, B = ex[1][1], ex[2][1]
    e1 = np.array([s, 0.0])

    class ToyElem(LinearSpaceElement):
        def __init__(self, space, data):
            super(ToyElem, self).__init__(space)
            self.data = np.array(data, dtype=dtype)

        def __repr__(self):
            return 'ToyElem(%r)' % (self.data.tolist(),)

        # gross element-level defects (generic events only, not part of the exact table)
        def copy(self):
            if d == 'copy-wrong':
                return ToyElem(self.space, self.data + 1.0)
            if d == 'copy-alias':
                return self
            return super(ToyElem, self).copy()

        def assign(self, other):
            if d == 'assign-noop':
                return self
            return super(ToyElem, self).assign(other)

        def set_zero(self):
            if d == 'setzero-noop':
                return self
            return super(ToyElem, self).set_zero()

        def __eq__(self, other):
            if d == 'eq-always':
                return True
            return super(ToyElem, self).__eq__(other)

        def __ne__(self, other):
            return not self.__eq__(other)

        __hash__ = None

    class Toy(LinearSpace):
        def __init__(self):
            super(Toy, self).__init__(odl.RealNumbers())

        def element(self, inp=None):
            if inp is None:
                return ToyElem(self, [0.0, 0.0])
            if isinstance(inp, ToyElem):
                return inp
            return ToyElem(self, inp)

        def zero(self):
            return ToyElem(self, [0.0, 0.0])

        @property
        def examples(self):
            for name, v in ex:
                yield (name, ToyElem(self, v))

        def _lincomb(self, a, x1, b, x2, out):
            r = a * x1.data + b * x2.data
            if out is x1 and out is x2:
                trig = d == 'lincomb-alias-xx'
            elif out is x1:
                trig = d == 'lincomb-alias-x'
            elif out is not x2:
                trig = (d == 'add-noncomm' and a == 1 and b == 1 and np.array_equal(x1.data, A)
                        and np.array_equal(x2.data, B))
            else:
                trig = False
            out.data[:] = r + e1 if trig else r

        def _inner(self, x1, x2):
            if not rec['hasinner']:
                raise LinearSpaceNotImplementedError('no inner product')
            v = float(np.dot(x1.data, x2.data))
            if d == 'inner-asym':
                v += s * float(x1.data[0]) * float(x2.data[1])
            if d == 'zero-inner' and not x1.data.any() and not x2.data.any():
                v = s
            return v

        def _norm(self, x):
            v = float(np.sqrt(np.dot(x.data.astype(float), x.data.astype(float))))
            if d == 'norm-triangle' and np.array_equal(x.data, [3.0, 4.0]):
                v += s
            if d == 'norm-homog' and np.array_equal(x.data, [-3.0, 0.0]):
                v += s
            return v

        def _dist(self, x1, x2):
            df = (x1.data - x2.data).astype(float)
            v = float(np.sqrt(np.dot(df, df)))
            if d == 'dist-asym' and np.array_equal(x1.data, A) and np.array_equal(x2.data, B):
                v += s
            return v

        def _multiply(self, x1, x2, out):
            r = x1.data * x2.data
            if d == 'mult-noncomm' and np.array_equal(x1.data, A) and np.array_equal(x2.data, B):
                r = r + e1
            out.data[:] = r

        def __eq__(self, other):
            return type(other) is type(self)

        def __hash__(self):
            return hash(type(self))

    return Toy()


# ----------------------------------------------------------------------------------------------------------------------
# nested values of all_equal / all_almost_equal
# ----------------------------------------------------------------------------------------------------------------------
NP_DT = {'f64': 'float64', 'f32': 'float32', 'f16': 'float16'}


def leaf_value(v):
    return float(v['b']) if v['d'] == 99 else float(v['b']) + 10.0 ** (-v['d'])


def build_value(v, style):
    """style: 'plain' (lists + ndarrays), 'tuple' (tuples for lists), 'elem' (ODL tensors for arrays)."""
    k = v['k']
    if k == 'none':
        return None
    if k == 'num':
        return leaf_value(v)
    if k == 'list':
        items = [build_value(c, style) for c in v['v']]
        return tuple(items) if style == 'tuple' else items
    arr = np.array([leaf_value(c) for c in v['v']], dtype=NP_DT[v['dt']])
    if style == 'elem':
        import odl
        return odl.tensor_space(len(arr), dtype=NP_DT[v['dt']]).element(arr)
    return arr


def classify_result(r, exc):
    if exc:
        return 'raise'
    if isinstance(r, (bool, np.bool_)):
        return 'T' if bool(r) else 'F'
    return 'arr'


# ----------------------------------------------------------------------------------------------------------------------
# event recorder and trace validation
# ----------------------------------------------------------------------------------------------------------------------
class Recorder(object):
    def __init__(self):
        self.events = []
        self.meta = {}

    def add(self, ev, meta=None):
        ev = dict(ev)
        ev['id'] = len(self.events) + 1
        self.events.append(ev)
        self.meta[ev['id']] = meta or {}
        return ev['id']


def validate(ctx, rec, tag):
    """Validate all recorded events with Trace_Diag; returns {event id: [clause tuples]}."""
    CH = 2500
    chunks = [rec.events[i:i + CH] for i in range(0, len(rec.events), CH)]
    jobs = []
    for ci, ch in enumerate(chunks):
        path = os.path.join(ctx.work, 'trace-%s-%d.ndjson' % (tag, ci))
        with open(path, 'w') as f:
            for ev in ch:
                f.write(json.dumps(ev) + '\n')
        jobs.append((ci, path, len(ch)))

    def one(job):
        ci, path, n = job
        return job, run_tlc('Trace_Diag.tla', 'Trace_Diag.cfg', ctx.work, env={'TRACE_FILE': path}, workers=1, timeout=900)
    rejected = {}
    with ThreadPoolExecutor(max_workers=13) as ex:
        for (ci, path, n), res in ex.map(one, jobs):
            ctx.add_tlc('trace-%s-%d' % (tag, ci), res)
            base = ci * CH
            for line, eid, clauses in parse_fails(res.output):
                tuples = re.findall(r'<<\s*((?:"[^"]*"\s*,?\s*)+)>>', clauses)
                cl = [re.findall(r'"([^"]*)"', t) for t in tuples]
                rejected[eid] = cl
            ctx.traces += n
    return rejected


def report(ctx, rec, rejected):
    for eid, clauses in sorted(rejected.items()):
        ev = rec.events[eid - 1]
        meta = rec.meta.get(eid, {})
        for cl in clauses or [['unparsed']]:
            sig = {'stage': STAGE, 'fn': ev['fn'], 'clause': cl[0]}
            for i, name in enumerate(('what', 'method', 'subtest')):
                if len(cl) > i + 1:
                    sig[name] = cl[i + 1]
            if ev['fn'] in ('optest', 'sptest'):
                sig['defect'] = meta.get('defect', '')
            ctx.violation(sig, {'stage_module': STAGE, 'event': ev, 'meta': meta, 'clauses': clauses})


# ----------------------------------------------------------------------------------------------------------------------
# running the real diagnostics
# ----------------------------------------------------------------------------------------------------------------------
def spell_number(x, how):
    x = float(x)
    return {'float': x, 'np': np.float64(x), 'int': int(x) if x == int(x) else x, 'str-float': x}[how]


def run_optest(rec_op, meth, N, tol, vb, conc):
    from odl.diagnostics import OperatorTest
    op = make_planted_operator(rec_op, n=conc.get('n', 2), dtype=conc.get('dtype', 'float64'),
                               weighting=conc.get('weighting'))
    s = Fraction(conc.get('scale', 1))
    args = {'operator_norm': spell_number(N, conc.get('nspell', 'float')), 'tol': spell_number(Fraction(tol) * s, 'float'),
            'verbose': vb}
    box = {}

    def go():
        t = OperatorTest(op, **args) if conc.get('kw', True) else OperatorTest(op, args['operator_norm'], vb, args['tol'])
        box['t'] = t
        for _ in range(conc.get('repeat', 1)):
            getattr(t, meth)()
    text, exc = capture(go)
    toks = parse_tokens(text, OP_NAMES)
    if conc.get('repeat', 1) > 1 and not exc:
        k = conc['repeat']
        if len(toks) % k or any(toks[i::len(toks) // k] != [toks[i]] * k for i in range(len(toks) // k)):
            toks = toks + [['M', 'history-dependent', 0]]          # the verdict of a repeated call changed
        else:
            toks = toks[:len(toks) // k]
    return toks, exc, box.get('t')


def run_sptest(rec_sp, meth, tol, vb, conc):
    from odl.diagnostics import SpaceTest
    sp = make_toy_space(rec_sp, dtype=conc.get('dtype', 'float64'))

    def go():
        t = SpaceTest(sp, verbose=vb, tol=float(Fraction(tol))) if conc.get('kw', True) else SpaceTest(sp, vb, float(Fraction(tol)))
        for _ in range(conc.get('repeat', 1)):
            getattr(t, meth)()
    text, exc = capture(go)
    toks = parse_tokens(text, SP_NAMES)
    k = conc.get('repeat', 1)
    if k > 1 and not exc:
        if len(toks) % k or toks != toks[:len(toks) // k] * k:
            toks = toks + [['M', 'history-dependent', 0]]
        else:
            toks = toks[:len(toks) // k]
    return toks, exc


def tree_fixed_switches():
    """Which repair switches of DiagImpl are already applied in the tree under test (probe of the real code)."""
    rec = {'kind': 'abs', 'M': [[[1, 1], [0, 1]], [[0, 1], [1, 1]]], 'b': [[0, 1], [0, 1]], 'q': [0, 1], 'flag': True,
           'adj': [[[1, 1], [0, 1]], [[0, 1], [1, 1]]], 'adjadj': 'self', 'AA': [[[1, 1], [0, 1]], [[0, 1], [1, 1]]],
           'adjdom': 'ok', 'dJ': [[[0, 1], [0, 1]], [[0, 1], [0, 1]]],
           'ex': [{'n': 'Zero', 'v': [[0, 1], [0, 1]]}, {'n': 'E1', 'v': [[1, 1], [0, 1]]}]}
    toks, exc, _ = run_optest(rec, 'linear', 1, Fraction(1, 16), False, {})
    return 's' if any(t[0] == 'F' and t[1] == 'scale' for t in toks) else '-'


# ----------------------------------------------------------------------------------------------------------------------
# TLC jobs
# ----------------------------------------------------------------------------------------------------------------------
def tlc_jobs(ctx, fixed):
    env0 = {'DIAG_TIER': ctx.tier, 'DIAG_FIXED': fixed}
    outs = {g: os.path.join(ctx.work, 'diag-%s.ndjson' % g) for g in ('op', 'sp', 'cmp', 'hist')}
    jobs = [('diag-cases-' + g, 'MC_Diag_cases.cfg', dict(env0, DIAG_GROUP=g, OUT_FILE=outs[g]), 1, 'ok') for g in ('op', 'sp', 'cmp')]
    jobs.append(('diag-hist', 'MC_Diag_hist.cfg', dict(env0, DIAG_GROUP='hist', OUT_FILE=outs['hist']), 1, 'ok'))
    jobs.append(('diag-current-op', 'MC_Diag_current.cfg', dict(env0, DIAG_GROUP='op', OUT_FILE='/dev/null'), 2, 'any'))
    jobs.append(('diag-bogus-op', 'MC_Diag_bogus.cfg', dict(env0, DIAG_GROUP='op', OUT_FILE='/dev/null'), 2, 'cex'))
    jobs.append(('diag-bogus-hist', 'MC_Diag_bogus.cfg', dict(env0, DIAG_GROUP='hist', OUT_FILE='/dev/null'), 2, 'cex'))

    def one(j):
        name, cfg, env, workers, expect = j
        return j, run_tlc('MC_Diag.tla', cfg, ctx.work, env=env, workers=workers, timeout=900)
    results = {}
    with ThreadPoolExecutor(max_workers=7) as ex:
        for (name, cfg, env, workers, expect), res in ex.map(one, jobs):
            ctx.add_tlc(name, res, expect='ok' if expect == 'ok' else 'any')
            if expect == 'cex' and res.status != 'counterexample':
                raise MachineryError('%s: the bogus law was not refuted (%s)' % (name, res.status))
            results[name] = res
    cur = results['diag-current-op']
    if cur.status == 'machinery':
        raise MachineryError('diag-current-op: %s' % cur.status)
    # C with the switches of the tree only: refuted exactly while the scale finding is open
    if (cur.status == 'counterexample') != (fixed == '-'):
        ctx.drift_note('diag: layer C with the tree\'s switches (%s) is %s by TLC - probe and model disagree' % (fixed, cur.status))
    ctx.extra['diag_scale_abs_open'] = fixed == '-'

    def load(g):
        with open(outs[g]) as f:
            return [json.loads(l) for l in f if l.strip()]
    return {g: load(g) for g in outs}


# ----------------------------------------------------------------------------------------------------------------------
# replays and drivers
# ----------------------------------------------------------------------------------------------------------------------
def op_concretisations(case, rng, tier):
    concs = [{}]
    concs.append({'n': 3, 'dtype': 'float32', 'nspell': 'np', 'kw': False})
    concs.append({'n': 5, 'repeat': 2, 'nspell': 'int'})
    if case['meth'] != 'derivative' and case['base'] != 'Q1':
        concs.append({'weighting': 4.0, 'n': 2})
    if case['scalable'] and case['meth'] != 'linear':
        concs.append({'scale': Fraction(1, 1024)})
        concs.append({'scale': Fraction(1, 6250), 'n': 4})          # tol = 1e-5 for tol 1/16
    if tier == 'thorough':
        concs.append({'n': rng.choice([2, 3, 7, 16]), 'dtype': rng.choice(['float64', 'float32']),
                      'nspell': rng.choice(['float', 'np', 'int']), 'kw': rng.random() < .5, 'repeat': rng.choice([1, 2])})
    return concs


def replay_ops(ctx, cases, rec, rng):
    n = 0
    for c in cases:
        for conc in op_concretisations(c, rng, ctx.tier):
            rec_op = c['op']
            if 'scale' in conc:
                rec_op = scaled_record(c['op'], c['twin'], conc['scale'])
            toks, exc, t = run_optest(rec_op, c['meth'], fq(c['N']), fq(c['tol']), c['vb'], conc)
            ev = {'fn': 'optest', 'op': c['op'], 'meth': c['meth'], 'N': c['N'], 'tol': c['tol'], 'vb': c['vb'], 'obs': toks,
                  'exc': exc}
            rec.add(ev, {'defect': c['def'], 'size': c['size'], 'base': c['base'], 'conc': conc, 'exp': c['exp'], 'cexp': c['cexp']})
            ctx.count(['optest', c['base'], c['def'], c['size'], c['meth'], c['vb']], c['def'] != 'none')
            n += 1
            if toks == c['exp'] and toks != c['cexp'] and not exc:
                ctx.drift_note('diag: real OperatorTest agrees with layer A but not with layer C (%s/%s)' % (c['def'], c['meth']))
        # run_tests re-estimates the operator norm: only where the table is robust against the estimate
    for c in cases:
        if c['meth'] not in ('linear', 'derivative') or not c['robust']:
            continue
        if c['meth'] == 'derivative' and c['base'] != 'Q1':
            continue
        if c['meth'] == 'linear' and c['base'] == 'Q1':
            continue
        if c['op']['adjdom'] != 'ok':
            continue        # norm() runs the power method through the planted adjoint with foreign spaces: unconstrained
        toks, exc, t = run_optest(c['op'], 'run_tests', fq(c['N']), fq(c['tol']), c['vb'], {})
        nest = getattr(t, 'operator_norm', None)
        if exc == '' and (nest is None or not (float(fq(c['N'])) / 2 <= float(nest) <= 2 * float(fq(c['N'])))):
            ctx.skip('diag: run_tests norm estimate outside the robust interval for %s' % c['base'])
            continue
        ev = {'fn': 'optest', 'op': c['op'], 'meth': 'run_tests', 'N': c['N'], 'tol': c['tol'], 'vb': c['vb'], 'obs': toks, 'exc': exc}
        rec.add(ev, {'defect': c['def'], 'size': c['size'], 'base': c['base'], 'conc': {'run_tests': True}})
        ctx.count(['optest', c['base'], c['def'], c['size'], 'run_tests', c['vb']], True)
        n += 1
    return n


def replay_spaces(ctx, cases, rec, rng):
    n = 0
    for c in cases:
        concs = [{}, {'kw': False, 'repeat': 2}]
        if ctx.tier == 'thorough':
            concs.append({'dtype': 'float32'})
        for conc in concs:
            toks, exc = run_sptest(c['sp'], c['meth'], fq(c['tol']), c['vb'], conc)
            ev = {'fn': 'sptest', 'sp': c['sp'], 'meth': c['meth'], 'tol': c['tol'], 'vb': c['vb'], 'obs': toks, 'exc': exc}
            rec.add(ev, {'defect': c['sp']['d'], 'size': c['size'], 'conc': conc, 'exp': c['exp']})
            ctx.count(['sptest', c['sp']['d'], c['size'], c['sp']['hasinner'], c['meth'], c['vb']], c['sp']['d'] != 'none')
            n += 1
    return n


def replay_cmp(ctx, cases, rec, rng):
    from odl.util.testutils import all_almost_equal, all_equal
    n = 0
    styles = ['plain', 'tuple', 'elem']
    for i, c in enumerate(cases):
        if ctx.tier == 'quick' and (i + ctx.seed) % 2:
            continue                    # quick: every other exported pair (all of them in thorough / over two seeds)
        sts = [styles[i % 3], styles[(i + 1) % 3]] if ctx.tier == 'thorough' else [styles[(i // 2) % 3]]
        for stl in sts:
            x, y = build_value(c['x'], stl), build_value(c['y'], stl)
            box = {}

            def go():
                if c['f'] == 'eq':
                    box['r'] = all_equal(x, y)
                elif c['nd'] == -1:
                    box['r'] = all_almost_equal(x, y) if i % 2 else all_almost_equal(x, y, None)
                else:
                    box['r'] = all_almost_equal(x, y, c['nd']) if i % 2 else all_almost_equal(x, y, ndigits=c['nd'])
            _, exc = capture(go)
            obs = classify_result(box.get('r'), exc)
            rec.add({'fn': 'cmp', 'f': c['f'], 'x': c['x'], 'y': c['y'], 'nd': c['nd'], 'obs': obs},
                    {'style': stl, 'exc': exc, 'exp': c['exp'], 'cexp': c['cexp']})
            ctx.count(['cmp', c['f'], c['x'], c['y'], c['nd']], c['x'] != c['y'])
            n += 1
    return n


S_STR = {1: 'x=1 error=0.5', 2: 'y=2'}


class _Obj(object):
    def __init__(self, s):
        self.s = s

    def __str__(self):
        return self.s


class _Boom(Exception):
    pass


def run_fc_history(hist, haserr, spelling):
    """Execute a fail_counter history on the real context manager; returns the observed blocks."""
    from odl.util.testutils import fail_counter
    name = 'my test (%s)' % spelling
    err = 'error = |a - b|' if haserr else None
    blocks = []
    i = 0
    while i < len(hist):
        assert hist[i]['a'] == 'enter'
        j = i + 1
        body = []
        while j < len(hist) and hist[j]['a'] == 'fail':
            body.append(hist[j]['s'])
            j += 1
        if j >= len(hist):
            break                                   # block still open: covered by its closed continuations
        how = hist[j]['a']
        logged = []
        buf = io.StringIO()
        exc = 0
        holder = {}
        try:
            with contextlib.redirect_stdout(buf):
                kw = {}
                if spelling == 'logger':
                    kw['logger'] = logged.append
                if spelling == 'positional':
                    cm = fail_counter(name, err)
                else:
                    cm = fail_counter(test_name=name, err_msg=err, **kw)
                with cm as counter:
                    holder['c'] = counter
                    for s_ in body:
                        if s_ == 0:
                            counter.fail()
                        elif spelling == 'positional':
                            counter.fail(_Obj(S_STR[s_]))
                        else:
                            counter.fail(string=S_STR[s_]) if s_ == 2 else counter.fail(S_STR[s_])
                    if how == 'raise':
                        raise _Boom()
        except _Boom:
            exc = 1
        toks = []
        nlog = len(logged)
        for line in buf.getvalue().splitlines():
            m = FAILED_RE.match(line)
            if line == name:
                toks.append(['name', 0])
            elif line in S_STR.values():
                toks.append(['str', [k for k, v in S_STR.items() if v == line][0]])
            elif err is not None and line == err:
                toks.append(['err', 0])
            elif m:
                toks.append(['failed', int(m.group(1))])
            elif spelling != 'logger' and line.startswith(name) and 'FAILED' not in line:
                nlog += 1                           # logger=print: the completion message goes to stdout
            else:
                toks.append(['other', 0])
        blocks.append({'num_failed': int(holder['c'].num_failed), 'stdout': toks, 'logged': nlog, 'exc': exc})
        i = j + 1
    return blocks


PB_BAR = re.compile(r'^\r(?P<text>.*): \[(?P<h>#*)(?P<s> *)\] (?P<pct> ?\d?\d?\d\.\d)%\s*$')


def project_write(w, text):
    if w == '':
        return ['none', 0, 0]
    if w == '\r{0}: [{1}] Done      \n'.format(text, '#' * 30) or re.match(r'^\r%s: \[#{30}\] Done\s*\n$' % re.escape(text), w):
        return ['done', 30, 0]
    m = PB_BAR.match(w)
    if m and m.group('text') == text and len(m.group('h')) + len(m.group('s')) == 30:
        return ['bar', len(m.group('h')), int(round(float(m.group('pct')) * 10))]
    return ['other', 0, 0]


def run_pb_history(njobs, acts, text='Reading data', npints=False):
    from odl.util.testutils import ProgressBar
    buf = io.StringIO()
    writes = []
    with contextlib.redirect_stdout(buf):
        bar = ProgressBar(text, *njobs)
        start = buf.getvalue()
        buf.seek(0)
        buf.truncate(0)
        for ind in acts:
            if npints:
                ind = [np.int64(i) for i in ind]
            bar.update(*ind)
            writes.append(project_write(buf.getvalue(), text))
            buf.seek(0)
            buf.truncate(0)
    ok_start = start == '\r{0}: [{1:30s}] Starting'.format(text, ' ' * 30)
    return writes, ok_start


def replay_hist(ctx, states, rec, rng):
    n = 0
    for stt in states:
        mm, hist = stt['m'], stt['hist']
        if mm['name'] == 'fc':
            if stt['st']['open'] or not hist:
                continue
            for sp in (['kw', 'logger', 'positional'] if ctx.tier == 'thorough' else [['kw', 'logger', 'positional'][n % 3]]):
                obs = run_fc_history(hist, mm['haserr'], sp)
                rec.add({'fn': 'fc', 'haserr': mm['haserr'], 'hist': hist, 'obs': obs}, {'spelling': sp})
                ctx.count(['fc', mm['haserr'], hist], len(hist) > 2)
                n += 1
        else:
            acts = [h['ind'] for h in hist]
            if not acts:
                continue
            writes, ok_start = run_pb_history(mm['njobs'], acts, npints=bool(n % 2))
            if not ok_start:
                writes = [['other', 0, 0]] + writes[1:]
            rec.add({'fn': 'pb', 'njobs': mm['njobs'], 'acts': acts, 'writes': writes}, {'model_writes': stt['st']['writes']})
            ctx.count(['pb', mm['njobs'], acts], len(acts) > 1)
            if writes != stt['st']['writes']:
                ctx.drift_note('diag: ProgressBar writes differ from the implementation model on %r %r' % (mm['njobs'], acts))
            n += 1
    return n


def drive_progress(ctx, rec, rng):
    """Histories beyond the TLC constants: larger / deeper job grids, steps below 0.1 %, ProgressRange."""
    from odl.util.testutils import ProgressRange
    n = 0
    grids = [[10], [10, 10], [2, 3, 4], [1], [1, 1], [7, 3], [1000], [3000], [30], [31], [9]]
    for g in grids:
        tot = int(np.prod(g))
        for rep in range(2 if ctx.tier == 'quick' else 6):
            acts = []
            ln = min(tot + 3, 40) if rep == 0 else rng.randint(1, 25)
            for k in range(ln):
                if rep == 0 or rng.random() < 0.5:
                    acts.append([])
                else:
                    flat = rng.randrange(tot)
                    acts.append([int(i) for i in np.unravel_index(flat, g)])
            text = rng.choice(['Reading data', 'p', 'a: [b]', ''])
            writes, ok_start = run_pb_history(g, acts, text=text, npints=bool(rep % 2))
            if not ok_start:
                writes[0] = ['other', 0, 0]
            rec.add({'fn': 'pb', 'njobs': g, 'acts': acts, 'writes': writes}, {'text': text})
            ctx.count(['pb', g, acts], True)
            n += 1
    for cnt in [0, 1, 2, 3, 10, 37, 1500]:
        buf = io.StringIO()
        vals, writes = [], []
        with contextlib.redirect_stdout(buf):
            pr = ProgressRange('range', cnt)
            buf.seek(0)
            buf.truncate(0)
            for v in pr:
                vals.append(int(v))
                writes.append(project_write(buf.getvalue(), 'range'))
                buf.seek(0)
                buf.truncate(0)
        rec.add({'fn': 'prange', 'n': cnt, 'values': vals, 'writes': writes}, {})
        ctx.count(['prange', cnt], cnt > 1)
        n += 1
    return n


def drive_utils(ctx, rec, rng):
    """is_subdict, dtype_ndigits / dtype_tol, noise_array / noise_element / noise_elements."""
    import odl
    from odl.util.testutils import dtype_ndigits, dtype_tol, is_subdict, noise_array, noise_element, noise_elements
    from odl.util import npy_random_seed
    n = 0
    keys, vals = ['a', 'b', 'c'], [1, 2]
    dicts = [{}]
    for k in keys:
        dicts = dicts + [dict(d, **{k: v}) for d in dicts for v in vals]
    for sub in dicts:
        for dct in dicts:
            r = is_subdict(sub, dct)
            enc = lambda d: [[keys.index(k), v] for k, v in sorted(d.items())]
            rec.add({'fn': 'subdict', 'sub': enc(sub), 'dict': enc(dct), 'obs': bool(r)}, {})
            ctx.count(['subdict', enc(sub), enc(dct)], bool(sub))
            n += 1
    dts = {'f16': [np.float16, np.dtype('float16')], 'f32': [np.float32, np.dtype('float32')], 'c64': [np.complex64, np.dtype('complex64')],
           'f64': [np.float64, float, np.dtype(float)], 'c128': [np.complex128, complex], 'i64': [np.int64, int], 'obj': [object]}
    for cls, spellings in dts.items():
        for dt in spellings:
            for default in (None, 2, 7):
                args = (dt,) if default is None else (dt, default)
                nd = dtype_ndigits(*args)
                tl = dtype_tol(*args) if default is None else dtype_tol(dt, default=default)
                tolexp = [k for k in range(0, 12) if tl == 10 ** -k]
                rec.add({'fn': 'digits', 'dt': cls, 'default': -1 if default is None else default, 'nd': int(nd),
                         'tolexp': tolexp[0] if tolexp else -99}, {'dtype': repr(dt)})
                ctx.count(['digits', cls, default], True)
                n += 1
    # timer / timeit: structure only (one line '{name:>30s} : {seconds:.3f}', also when the body raises; results pass through)
    from odl.util.testutils import timeit, timer
    line_re = re.compile(r'^ *(?P<name>.*?) : +(?P<t>\d+\.\d{3}) $')

    def timer_flags(label, body, want_name):
        box = {}

        def go():
            box['r'] = body()
        text, exc = capture(go)
        lines = text.splitlines()
        m = line_re.match(lines[0]) if len(lines) == 1 else None
        return [['one-line', int(len(lines) == 1)], ['name', int(bool(m) and m.group('name') == want_name)],
                ['width', int(bool(m) and len(lines[0]) >= 44)]], exc, box.get('r')

    def with_timer(name, boom=False):
        def body():
            with (timer(name) if name is not None else timer()):
                if boom:
                    raise _Boom()
            return 1
        return body
    for label, body, want, want_exc, want_r in [
            ('timer-named', with_timer('abc'), 'abc', '', 1), ('timer-default', with_timer(None), 'Elapsed', '', 1),
            ('timer-raises', with_timer('abc', True), 'abc', '_Boom', None),
            ('timeit-bare', lambda: timeit(_Obj.__str__)(_Obj('q')), str(_Obj.__str__), '', 'q'),
            ('timeit-info', lambda: timeit('info string')(lambda a, b=2: a + b)(1, b=4), 'info string', '', 5)]:
        flags, exc, r = timer_flags(label, body, want)
        flags += [['exception-propagates', int(exc == want_exc)], ['result', int(r == want_r)]]
        rec.add({'fn': 'noise', 'fnname': label, 'flags': flags}, {'exc': exc})
        ctx.count(['timer', label], True)
        n += 1
    spaces = [('float', odl.rn(5)), ('float', odl.rn((2, 3), dtype='float32')), ('complex', odl.cn(4)),
              ('int', odl.tensor_space(300, dtype='int32')), ('uint', odl.tensor_space(300, dtype='uint8')),
              ('bool', odl.tensor_space(64, dtype=bool)), ('float', odl.uniform_discr(0, 1, 7)),
              ('float', odl.rn(0)), ('float', odl.rn(1)), ('power', odl.rn(3) ** 2), ('product', odl.ProductSpace(odl.rn(2), odl.rn(3)))]
    for cls, sp in spaces:
        for fname in ('noise_array', 'noise_element', 'noise_elements', 'noise_elements3'):
            seed = rng.randrange(1000)
            flags = []
            try:
                with npy_random_seed(seed):
                    if fname == 'noise_array':
                        out = noise_array(sp)
                    elif fname == 'noise_element':
                        out = noise_element(sp)
                    elif fname == 'noise_elements':
                        out = noise_elements(sp)
                    else:
                        out = noise_elements(sp, n=3)
                with npy_random_seed(seed):
                    if fname == 'noise_array':
                        out2 = noise_array(sp)
                    elif fname == 'noise_element':
                        out2 = noise_element(sp)
                    elif fname == 'noise_elements':
                        out2 = noise_elements(sp)
                    else:
                        out2 = noise_elements(sp, 3)
                flags.append(['raised', 1])
            except Exception as e:
                flags.append(['raised', 0])
                rec.add({'fn': 'noise', 'fnname': fname, 'flags': flags}, {'space': repr(sp), 'exc': repr(e)})
                n += 1
                continue

            def arr_ok(a):
                if cls in ('power', 'product'):
                    return int(len(a) == len(sp))
                return int(isinstance(a, np.ndarray) and a.dtype == sp.dtype and a.shape == sp.shape)

            def rng_ok(a):
                if cls == 'int':
                    return int(a.min() >= -10 and a.max() <= 10 and len(np.unique(a)) > 3)
                if cls == 'uint':
                    return int(a.min() >= 0 and a.max() <= 10 and len(np.unique(a)) > 3)
                return 1
            from odl.util.testutils import all_equal as _ae
            if fname == 'noise_array':
                flags += [['array-dtype-shape', arr_ok(out)], ['range', rng_ok(out)], ['element-creatable', int(sp.element(out) in sp)],
                          ['reproducible', int(_ae(out, out2))]]
            elif fname == 'noise_element':
                flags += [['in-space', int(out in sp)], ['reproducible', int(out == out2)]]
            elif fname == 'noise_elements':
                ok_struct = isinstance(out, tuple) and len(out) == 2
                flags += [['structure', int(ok_struct)]]
                if ok_struct:
                    flags += [['array-dtype-shape', arr_ok(out[0])], ['in-space', int(out[1] in sp)],
                              ['same-values', int(_ae(out[0], out[1]))], ['reproducible', int(out[1] == out2[1])]]
            else:
                ok_struct = isinstance(out, tuple) and len(out) == 2 and len(out[0]) == 3 and len(out[1]) == 3
                flags += [['structure', int(ok_struct)]]
                if ok_struct:
                    flags += [['array-dtype-shape', min(arr_ok(a) for a in out[0])], ['in-space', int(all(e in sp for e in out[1]))],
                              ['same-values', int(all(_ae(a, e) for a, e in zip(out[0], out[1])))],
                              ['independent-draws', int(sp.size < 2 or not _ae(out[0][0], out[0][1]))],
                              ['reproducible', int(all(a == b for a, b in zip(out[1], out2[1])))]]
            rec.add({'fn': 'noise', 'fnname': fname, 'flags': flags}, {'space': repr(sp), 'seed': seed})
            ctx.count(['noise', fname, repr(sp)], True)
            n += 1
    return n


def drive_fixture(ctx, rec, rng):
    """simple_fixture: documented test ids (default formats, custom fmt, skipif-wrapped parameters)."""
    try:
        import pytest
        from odl.util.testutils import simple_fixture
    except ImportError:
        ctx.skip('diag: pytest not available, simple_fixture not exercised')
        return 0
    n = 0
    wrap = pytest.mark.skipif('False', reason='never')
    cat = [('impl', [('str', 'numpy'), ('str', 'cuda')], []), ('n', [('int', 0), ('int', 1), ('int', 25)], []),
           ('mixed', [('str', 'a'), ('int', -3), ('str', '')], []), ('wrapped', [('str', 'pyfftw'), ('int', 7), ('str', 'x')], [0, 1]),
           ('one', [('int', 5)], []), ('e', [], [])]
    for name, params, wrapped in cat:
        for fmt in ('default', 'dash'):
            real = [wrap(v) if i in wrapped else v for i, (k, v) in enumerate(params)]
            box = {}

            def go():
                fx = simple_fixture(name, real) if fmt == 'default' else simple_fixture(name, real, fmt='{name}-{value}')
                box['ids'] = list(getattr(fx, '_pytestfixturefunction').ids or [])
            _, exc = capture(go)
            rec.add({'fn': 'fixture', 'name': name, 'params': [{'k': k, 'v': v} for k, v in params], 'fmt': fmt,
                     'ids': [str(i) for i in box.get('ids', [])], 'exc': exc}, {'wrapped': wrapped})
            ctx.count(['fixture', name, fmt], bool(params))
            n += 1
    return n


def drive_generic(ctx, rec, rng):
    """Real ODL spaces and operators (no exact model): correct objects are clean, grossly wrong ones are reported."""
    import odl
    from odl.diagnostics import OperatorTest, SpaceTest
    n = 0
    spaces = [('rn', odl.rn(4)), ('rn-f32', odl.rn(3, dtype='float32')), ('rn-weighted', odl.rn(3, weighting=2.5)),
              ('cn', odl.cn(3)), ('discr', odl.uniform_discr(0, 1, 5)), ('discr-2d', odl.uniform_discr([0, 0], [1, 1], [3, 2])),
              ('rn-p1', odl.rn(3, exponent=1)), ('power', odl.rn(2) ** 2)]
    if ctx.tier == 'thorough':
        spaces += [('rn-10', odl.rn(10)), ('cn-f32', odl.cn(2, dtype='complex64')), ('product', odl.ProductSpace(odl.rn(2), odl.rn(3)))]
    for cls, sp in spaces:
        for vb in (False, True):
            for meth in ('field', 'element_method', 'linearity', 'inner', 'norm', 'dist', 'multiply', 'equals', 'contains', 'element',
                         'run_tests'):
                if meth == 'run_tests' and vb:
                    continue

                def go():
                    getattr(SpaceTest(sp, verbose=vb), meth)()
                text, exc = capture(go)
                toks = parse_tokens(text, SP_NAMES)
                rec.add({'fn': 'generic', 'cls': 'SpaceTest', 'meth': meth, 'expect': 'clean', 'obs': toks, 'exc': exc},
                        {'space': repr(sp), 'verbose': vb, 'text': text[-1500:]})
                ctx.count(['generic-space', cls, meth, vb], True)
                n += 1
    toy = {'s': [1, 1], 'hasinner': True,
           'ex': [{'n': 'Zero', 'v': [[0, 1], [0, 1]]}, {'n': 'A', 'v': [[3, 1], [0, 1]]}, {'n': 'B', 'v': [[0, 1], [4, 1]]}]}
    for dname, expect in [('none', 'clean'), ('copy-wrong', 'reports'), ('copy-alias', 'reports'), ('assign-noop', 'reports'),
                          ('setzero-noop', 'reports'), ('eq-always', 'reports')]:
        meths = ['element'] if dname != 'none' else ['element', 'equals', 'contains', 'field', 'element_method', 'run_tests']
        for meth in meths:
            for vb in (False, True):
                tsp = make_toy_space(dict(toy, d=dname))

                def go():
                    getattr(SpaceTest(tsp, verbose=vb, tol=1.0 / 16), meth)()
                text, exc = capture(go)
                rec.add({'fn': 'generic', 'cls': 'SpaceTest', 'meth': meth, 'expect': expect, 'obs': parse_tokens(text, SP_NAMES), 'exc': exc},
                        {'space': 'toy:' + dname, 'verbose': vb, 'text': text[-1500:]})
                ctx.count(['generic-toy', dname, meth, vb], True)
                n += 1
    r3 = odl.rn(3)
    mat = np.array([[1.0, 2.0, 0.0], [0.0, 1.0, -1.0], [3.0, 0.0, 1.0]])
    good = [('matrix', odl.MatrixOperator(mat)), ('identity', odl.IdentityOperator(r3)), ('scaling', odl.ScalingOperator(r3, -2.5)),
            ('matrix-rect', odl.MatrixOperator(mat[:2])), ('composed', odl.MatrixOperator(mat) * odl.ScalingOperator(r3, 2.0)),
            ('matrix-f32', odl.MatrixOperator(mat.astype('float32'))),
            ('grad', odl.Gradient(odl.uniform_discr(0, 1, 6))), ('power', odl.PowerOperator(r3, 2)),
            ('matrix-complex', odl.MatrixOperator((mat + 1j * mat.T)))]

    class WrongAdj(odl.Operator):
        def __init__(self):
            super(WrongAdj, self).__init__(r3, r3, linear=True)

        def _call(self, x):
            return mat.dot(np.asarray(x))

        @property
        def adjoint(self):
            return odl.MatrixOperator(2.0 * mat.T, domain=r3, range=r3)

    class FlaggedAffine(odl.Operator):
        def __init__(self):
            super(FlaggedAffine, self).__init__(r3, r3, linear=True)

        def _call(self, x):
            return mat.dot(np.asarray(x)) + 5.0

        @property
        def adjoint(self):
            return odl.MatrixOperator(mat.T, domain=r3, range=r3)

    class WrongDeriv(odl.Operator):
        def __init__(self):
            super(WrongDeriv, self).__init__(r3, r3, linear=False)

        def _call(self, x):
            return np.asarray(x) ** 2

        def derivative(self, x):
            return odl.MatrixOperator(np.diag(3.0 * np.asarray(x)) + 1.0, domain=r3, range=r3)
    bad = [('wrong-adjoint', WrongAdj(), 'adjoint'), ('flagged-affine', FlaggedAffine(), 'linear'),
           ('wrong-derivative', WrongDeriv(), 'derivative')]
    for cls, op in good:
        for nrm in (None, 8.0):
            for meth in ('adjoint', 'linear', 'derivative', 'run_tests', 'norm'):
                if cls == 'power' and meth in ('adjoint',):
                    continue

                def go():
                    t = OperatorTest(op, operator_norm=nrm, verbose=False)
                    getattr(t, meth)()
                text, exc = capture(go)
                toks = parse_tokens(text, OP_NAMES)
                if cls == 'power':
                    toks = [t for t in toks if t[1] != 'notlinear']
                rec.add({'fn': 'generic', 'cls': 'OperatorTest', 'meth': meth, 'expect': 'clean', 'obs': toks, 'exc': exc},
                        {'operator': cls, 'operator_norm': nrm, 'text': text[-1500:]})
                ctx.count(['generic-op', cls, meth, nrm], True)
                n += 1
    # self_adjoint on real operators; norm(): "Norm is at least" - a positive lower bound of the true operator norm
    sym = np.array([[2.0, 1.0, 0.0], [1.0, 3.0, -1.0], [0.0, -1.0, 1.0]])
    for cls, op, expect in [('symmetric', odl.MatrixOperator(sym), 'clean'), ('identity', odl.IdentityOperator(r3), 'clean'),
                            ('non-symmetric', odl.MatrixOperator(mat), 'reports'),
                            ('hermitian', odl.MatrixOperator(sym + 1j * (mat - mat.T)), 'clean')]:
        for nrm in (None, np.float64(8.0)):
            def go():
                OperatorTest(op, operator_norm=nrm, verbose=False).self_adjoint()
            text, exc = capture(go)
            rec.add({'fn': 'generic', 'cls': 'OperatorTest', 'meth': 'self_adjoint', 'expect': expect,
                     'obs': parse_tokens(text, OP_NAMES), 'exc': exc}, {'operator': cls, 'operator_norm': nrm, 'text': text[-800:]})
            ctx.count(['generic-op', cls, 'self_adjoint', nrm is None], True)
            n += 1
    for cls, m_ in [('mat', mat), ('sym', sym), ('rect', mat[:2]), ('scaled', -4.0 * sym), ('rank1', np.outer([1.0, 2.0, 2.0], [0.0, 3.0, 4.0]))]:
        op = odl.MatrixOperator(m_)
        box = {}

        def go():
            t = OperatorTest(op, verbose=False)
            box['a'] = t.operator_norm
            box['b'] = t.norm()
            box['c'] = t.operator_norm
        text, exc = capture(go)
        true = float(np.linalg.norm(m_, 2))
        flags = [['raised', int(exc == '')]]
        if not exc:
            flags += [['positive', int(box['b'] > 0)], ['lower-bound', int(box['b'] <= true * (1 + 1e-9))],
                      ['attribute-updated', int(box['c'] == box['b'])], ['repeatable', int(box['a'] == box['b'])],
                      ['not-degenerate', int(box['b'] >= true / 4)]]
        rec.add({'fn': 'noise', 'fnname': 'OperatorTest.norm', 'flags': flags}, {'operator': cls, 'true': true, 'est': box.get('b')})
        ctx.count(['opnorm', cls], True)
        n += 1
    for cls, op, meth in bad:
        for nrm in (None, 8.0):
            def go():
                getattr(OperatorTest(op, operator_norm=nrm, verbose=False), meth)()
            text, exc = capture(go)
            rec.add({'fn': 'generic', 'cls': 'OperatorTest', 'meth': meth, 'expect': 'reports', 'obs': parse_tokens(text, OP_NAMES),
                     'exc': exc}, {'operator': cls, 'operator_norm': nrm, 'text': text[-1500:]})
            ctx.count(['generic-op', cls, meth, nrm], True)
            n += 1
    return n


# ----------------------------------------------------------------------------------------------------------------------
def run_stage(ctx):
    rng = random.Random(ctx.seed * 7919 + 17)
    np.random.seed(ctx.seed)
    t00 = time.time()
    fixed = tree_fixed_switches()
    exported = tlc_jobs(ctx, fixed)
    t_tlc = time.time()
    if len(exported['op']) < 100 or len(exported['sp']) < 40 or len(exported['cmp']) < 5000 or len(exported['hist']) < 1000:
        raise MachineryError('diag: export too small %r' % {k: len(v) for k, v in exported.items()})
    rec = Recorder()
    counts = {}
    counts['op'] = replay_ops(ctx, exported['op'], rec, rng)
    counts['sp'] = replay_spaces(ctx, exported['sp'], rec, rng)
    counts['cmp'] = replay_cmp(ctx, exported['cmp'], rec, rng)
    counts['hist'] = replay_hist(ctx, exported['hist'], rec, rng)
    counts['progress'] = drive_progress(ctx, rec, rng)
    counts['utils'] = drive_utils(ctx, rec, rng)
    counts['generic'] = drive_generic(ctx, rec, rng)
    counts['fixture'] = drive_fixture(ctx, rec, rng)
    t_run = time.time()
    rejected = validate(ctx, rec, 'diag')
    report(ctx, rec, rejected)
    ctx.extra['diag_wall'] = {'tlc': round(t_tlc - t00, 1), 'real-runs': round(t_run - t_tlc, 1), 'trace': round(time.time() - t_run, 1)}
    if os.environ.get('DIAG_DEBUG_DUMP'):
        with open(os.environ['DIAG_DEBUG_DUMP'], 'w') as f:
            f.write(json.dumps({'event': {'fn': 'timing'}, 'meta': dict(ctx.extra['diag_wall'], counts=counts, n=len(rec.events)), 'clauses': []}) + '\n')
            for eid, cl in sorted(rejected.items()):
                f.write(json.dumps({'event': rec.events[eid - 1], 'meta': rec.meta[eid], 'clauses': cl}, default=str) + '\n')
    # cross-check of the two directions: a replayed case whose observation differs from the exported expectation must be
    # rejected by the trace specification and vice versa (the same layer-A operators decide both)
    for ev in rec.events:
        meta = rec.meta[ev['id']]
        if ev['fn'] in ('optest', 'sptest') and 'exp' in meta and 'scale' not in meta.get('conc', {}):
            differs = ev['obs'] != meta['exp'] or ev['exc'] != ''
            if differs != (ev['id'] in rejected):
                raise MachineryError('diag: export replay and trace validation disagree on event %d' % ev['id'])
    ctx.extra['diag_counts'] = counts
    ctx.extra['diag_rejected_events'] = len(rejected)
    ctx.assumptions += [
        'diag: a sample tuple with a zero denominator has no documented error and never counts as a failure',
        'diag: the verdict table only contains planted defects whose error is 0, <= tol/4 or >= 4 tol on every drawn sample (TLC invariant); '
        'events whose samples come near the tolerance (run_tests re-estimates the norm) are accepted without a verdict',
        'diag: all_equal / all_almost_equal: scalar against sequence, arrays of different broadcastable shapes and strings are '
        'undocumented: unconstrained; "not almost equal" may be reported by False or by an exception',
        'diag: dtype_ndigits with string dtype spellings is not documented: not exercised',
        'diag: all_almost_equal default digits when a plain sequence meets an array-like: entries of ODL tensors are Python floats '
        '(dtype lost), NumPy scalars keep it - both readings of "minimum dtype_ndigits of the two objects" are accepted',
        'diag: ProgressBar: an update that does not move forward by more than 0.1 % may or may not redraw; a tie in the '
        'percentage rounding may go either way',
        'diag: fail_counter with zero failures: only "nothing on stdout except through the logger" is required, the text of the '
        'completion message is not',
        'diag: defects of toy spaces are only pinned for the SpaceTest group that draws samples seeing them; other groups are '
        'not part of the table',
    ]


def replay(body):
    ev = body['detail']['event']
    print(json.dumps({'event': ev, 'clauses': body['detail'].get('clauses')})[:2000])
    return 0

"""EXT/normalize - argument normalisation and small pure utilities of odl/util.

Specification: spec/sem/NormSem.tla (layer A, from the docstrings of odl/util/normalize.py, utility.py, numerics.py),
spec/mach/NormMachine.tla (layer B: the case machine with the laws as invariants; history machines for
writable_array, npy_random_seed, npy_printoptions and cache_arguments), spec/impl/NormImpl.tla (layer C: the
decision trees of the normalisers transcribed as written), spec/trace/Trace_Norm.tla (layer D).

Pipeline of `run_stage`:
  1. TLC: one job per argument space (axes / index / nob / spl / misc / num): laws of the reference, C refines A with
     the repair switches of all open findings on, export of every case with the outcomes the documentation allows
     and with what the transcribed CURRENT code does (leaf); the current code without the switches has to be
     refuted while a finding is open; history machines (laws + export); a bogus law has to be refuted.
  2. spec -> code: EVERY exported case (= every transition of the transcribed decision trees on the bounded
     argument space) is executed on the real function under rotating spellings (list / tuple / ndarray, Python and
     NumPy scalars, positional / keyword, memory layouts, dtypes); every exported history state is executed on real
     objects (lists, arrays, views, ODL elements; the global NumPy state; a cache_arguments-wrapped function).
     Observations that are not literally the exported expectation are handed to Trace_Norm: TLC decides.
  3. consumers (derived objects): public entry points that pass user input through the helpers are built with every
     spelling and with the normalised spelling; the objects have to be equal.
  4. code -> spec: docstring examples and seeded random calls beyond the TLC constants (more axes, longer
     sequences, larger shapes, longer histories) are recorded as events and validated by Trace_Norm.
Python never decides a value: it builds objects, projects observations and moves JSON.
"""
import itertools
import json
import os
import random
import re
import warnings
from concurrent.futures import ThreadPoolExecutor
from fractions import Fraction

import numpy as np

from ..tlc import run_tlc, parse_fails
from ..common import MachineryError, dumps

STANDALONE = True
STAGE = 'normalize'
NONE = 99
ANYTOK = {'k': 'any', 'v': 0}
INTERNAL = ('NameError', 'UnboundLocalError')
# repair switches already applied in the tree under test, as letters for MC_Norm (layer C mirrors the CURRENT code):
#   i index-neg-oob   n nob-badlen   s spl-str-split   z aob-size1
FIXED_IN_TREE = 'inz'
GROUPS = ('axes', 'index', 'nob', 'spl', 'misc', 'num')
CORRUPT_ID = 999999999


# ------------------------------------------------------------------ abstract values
def V(k, v):
    return {'k': k, 'v': v}


VNONE = V('none', 0)


def VI(i):
    return V('int', int(i))


def fr_of(x):
    return Fraction(x[0], x[1])


class Pick(object):
    """Deterministic rotation through the spellings of one abstract argument."""

    def __init__(self, base):
        self.k = (int(base) * 2654435761 + 40503) & 0x7fffffff
        self.used = []

    def __call__(self, options, tag=None):
        # a linear congruential step per choice: consecutive choices over option lists of different lengths are not
        # correlated (a plain counter modulo the list length never produces some combinations)
        self.k = (self.k * 1103515245 + 12345) & 0x7fffffff
        o = options[(self.k >> 9) % len(options)]
        if tag:
            self.used.append('%s=%s' % (tag, getattr(o, '__name__', o)))
        return o


def kinds(items):
    return set(i['k'] for i in items)


def spell(v, pick, arrays=True, npscalars=True, inner_lists=False, _depth=0):
    """abstract value -> one concrete Python object (inner_lists: nested sequences stay Python lists)"""
    k, x = v['k'], v['v']
    if k == 'none':
        return None
    if k == 'bool':
        return bool(x)
    if k == 'npbool':
        return np.bool_(bool(x))
    if k == 'int':
        if not npscalars:
            return int(x)
        opts = [int, np.int64, np.int32, int, np.intp]
        if -128 <= x < 128:
            opts.append(np.int8)
        return pick(opts, 'int')(x)
    if k == 'float':
        f = float(fr_of(x))
        if not npscalars:
            return f
        return pick([float, np.float64, float], 'float')(f)
    if k == 'str':
        return ''.join(x)
    if k == 'arr0':
        return np.array(spell(x, pick, npscalars=False))
    if k == 'gen':
        items = [spell(i, pick, arrays) for i in x]
        return (i for i in items)
    if k == 'slice':
        return slice(*[None if t == NONE else int(t) for t in x])
    if k == 'ell':
        return Ellipsis
    if k in ('list', 'tuple'):
        ks = kinds(x)
        cont = [list, tuple]
        if inner_lists and _depth > 0:
            return [spell(i, pick, False, npscalars, True, _depth + 1) for i in x]
        if arrays and len(x) >= 1:
            if ks == {'int'}:
                cont += ['i8', 'i4']
            elif ks == {'float'}:
                cont += ['f8']
            elif ks == {'npbool'}:
                cont += ['b1']
            elif ks == {'list'} and all(len(i['v']) == 2 and kinds(i['v']) == {'npbool'} for i in x):
                cont += ['b2']
        c = pick(cont, 'seq')
        if c == 'i8':
            return np.array([i['v'] for i in x], dtype='int64')
        if c == 'i4':
            return np.array([i['v'] for i in x], dtype='int32')
        if c == 'f8':
            return np.array([float(fr_of(i['v'])) for i in x], dtype='float64')
        if c == 'b1':
            return np.array([bool(i['v']) for i in x], dtype=bool)
        if c == 'b2':
            return np.array([[bool(j['v']) for j in i['v']] for i in x], dtype=bool)
        return c(spell(i, pick, arrays, npscalars, inner_lists, _depth + 1) for i in x)
    raise MachineryError('cannot spell %r' % (v,))


def num_ok(fr):
    return abs(fr.numerator) < 2 ** 30 and fr.denominator < 2 ** 20


def proj(o, gen_in=None, gen_abs=None):
    """concrete Python object -> abstract value (results)"""
    if o is None:
        return VNONE
    if isinstance(o, bool):
        return V('bool', int(o))
    if isinstance(o, np.bool_):
        return V('npbool', int(o))
    if isinstance(o, (int, np.integer)):
        return VI(o) if abs(int(o)) < 2 ** 30 else V('other', 'bigint')
    if isinstance(o, (float, np.floating)):
        f = float(o)
        if f != f or f in (float('inf'), float('-inf')):
            return V('other', 'nonfinite')
        fr = Fraction(f)
        return V('float', [fr.numerator, fr.denominator]) if num_ok(fr) else V('other', 'float')
    if isinstance(o, str):
        return V('str', list(o))
    if isinstance(o, list):
        return V('list', [proj(i, gen_in, gen_abs) for i in o])
    if isinstance(o, tuple):
        return V('tuple', [proj(i, gen_in, gen_abs) for i in o])
    if isinstance(o, np.ndarray):
        if o.ndim == 0:
            return V('arr0', proj(o[()], gen_in, gen_abs))
        return V('list', [proj(i, gen_in, gen_abs) for i in o])
    if isinstance(o, slice):
        parts = []
        for t in (o.start, o.stop, o.step):
            if t is None:
                parts.append(NONE)
            elif isinstance(t, (int, np.integer)) and not isinstance(t, (bool, np.bool_)) and abs(int(t)) < 90:
                parts.append(int(t))
            else:
                return V('other', 'slice')
        return V('slice', parts)
    if o is Ellipsis:
        return V('ell', 0)
    if isinstance(o, np.dtype):
        return V('dtype', [dtype_base_name(o.base), [int(s) for s in o.shape]])
    if gen_in is not None and o is gen_in:
        return gen_abs
    return V('other', type(o).__name__)


def unbox(v):
    """a 0-d array and its entry are equal as list entries"""
    if v['k'] == 'arr0':
        return unbox(v['v'])
    if v['k'] in ('list', 'tuple'):
        return V(v['k'], [unbox(i) for i in v['v']])
    return v


def absin(o, gen_items=None):
    """concrete INPUT -> abstract value: every Python sequence (list / tuple / ndarray) is the kind "list" """
    p = proj(o)

    def fix(v):
        if v['k'] == 'tuple':
            return V('list', [fix(i) for i in v['v']])
        if v['k'] == 'list':
            return V('list', [fix(i) for i in v['v']])
        if v['k'] == 'arr0':
            return V('arr0', fix(v['v']))
        return v
    if gen_items is not None:
        return V('gen', [fix(proj(i)) for i in gen_items])
    return fix(p)


def outcome(fn, *args, **kw):
    post = kw.pop('_post', None)
    try:
        with warnings.catch_warnings():
            warnings.simplefilter('ignore')
            r = fn(*args, **kw)
    except Exception as ex:                                   # the class of the exception is the observation
        return V('err', type(ex).__name__), None
    return V('ok', post(r) if post else proj(r)), r


# ------------------------------------------------------------------ dtype spellings
DT_NAMES = {'bytes': 'S3', 'str': 'U2', 'datetime64': 'datetime64[s]', 'timedelta64': 'timedelta64[s]'}
PY_TYPES = {'float64': float, 'int64': int, 'complex128': complex, 'bool': bool, 'object': object}


def dtype_base_name(dt):
    n = dt.name
    for pre in ('bytes', 'str', 'datetime64', 'timedelta64'):
        if n.startswith(pre):
            return pre
    return n


def spell_dtype(base, shape, pick):
    name = DT_NAMES.get(base, base)
    opts = [name, np.dtype(name)]
    if base in PY_TYPES:
        opts.append(PY_TYPES[base])
    if base not in DT_NAMES and hasattr(np, base):
        opts.append(getattr(np, base))
    if base not in DT_NAMES and base != 'object':
        opts.append(np.dtype(name).str)                     # '<f4'
    b = pick(opts, 'dtype')
    if not shape:
        return b
    shp = tuple(shape)
    how = pick(['tuple', 'dtype', 'tuple-int'] if len(shp) == 1 else ['tuple', 'dtype'], 'shaped')
    if how == 'dtype':
        return np.dtype((b, shp))
    if how == 'tuple-int':
        return (b, shp[0])
    return (b, shp)


# ------------------------------------------------------------------ the calls
FUNCS = {'x2': lambda x: x * 2, 'x3': lambda x: x * 3, 'p1': lambda x: x + 1, 'm1': lambda x: x - 1, 'none': None}


def myconv(x):
    return False if x is None else bool(x)


def make_call(fn, a, pick):
    """-> (outcome, extras, description of the concrete call)"""
    import odl
    from odl.util import normalize as N, utility as U, numerics as M
    x = {}
    kwstyle = pick([0, 1, 2], 'kw')
    if fn == 'axes':
        arrays = a['axes']['k'] == 'list' and kinds(a['axes']['v']) <= {'int'}
        axes = spell(a['axes'], pick, arrays=arrays)
        ndim = spell(a['ndim'], pick)
        desc = 'normalized_axes_tuple(%r, %r)' % (axes, ndim)
        if kwstyle == 0:
            o, _ = outcome(N.normalized_axes_tuple, axes, ndim)
        elif kwstyle == 1:
            o, _ = outcome(N.normalized_axes_tuple, axes, ndim=ndim)
        else:
            o, _ = outcome(N.normalized_axes_tuple, axes=axes, ndim=ndim)
        x['np'] = numpy_axes(spell(a['axes'], Pick(0), arrays=False, npscalars=False), a['ndim']['v'])
        return o, x, desc
    if fn == 'index':
        ind = spell(a['ind'], pick)
        shape = pick([tuple, list, lambda s: np.array(s, dtype=int)], 'shape')(a['shape'])
        i2s = pick([bool, np.bool_, bool], 'i2s')(a['i2s'])
        desc = 'normalized_index_expression(%r, %r, int_to_slice=%r)' % (ind, shape, i2s)
        if kwstyle == 0 and a['i2s'] == 0:
            o, r = outcome(N.normalized_index_expression, ind, shape)
        elif kwstyle == 1:
            o, r = outcome(N.normalized_index_expression, ind, shape, i2s)
        else:
            o, r = outcome(N.normalized_index_expression, ind, shape=shape, int_to_slice=i2s)
        # what NumPy itself selects with the caller's expression and with the normalised one
        n = int(np.prod(a['shape'])) if a['shape'] else 1
        arr = np.arange(n).reshape(tuple(a['shape']))
        ind2 = spell(a['ind'], Pick(0), arrays=False, npscalars=False)
        x['sin'] = flat_sel(arr, tuple(ind2) if isinstance(ind2, list) else ind2)
        x['sout'] = flat_sel(arr, r) if o['k'] == 'ok' and isinstance(r, tuple) else [-1]
        return o, x, desc
    if fn == 'nob':
        nob = spell(a['nob'], pick)
        length = spell(a['length'], pick)
        desc = 'normalized_nodes_on_bdry(%r, %r)' % (nob, length)
        if kwstyle == 0:
            o, _ = outcome(N.normalized_nodes_on_bdry, nob, length)
        elif kwstyle == 1:
            o, _ = outcome(N.normalized_nodes_on_bdry, nob, length=length)
        else:
            o, _ = outcome(N.normalized_nodes_on_bdry, nodes_on_bdry=nob, length=length)
        return o, x, desc
    if fn == 'spl':
        param = spell(a['param'], pick, inner_lists=True)
        length = spell(a['length'], pick)
        conv = {'none': None, 'int': int, 'float': float, 'myconv': myconv, 'safeint': N.safe_int_conv}[a['conv']]
        keep = pick([bool, np.bool_, bool], 'keep')(a['keep'])
        ret = bool(a['ret'])
        desc = 'normalized_scalar_param_list(%r, %r, param_conv=%s, keep_none=%r, return_nonconv=%r)' % (
            param, length, a['conv'], keep, ret)
        gabs = a['param'] if a['param']['k'] == 'gen' else None
        post = lambda r: unbox(proj(r, param if gabs else None, gabs))     # noqa: E731
        if kwstyle == 0 and a['keep'] == 1 and not ret:
            if conv is None:
                o, _ = outcome(N.normalized_scalar_param_list, param, length, _post=post)
            else:
                o, _ = outcome(N.normalized_scalar_param_list, param, length, conv, _post=post)
        elif kwstyle == 1:
            o, _ = outcome(N.normalized_scalar_param_list, param, length, conv, keep, ret, _post=post)
        else:
            o, _ = outcome(N.normalized_scalar_param_list, param, length=length, param_conv=conv, keep_none=keep,
                           return_nonconv=ret, _post=post)
        return o, x, desc
    if fn == 'sic':
        v = spell(a['x'], pick)
        o, _ = outcome(N.safe_int_conv, v)
        return o, x, 'safe_int_conv(%r)' % (v,)
    if fn == 'dtype':
        f = getattr(U, a['f'])
        dt = spell_dtype(a['base'], a['shape'], pick)
        desc = '%s(%r' % (a['f'], dt)

        def post(r):
            if isinstance(r, (bool, np.bool_)):
                return V('bool', int(bool(r)))
            if isinstance(r, str) and a['f'] in ('dtype_str', 'dtype_repr'):
                return V('text', r)
            return proj(r)
        if a['f'] in ('real_dtype', 'complex_dtype'):
            dflt = spell(a['dflt'], pick, npscalars=False)
            desc += ', default=%r)' % (dflt,)
            if a['dflt']['k'] == 'none' and kwstyle == 0:
                o, _ = outcome(f, dt, _post=post)
            elif kwstyle == 1:
                o, _ = outcome(f, dt, dflt, _post=post)
            else:
                o, _ = outcome(f, dt, default=dflt, _post=post)
            return o, x, desc
        # the predicates are cached (cache_arguments): ask twice, the second answer comes from the cache
        o, _ = outcome(f, dt, _post=post)
        o2, _ = outcome(f, dt, _post=post)
        if o2 != o:
            o = V('ok', V('other', 'cached-answer-differs'))
        return o, x, desc + ')'
    if fn == 'unique':
        # NumPy scalars compare elementwise with lists (np.int64(1) == [1] is an array): only in all-number sequences
        plain = a['seq']['k'] == 'list' and kinds(a['seq']['v']) <= {'int', 'float', 'bool'}
        s = spell(a['seq'], pick, arrays=plain, npscalars=plain, inner_lists=True)
        o, _ = outcome(U.unique, s)
        return o, x, 'unique(%r)' % (s,)
    if fn in ('indent', 'dedent'):
        text = '\n'.join(''.join(ln) for ln in a['lines'])
        ind = ''.join(a['ind'])

        def post(r):
            if not isinstance(r, str):
                return proj(r)
            return V('list', [V('str', list(ln)) for ln in r.split('\n')] if r else [])   # '' = no line at all
        if fn == 'indent':
            if kwstyle == 0:
                o, _ = outcome(U.indent, text, ind, _post=post)
            else:
                o, _ = outcome(U.indent, text, indent_str=ind, _post=post)
            return o, x, 'indent(%r, %r)' % (text, ind)
        mx = None if a['maxlv'] == NONE else a['maxlv']
        if kwstyle == 0:
            o, _ = outcome(U.dedent, text, ind, mx, _post=post)
        else:
            o, _ = outcome(U.dedent, text, indent_str=ind, max_levels=mx, _post=post)
        return o, x, 'dedent(%r, %r, max_levels=%r)' % (text, ind, mx)
    if fn in ('arrstr1', 'arrstr2'):
        data = a['row'] if fn == 'arrstr1' else a['rows']
        arr = pick([lambda d: np.array(d, dtype='int64'), lambda d: np.array(d, dtype='int32'), list,
                    lambda d: np.array(d, dtype='int64')], 'array')(data)
        if isinstance(arr, list) and fn == 'arrstr1' and not arr:
            arr = np.array([], dtype='int64')
        if kwstyle == 0:
            o, _ = outcome(U.array_str, arr, a['nprint'], _post=parse_array_str)
        else:
            o, _ = outcome(U.array_str, arr, nprint=a['nprint'], _post=parse_array_str)
        return o, x, 'array_str(%s, nprint=%d)' % (repr(arr).replace('\n', ''), a['nprint'])
    if fn == 'isstr':
        v = spell(a['x'], pick)
        if isinstance(v, str) and pick([0, 1], 'np-str'):
            v = np.str_(v)
        o, _ = outcome(U.is_string, v, _post=lambda r: V('bool', int(r)) if isinstance(r, (bool, np.bool_)) else proj(r))
        return o, x, 'is_string(%r)' % (v,)
    if fn == 'sigstr':
        import ast
        pos = pick([list, tuple], 'pos-cont')([ast.literal_eval(t) for t in a['pos']])
        opt = pick([list, tuple], 'opt-cont')([pick([tuple, list], 'opt-entry')((n, ast.literal_eval(v), ast.literal_eval(d)))
                                              for n, v, d in a['opt']])
        sep = a['sep'][0] if len(a['sep']) == 1 else pick([tuple, list], 'sep-cont')(a['sep'])
        post = lambda r: V('text', r) if isinstance(r, str) else proj(r)     # noqa: E731
        desc = 'signature_string(%r, %r, sep=%r)' % (pos, opt, sep)
        if a['sep'] == [', '] and kwstyle == 0:
            o, _ = outcome(U.signature_string, pos, opt, _post=post)
        elif kwstyle == 1:
            o, _ = outcome(U.signature_string, pos, opt, sep, _post=post)
        else:
            o, _ = outcome(U.signature_string, posargs=pos, optargs=opt, sep=sep, _post=post)
        return o, x, desc
    if fn == 'aob':
        return call_aob(a, pick, M)
    if fn == 'f1d':
        return call_f1d(a, pick, M)
    raise MachineryError('unknown function %r' % fn)


def numpy_axes(axes, ndim):
    """NumPy's own normalisation of an axis argument; [-1] if NumPy rejects it"""
    try:
        from numpy.core.numeric import normalize_axis_tuple
    except ImportError:                                        # NumPy 2
        from numpy.lib.array_utils import normalize_axis_tuple
    try:
        if not isinstance(axes, (int, list, tuple)) or isinstance(axes, bool) or \
                (not isinstance(axes, int) and any(not isinstance(t, int) or isinstance(t, bool) for t in axes)):
            return [-1]
        return [int(t) for t in normalize_axis_tuple(axes, ndim)]
    except Exception:
        return [-1]


def flat_sel(arr, idx):
    try:
        with warnings.catch_warnings():
            warnings.simplefilter('ignore')
            r = arr[idx]
    except Exception:
        return [-1]
    return [int(v) for v in np.asarray(r).ravel()]


def parse_array_str(s):
    """'[[0, 1, ..., 5], ..., [..]]' -> nested token list, -1 for '...'"""
    if not isinstance(s, str):
        return proj(s)
    t = s.replace('...', '-1')
    try:
        j = json.loads(t)
    except ValueError:
        return V('other', 'unparsable')

    def conv(n, depth):
        if isinstance(n, list):
            return V('list', [conv(i, depth + 1) for i in n])
        if depth == 1 and isinstance(j, list) and any(isinstance(q, list) for q in j):
            return V('list', [VI(n)])                       # the row ellipsis of a 2-d array
        return VI(n)
    return conv(j, 0)


def int_array_post(shape):
    def post(r):
        if not isinstance(r, np.ndarray) or r.shape != tuple(shape):
            return V('other', 'shape')
        flat = r.ravel(order='C')
        out = []
        for v in flat:
            f = float(np.real(v))
            if f != int(f) or (np.iscomplexobj(r) and float(np.imag(v)) != 0):
                return V('other', 'off-lattice')
            out.append(VI(int(f)))
        return V('list', out)
    return post


def build_array(shape, vals, pick):
    dt = pick(['float64', 'int64', 'float32', 'float64', 'complex128'], 'dtype')
    lay = pick(['C', 'F', 'view', 'C'], 'layout')
    base = np.array(vals, dtype=dt).reshape(tuple(shape))
    if lay == 'F':
        arr = np.asfortranarray(base)
    elif lay == 'view' and len(shape) >= 1:
        big = np.zeros(tuple(2 * s for s in shape), dtype=dt)
        arr = big[tuple(slice(None, None, 2) for _ in shape)]
        arr[...] = base
    else:
        arr = base
    return arr, dt, lay


def call_aob(a, pick, M):
    shape, nd = a['shape'], len(a['shape'])
    arr, dt, lay = build_array(shape, a['vals'], pick)
    before = arr.copy()
    funcs = a['funcs']
    # spelling of func: one callable / per-axis callables / per-axis 2-tuples
    if len(funcs) == nd and len(set(map(tuple, funcs))) == 1 and funcs[0][0] == funcs[0][1] and funcs[0][0] != 'none' \
            and pick([0, 1], 'func-single'):
        func = FUNCS[funcs[0][0]]
    else:
        func = []
        for fl, fr in funcs:
            if fl == fr and pick([0, 1], 'func-pair'):
                func.append(FUNCS[fl])
            else:
                func.append(pick([tuple, list], 'func-cont')((FUNCS[fl], FUNCS[fr])))
        func = pick([list, tuple], 'funcs-cont')(func)
    which = a['which']
    if len(which) == nd and all(tuple(w) == (1, 1) for w in which) and pick([0, 1], 'which-none'):
        wb = None
    else:
        wb = []
        for wl, wr in which:
            if wl == wr and pick([0, 1], 'which-pair'):
                wb.append(pick([bool, np.bool_], 'which-bool')(wl))
            else:
                wb.append(pick([tuple, list], 'which-cont')((bool(wl), bool(wr))))
        wb = pick([list, tuple], 'whichs-cont')(wb)
    order = [o - 1 for o in a['order']]
    if order == list(range(nd)) and pick([0, 1], 'order-none'):
        ao = None
    else:
        ao = pick([list, tuple, lambda s: np.array(s, dtype=int)], 'order-cont')(order)
    outk = pick(['none', 'new', 'self', 'none'], 'out')
    out = None if outk == 'none' else (arr if outk == 'self' else np.full(arr.shape, -77, dtype=arr.dtype))
    once = pick([bool, np.bool_], 'once')(a['once'])
    kw = {}
    if wb is not None or pick([0, 1]):
        kw['which_boundaries'] = wb
    if ao is not None or pick([0, 1]):
        kw['axis_order'] = ao
    if out is not None:
        kw['out'] = out
    post = int_array_post(shape)
    o, r = outcome(M.apply_on_boundary, arr, func, once, _post=post, **kw) if pick([0, 1], 'once-pos') else \
        outcome(M.apply_on_boundary, arr, func, only_once=once, _post=post, **kw)
    if o['k'] == 'ok':
        if out is not None and r is not out:
            o = V('ok', V('other', 'result-is-not-out'))
        elif outk != 'self' and not np.array_equal(arr, before):
            o = V('ok', V('other', 'input-modified'))
        elif out is None and np.shares_memory(r, arr):
            o = V('ok', V('other', 'result-shares-memory-with-input'))
    desc = 'apply_on_boundary(%s %s %s, funcs=%s, only_once=%r, which_boundaries=%r, axis_order=%r, out=%s)' % (
        dt, lay, shape, funcs, once, wb, ao, outk)
    return o, {}, desc


def call_f1d(a, pick, M):
    shape = a['shape']
    arr, dt, lay = build_array(shape, a['vals'], pick)
    before = arr.copy()
    vecs = []
    for v in a['vecs']:
        how = pick(['list', 'array', 'column', 'f32', 'array'], 'vec')
        if how == 'list':
            vecs.append(list(v))
        elif how == 'column':
            vecs.append(np.array(v, dtype=float).reshape(-1, 1))
        elif how == 'f32':
            vecs.append(np.array(v, dtype='float32'))
        else:
            vecs.append(np.array(v, dtype=float))
    vecs = pick([list, tuple], 'vecs-cont')(vecs)
    if a['axes'] == [NONE]:
        ax = None
    else:
        ax = pick([list, tuple, lambda s: np.array(s, dtype=int)], 'axes-cont')(a['axes'])
    outk = pick(['none', 'new', 'self', 'none'], 'out')
    if dt == 'int64':
        outk = 'none' if outk == 'self' else outk        # an integer `out` cannot take a float factor: not documented
    out = None if outk == 'none' else (arr if outk == 'self' else np.full(arr.shape, -77, dtype=float if dt == 'int64' else arr.dtype))
    if dt == 'int64' and out is None:
        arr = arr.astype(float)
        before = arr.copy()
    kw = {}
    if ax is not None or pick([0, 1]):
        kw['axes'] = ax
    if out is not None:
        kw['out'] = out
    o, r = outcome(M.fast_1d_tensor_mult, arr, vecs, _post=int_array_post(shape), **kw)
    if o['k'] == 'ok':
        if out is not None and r is not out:
            o = V('ok', V('other', 'result-is-not-out'))
        elif outk != 'self' and not np.array_equal(arr, before):
            o = V('ok', V('other', 'input-modified'))
    return o, {}, 'fast_1d_tensor_mult(%s %s %s, vecs=%r, axes=%r, out=%s)' % (dt, lay, shape, a['vecs'], ax, outk)


# ------------------------------------------------------------------ literal pre-filter (TLC decides on what it flags)
def literally_allowed(o, allow):
    if allow == [ANYTOK]:
        return True
    if o['k'] == 'ok':
        return o in allow
    for al in allow:
        if al['k'] == 'err' and (al['v'] == o['v'] or (al['v'] == '*' and o['v'] not in INTERNAL)):
            return True
    return False


def sig_of(fn, cell, clause):
    return {'stage': STAGE, 'fn': fn, 'cell': cell, 'clause': clause}


# ------------------------------------------------------------------ replay of the exported cases
SUSPECT_CAP = 24          # suspects per (function, documentation cell, kind of outcome) handed to TLC


def replay_cases(path, seed, variants, events, stats):
    """every exported case under `variants` spellings; returns suspects [(event, detail)] for TLC"""
    suspects = []
    fam = stats.setdefault('suspect_families', {})
    with open(path) as f:
        for ln, line in enumerate(f):
            case = json.loads(line)
            fn, a, allow, c = case['fn'], case['a'], case['allow'], case['c']
            if not case['cur']:
                stats['cur_refuted'] = stats.get('cur_refuted', 0) + 1
            for var in range(variants):
                pick = Pick(seed * 7919 + ln * 31 + var * 101)
                o, x, desc = make_call(fn, a, pick)
                stats['n'] += 1
                key = (fn, c['leaf'], case['cell'], o['k'])
                stats['leaves'][key] = stats['leaves'].get(key, 0) + 1
                ok = literally_allowed(o, allow)
                if ok and fn == 'index' and o['k'] == 'ok' and allow != [ANYTOK]:
                    ok = x['sout'] == x['sin'] or x['sin'] == [-1]
                if ok and fn == 'axes' and o['k'] == 'ok' and allow != [ANYTOK] and x['np'] != [-1]:
                    ok = [t['v'] for t in o['v']['v']] == x['np']
                ev = {'id': 0, 'fn': fn, 'a': a, 'o': o, 'x': x or {'n': 0}}
                if not ok:
                    fk = '%s|%s|%s' % (fn, case['cell'], o['v'] if o['k'] == 'err' else o['k'])
                    fam[fk] = fam.get(fk, 0) + 1
                    if fam[fk] <= SUSPECT_CAP:
                        suspects.append((ev, {'case': case, 'call': desc, 'spelling': pick.used, 'observed': o}))
                elif (ln + var) % 37 == 0:
                    events.append(ev)                        # a sample of the accepted ones is validated by TLC as well
                # layer C mirrors the current code: a disagreement that the documentation accepts is drift
                if ok and c['r']['k'] != 'unmodelled' and c['r'] != o:
                    if not (fn == 'unique' or (c['r']['k'] == 'err' and o['k'] == 'err')):
                        dk = '%s|%s' % (fn, c['leaf'])
                        stats['drift'][dk] = stats['drift'].get(dk, 0) + 1
                        stats['drift_ex'].setdefault(dk, desc + ' -> ' + dumps(o))
    return suspects


# ------------------------------------------------------------------ history machines on real objects
class WaTarget(object):
    """one concretisation of the object handed to writable_array; mode alias / snap / either"""

    def __init__(self, name):
        import odl
        self.name = name
        self.kw = {}
        v = [1, 2]
        if name == 'list':
            self.mode, self.obj = 'wa-snap', list(v)
        elif name == 'ndarray':
            self.mode, self.obj = 'wa-alias', np.array(v, dtype=float)
        elif name == 'ndarray-int':
            self.mode, self.obj = 'wa-alias', np.array(v, dtype='int64')
        elif name == 'view':
            self.base = np.zeros(4)
            self.mode, self.obj = 'wa-alias', self.base[::2]
            self.obj[:] = v
        elif name == 'ndarray-samedtype-kw':
            self.mode, self.obj, self.kw = 'wa-alias', np.array(v, dtype=float), {'dtype': 'float64'}
        elif name == 'ndarray-cast':
            self.mode, self.obj, self.kw = 'wa-snap', np.array(v, dtype=float), {'dtype': 'float32'}
        elif name == 'ndarray-complex':
            self.mode, self.obj, self.kw = 'wa-snap', np.array(v, dtype=float), {'dtype': complex}
        elif name == 'view-cast':
            self.base = np.zeros(4)
            self.mode, self.obj, self.kw = 'wa-snap', self.base[::2], {'dtype': 'float32'}
            self.obj[:] = v
        elif name == 'pspace':
            self.mode, self.obj = 'wa-snap', odl.ProductSpace(odl.rn(1), 2).element([[1], [2]])
        elif name == 'rn':
            self.mode, self.obj = 'wa-either', odl.rn(2).element(v)
        elif name == 'discr':
            self.mode, self.obj = 'wa-either', odl.uniform_discr(0, 1, 2).element(v)
        elif name == 'cn-cast':
            self.mode, self.obj, self.kw = 'wa-either', odl.cn(2).element(v), {'dtype': complex}
        else:
            raise MachineryError(name)

    def values(self, o=None):
        o = self.obj if o is None else o
        flat = np.asarray(o).ravel()
        out = []
        for t in flat:
            f = float(np.real(t))
            out.append(int(f) if f == int(f) and float(np.imag(t)) == 0 else -999)
        return out


WA_MODE = {'list': 'wa-snap', 'ndarray': 'wa-alias', 'ndarray-int': 'wa-alias', 'view': 'wa-alias',
           'ndarray-samedtype-kw': 'wa-alias', 'ndarray-cast': 'wa-snap', 'ndarray-complex': 'wa-snap', 'view-cast': 'wa-snap',
           'pspace': 'wa-snap', 'rn': 'wa-either', 'discr': 'wa-either', 'cn-cast': 'wa-either'}
WA_TARGETS = list(WA_MODE)


def run_wa(target, hist):
    from odl.util import writable_array
    t = WaTarget(target)
    cms, arrs, exc = [], [], 0
    for act in hist:
        a = act['a']
        if a == 'enter':
            cm = writable_array(t.obj, **t.kw)
            arrs.append(cm.__enter__())
            cms.append(cm)
        elif a == 'mutarr':
            arr = arrs[act['i'] - 1]
            if act['f'] == 'x2':
                arr *= 2
            else:
                arr += 1
        elif a == 'mutobj':
            t.obj[0] = 7
        elif a == 'exit':
            cm = cms.pop()
            arrs.pop()
            cm.__exit__(None, None, None)
        elif a == 'raise':
            cm = cms.pop()
            arrs.pop()
            err = KeyError('raised inside the with block')
            try:
                swallowed = cm.__exit__(KeyError, err, None)
            except KeyError as ex:
                swallowed = ex is not err
            if not swallowed:
                exc += 1
    return t.mode, {'obj': t.values(), 'arrs': [t.values(x) for x in arrs], 'exc': exc}


RNG_SRC = (100, 0, 7, 5)
_RNG_TABLE = {}


def rng_table():
    if not _RNG_TABLE:
        for s in RNG_SRC:
            st = np.random.RandomState(s)
            for pos in range(16):
                _RNG_TABLE[float(st.random_sample())] = [s, pos]
    return _RNG_TABLE


def rng_token(x):
    return rng_table().get(float(x), [-1, -1])


def run_rng(hist, var=0):
    from odl.util import npy_random_seed
    saved = np.random.get_state()
    try:
        np.random.seed(100)
        cms, obs = [], []
        for act in hist:
            a = act['a']
            if a == 'enter':
                s = None if act['x'] == NONE else [int, np.int64, np.uint32][var % 3](act['x'])
                cm = npy_random_seed(s)
                cm.__enter__()
                cms.append(cm)
            elif a == 'draw':
                obs.append(rng_token(np.random.random_sample()))
            elif a == 'user':
                np.random.seed(act['x'])
            elif a == 'exit':
                cms.pop().__exit__(None, None, None)
            elif a == 'raise':
                err = KeyError('x')
                try:
                    cms.pop().__exit__(KeyError, err, None)
                except KeyError:
                    pass
        here = np.random.get_state()
        g = rng_token(np.random.random_sample())
        np.random.set_state(here)
        return {'g': g, 'obs': obs}
    finally:
        np.random.set_state(saved)


def run_po(hist, var=0):
    from odl.util import npy_printoptions
    saved = np.get_printoptions()
    try:
        np.set_printoptions(precision=8, threshold=1000)
        cms = []
        for act in hist:
            a = act['a']
            if a in ('enter', 'user'):
                kw = {}
                if act['x'][0] != NONE:
                    kw['precision'] = [int, np.int64][var % 2](act['x'][0]) if a == 'enter' else act['x'][0]
                if act['x'][1] != NONE:
                    kw['threshold'] = act['x'][1]
                if a == 'enter':
                    cm = npy_printoptions(**kw)
                    cm.__enter__()
                    cms.append(cm)
                else:
                    np.set_printoptions(**kw)
            elif a == 'exit':
                cms.pop().__exit__(None, None, None)
            elif a == 'raise':
                err = KeyError('x')
                try:
                    cms.pop().__exit__(KeyError, err, None)
                except KeyError:
                    pass
        po = np.get_printoptions()
        return {'g': [int(po['precision']), int(po['threshold'])]}
    finally:
        np.set_printoptions(**saved)


CACHE_BLOCK = 64          # the abstract cache holds 2 entries, functools.lru_cache() holds 128: one abstract entry = 64 real ones


def run_cache(hist):
    from odl.util import cache_arguments
    calls = []

    def echo(x):
        calls.append(x)
        return x
    wrapped = cache_arguments(echo)
    last = VNONE
    for act in hist:
        if act['a'] == 'clear':
            wrapped.cache_clear()
            del calls[:]
            last = VNONE
            continue
        xv = act['x']
        if xv['k'] == 'list':
            try:
                wrapped([1])
                last = V('ok', V('other', 'unhashable-accepted'))
            except TypeError:
                last = V('err', 'TypeError')
            continue
        res = []
        for j in range(CACHE_BLOCK):
            arg = xv['v'] + 10 * j if xv['k'] == 'int' else float(fr_of(xv['v'])) + 10 * j
            r = wrapped(x=arg) if act['kw'] else wrapped(arg)
            res.append(proj(r - 10 * j) if isinstance(r, (int, float)) else V('other', 'result'))
        last = V('ok', res[0]) if all(r == res[0] for r in res) else V('ok', V('other', 'block-not-uniform'))
    info = wrapped.cache_info()
    div = all(v % CACHE_BLOCK == 0 for v in (info.hits, info.misses, info.currsize)) and info.misses == len(calls)
    return {'hits': info.hits // CACHE_BLOCK if div else -1, 'misses': info.misses // CACHE_BLOCK if div else -1,
            'size': info.currsize // CACHE_BLOCK if div else -1, 'last': last}


def replay_hist(path, seed, stats, stride=1):
    """every exported history state on real objects -> suspects for TLC"""
    suspects, events = [], []
    fam = stats.setdefault('suspect_families', {})
    with open(path) as f:
        for ln, line in enumerate(f):
            st = json.loads(line)
            m, hist, exp = st['m'], st['hist'], st['st']
            if m == 'cases':
                continue
            if stride > 1 and (ln + seed) % stride and len(hist) > 3:
                continue
            runs = []
            if m in ('wa-alias', 'wa-snap'):
                want = {'obj': exp['obj'], 'arrs': st['arrs'], 'exc': exp['exc']}
                # rotate: two strict and one "either" concretisation per state
                strict = [t for t in WA_TARGETS if WA_MODE[t] == m]
                either = [t for t in WA_TARGETS if WA_MODE[t] == 'wa-either']
                chosen = [strict[(ln + seed + k) % len(strict)] for k in range(2)] + [either[(ln + seed) % len(either)]]
                for t in dict.fromkeys(chosen):
                    mode, got = run_wa(t, hist)
                    if mode == 'wa-either':
                        ok = got['obj'] in (exp['obj'], st['alt']) and got['exc'] == exp['exc']
                    else:
                        ok = got == want
                    runs.append((mode, got, ok, t))
            elif m == 'rng':
                got = run_rng(hist, ln + seed)
                runs.append((m, got, got == {'g': exp['g'], 'obs': exp['obs']}, 'global'))
            elif m == 'po':
                got = run_po(hist, ln + seed)
                runs.append((m, got, got == {'g': exp['g']}, 'global'))
            elif m == 'cache':
                got = run_cache(hist)
                want = {'hits': exp['hits'], 'misses': exp['misses'], 'size': len(exp['lru']), 'last': exp['last']}
                runs.append((m, got, got == want, 'echo'))
            for mode, got, ok, tname in runs:
                stats['n'] += 1
                key = ('hist', m, tname, hist[-1]['a'] if hist else 'init')
                stats['leaves'][key] = stats['leaves'].get(key, 0) + 1
                ev = {'id': 0, 'fn': 'hist', 'a': {'m': mode, 'hist': hist}, 'o': got, 'x': {'n': 0}}
                if not ok:
                    fk = 'hist|%s|%s|%s' % (m, tname, hist[-1]['a'] if hist else 'init')
                    fam[fk] = fam.get(fk, 0) + 1
                    if fam[fk] <= SUSPECT_CAP:
                        suspects.append((ev, {'state': st, 'target': tname, 'observed': got}))
                elif (ln % 23) == 0:
                    events.append(ev)
    return suspects, events


# ------------------------------------------------------------------ consumers (derived objects)
def norm_value(v):
    """the abstract normalised value -> the Python object a caller would write"""
    k = v['k']
    if k in ('list', 'tuple'):
        return (list if k == 'list' else tuple)(norm_value(i) for i in v['v'])
    return spell(v, Pick(0), arrays=False, npscalars=False)


def consumers(paths, seed, stats, thorough):
    """public entry points that route user input through the helpers: every accepted spelling has to give the SAME
    object as the normalised spelling.  Returns violations [(sig, detail)] (equality of real ODL objects)."""
    import odl
    out = []

    def check(name, fn, cell, build, spelled, normal, desc):
        stats['n'] += 1
        key = ('consumer', name, cell)
        stats['leaves'][key] = stats['leaves'].get(key, 0) + 1
        with warnings.catch_warnings():
            warnings.simplefilter('ignore')
            try:
                ref = build(normal)
            except Exception as ex:
                return                                         # the consumer rejects this configuration altogether
            try:
                got = build(spelled)
            except Exception as ex:
                out.append((dict(sig_of(fn, cell, 'consumer-raised'), consumer=name),
                            {'consumer': name, 'call': desc, 'raised': type(ex).__name__, 'normalised': repr(normal)}))
                return
            try:
                same = got == ref
                if isinstance(same, np.ndarray):
                    same = np.shape(got) == np.shape(ref) and bool(same.all())
                same = bool(same) and type(got) is type(ref)
            except Exception:
                same = False                                   # objects that cannot even be compared are not equal
            if not same:
                out.append((dict(sig_of(fn, cell, 'consumer-differs'), consumer=name),
                            {'consumer': name, 'call': desc, 'got': repr(got), 'normalised_gives': repr(ref)}))

    def reject(name, fn, cell, build, spelled, desc):
        """the documentation demands an error for this input: the consumer must not hand out an object"""
        stats['n'] += 1
        key = ('consumer', name, cell)
        stats['leaves'][key] = stats['leaves'].get(key, 0) + 1
        with warnings.catch_warnings():
            warnings.simplefilter('ignore')
            try:
                got = build(spelled)
            except Exception as ex:
                if type(ex).__name__ in INTERNAL:
                    out.append((dict(sig_of(fn, cell, 'error-class-internal'), consumer=name),
                                {'consumer': name, 'call': desc, 'raised': type(ex).__name__}))
                return
        out.append((dict(sig_of(fn, cell, 'no-error'), consumer=name), {'consumer': name, 'call': desc, 'got': repr(got)}))

    def only_ok(allow):
        return allow != [ANYTOK] and all(al['k'] == 'ok' for al in allow) and len(allow) == 1

    def only_err(allow):
        return allow != [ANYTOK] and all(al['k'] == 'err' for al in allow)

    import zlib
    step = 1 if thorough else 3

    def hsh(line):
        return zlib.crc32(line.encode()) + seed
    # ---- nodes_on_bdry: uniform_partition, uniform_discr, uniform_discr_fromdiscr
    with open(paths['nob']) as f:
        for ln, line in enumerate(f):
            case = json.loads(line)
            a = case['a']
            n = a['length']['v']
            h = hsh(line)
            # inputs the documentation rejects are never sub-sampled (finding families must not depend on the seed)
            rej = only_err(case['allow']) and case['cell'] == 'wrong-length' and a['nob']['k'] == 'list' \
                and all(i['k'] in ('bool', 'npbool') for i in a['nob']['v']) and len(a['nob']['v']) > 2
            if n < 1 or (h % step and not rej):
                continue
            lo, hi, shp = [0.0] * n, [1.0 + i for i in range(n)], [3 + i for i in range(n)]
            if n == 1 and (h // 7) % 2:
                lo, hi, shp = 0.0, 1.0, 3
            builders = {
                'uniform_partition': lambda nb: odl.uniform_partition(lo, hi, shp, nodes_on_bdry=nb),
                'uniform_discr': lambda nb: odl.uniform_discr(lo, hi, shp, nodes_on_bdry=nb),
                'uniform_grid': lambda nb: odl.uniform_grid(lo, hi, shp, nodes_on_bdry=nb),
                'uniform_discr_fromdiscr': lambda nb: odl.uniform_discr_fromdiscr(
                    odl.uniform_discr(lo, hi, shp), shape=shp, nodes_on_bdry=nb),
            }
            pick = Pick(seed * 13 + ln)
            sp = spell(a['nob'], pick, npscalars=False)
            for name in (list(builders) if rej else [list(builders)[(h // step) % len(builders)]]):
                desc = '%s(%r, %r, %r, nodes_on_bdry=%r)' % (name, lo, hi, shp, sp)
                if rej:
                    reject(name, 'nob', case['cell'], builders[name], sp, desc)
                elif only_ok(case['allow']):
                    check(name, 'nob', case['cell'], builders[name], sp, norm_value(case['allow'][0]['v']), desc)
    # ---- index expressions: RectPartition.__getitem__ (int_to_slice=True), RectGrid.__getitem__ (False)
    with open(paths['index']) as f:
        for ln, line in enumerate(f):
            case = json.loads(line)
            a = case['a']
            shp = a['shape']
            rej = only_err(case['allow']) and case['cell'].startswith('int-')
            if not shp or 0 in shp or (hsh(line) % (2 * step) and not rej) or a['ind']['k'] == 'list' and not a['ind']['v']:
                continue
            items = a['ind']['v'] if a['ind']['k'] == 'list' else [a['ind']]
            if any(i['k'] == 'slice' and i['v'][2] not in (NONE, 1, 2) for i in items):
                continue                                       # negative steps: grids must stay increasing
            part = odl.uniform_partition([0.0] * len(shp), [float(s) for s in shp], shp)
            name, obj = ('RectPartition.__getitem__', part) if a['i2s'] else ('RectGrid.__getitem__', part.grid)
            pick = Pick(seed * 17 + ln)
            sp = spell(a['ind'], pick, arrays=False)
            if isinstance(sp, list):
                sp = tuple(sp)                                 # a list means "index list along the first axis" there
            desc = '%s: uniform_partition(shape=%r)%s[%r]' % (name, shp, '' if a['i2s'] else '.grid', sp)
            if only_ok(case['allow']):
                nv = norm_value(case['allow'][0]['v'])
                if not a['i2s'] and all(isinstance(t, int) for t in nv):
                    continue                                   # all integers: a grid point (array), covered by geomsets
                check(name, 'index', case['cell'], lambda ix: obj[ix], sp, nv, desc)
            elif rej:
                reject(name, 'index', case['cell'], lambda ix: obj[ix], sp, desc)
    # ---- axes: DiscreteFourierTransform(axes=...), FourierTransform(axes=...)
    with open(paths['axes']) as f:
        for ln, line in enumerate(f):
            case = json.loads(line)
            a = case['a']
            nd = a['ndim']['v']
            h = hsh(line)
            if nd < 1 or nd > 3 or h % (2 * step) or not only_ok(case['allow']):
                continue
            nv = norm_value(case['allow'][0]['v'])
            if not nv or len(set(nv)) != len(nv):
                continue
            space = odl.uniform_discr([0.0] * nd, [1.0] * nd, [2 + i for i in range(nd)], dtype='complex64')
            pick = Pick(seed * 19 + ln)
            sp = spell(a['axes'], pick)
            name = ['DiscreteFourierTransform', 'FourierTransform'][(h // (2 * step)) % 2]
            if name == 'DiscreteFourierTransform':
                build = lambda ax: (lambda op: (op.axes, op.range.shape))(odl.trafos.DiscreteFourierTransform(space, axes=ax))
            else:
                build = lambda ax: (lambda op: (op.axes, op.range))(odl.trafos.FourierTransform(space, axes=ax))
            check(name, 'axes', case['cell'], build, sp, nv, '%s(%d-d space, axes=%r)' % (name, nd, sp))
    # ---- scalar parameter lists with safe_int_conv: ResizingOperator(offset=...), tensor spaces, uniform_partition
    with open(paths['spl']) as f:
        for ln, line in enumerate(f):
            case = json.loads(line)
            a = case['a']
            n = a['length']['v']
            if n < 1 or n > 3 or a['ret'] or hsh(line) % step or not only_ok(case['allow']):
                continue
            nv = norm_value(case['allow'][0]['v'])
            pick = Pick(seed * 23 + ln)
            sp = spell(a['param'], pick)
            if a['conv'] == 'safeint' and a['keep'] == 1 and all(t is None or 0 <= t <= 1 for t in nv):
                space = odl.uniform_discr([0.0] * n, [1.0] * n, [3] * n)
                build = lambda off: (lambda op: (op.offset, op.range))(
                    odl.ResizingOperator(space, ran_shp=[5] * n, offset=off))
                check('ResizingOperator', 'spl', case['cell'], build, sp, nv, 'ResizingOperator(%d-d, ran_shp=5.., offset=%r)' % (n, sp))
            if a['conv'] == 'safeint' and a['keep'] == 0 and all(isinstance(t, int) and 1 <= t <= 3 for t in nv):
                check('uniform_grid(shape)', 'spl', case['cell'],
                      lambda s: odl.uniform_grid([0.0] * n, [1.0] * n, s), sp, nv, 'uniform_grid(0.., 1.., shape=%r)' % (sp,))
                if n == len(nv) and a['param']['k'] == 'list':
                    check('rn(shape)', 'spl', case['cell'], lambda s: odl.rn(s), sp, tuple(nv), 'rn(%r)' % (sp,))
            pk = kinds(a['param']['v']) if a['param']['k'] == 'list' else {a['param']['k']}
            if a['conv'] == 'float' and all(isinstance(t, float) for t in nv) and pk <= {'int', 'float'}:
                check('uniform_partition(max_pt)', 'spl', case['cell'],
                      lambda mx: odl.uniform_partition([-1.0] * n, mx, [2] * n), sp, nv, 'uniform_partition(-1.., %r, 2..)' % (sp,))
    return out


# ------------------------------------------------------------------ code -> spec: docstring examples and random calls
def doc_examples():
    """the Examples sections, as (fn, concrete call) -> events; the expectation is NOT taken from the docstring text but
    from layer A evaluated by TLC on the abstracted arguments (the docstring and layer A have to agree as well)"""
    from odl.util import normalize as N
    ev = []

    def add(fn, a, o, x=None):
        ev.append({'id': 0, 'fn': fn, 'a': a, 'o': o, 'x': x or {'n': 0}})
    for param, length, conv, keep in [((1, 2, 3), 3, None, True), ((1, None, 3.0), 3, None, True), (1, 3, None, True),
                                      ('10', 3, None, True), (None, 3, None, True), (1, 3, float, True), ('10', 3, int, True),
                                      ((1, None, 3.0), 3, int, True), ((0, None, 3.0), 3, myconv, False)]:
        cname = {None: 'none', float: 'float', int: 'int', myconv: 'myconv'}[conv]
        o, _ = outcome(N.normalized_scalar_param_list, param, length, param_conv=conv, keep_none=keep)
        add('spl', {'param': absin(param), 'length': VI(length), 'conv': cname, 'keep': int(keep), 'ret': 0}, o)
    for idx, shape, i2s in [([1, 2, 3], (3, 4, 5), False), ([1, 2], (3, 4, 5), False), ([slice(2), 2], (3, 4, 5), False),
                            ([1, Ellipsis], (3, 4, 5), False), ([1, 2, 3], (3, 4, 5), True)]:
        o, r = outcome(N.normalized_index_expression, idx, shape=shape, int_to_slice=i2s)
        arr = np.arange(60).reshape(shape)
        add('index', {'ind': absin(idx), 'shape': list(shape), 'i2s': int(i2s)}, o,
            {'sin': flat_sel(arr, tuple(idx)), 'sout': flat_sel(arr, r)})
    for nob, length in [(True, 2), ([True, False], 2), ([[True, False], False, True], 3)]:
        o, _ = outcome(N.normalized_nodes_on_bdry, nob, length=length)
        add('nob', {'nob': absin(nob), 'length': VI(length)}, o)
    for axes, ndim in [([0, -1, 2], 3), (-3, 3)]:
        o, _ = outcome(N.normalized_axes_tuple, axes, ndim=ndim)
        add('axes', {'axes': absin(axes), 'ndim': VI(ndim)}, o, {'np': numpy_axes(axes, ndim)})
    return ev


def random_events(seed, n):
    """seeded calls beyond the TLC constants; the abstract arguments are the projection of the concrete ones"""
    from odl.util import normalize as N, utility as U, numerics as M
    rnd = random.Random(seed)
    ev = []

    def add(fn, a, o, x=None):
        ev.append({'id': 0, 'fn': fn, 'a': a, 'o': o, 'x': x or {'n': 0}})

    def rint(lo, hi):
        v = rnd.randint(lo, hi)
        return rnd.choice([int, np.int64, np.int16])(v)

    def rseq(items):
        c = rnd.choice(['list', 'tuple', 'array'])
        if c == 'array' and items and all(isinstance(i, (int, np.integer)) and not isinstance(i, bool) for i in items):
            return np.array([int(i) for i in items])
        return tuple(items) if c == 'tuple' else list(items)

    def rslice(nmax):
        g = lambda: rnd.choice([None] + list(range(-nmax - 2, nmax + 3)))          # noqa: E731
        return slice(g(), g(), rnd.choice([None, 1, 2, 3, -1, -2, -3]))
    for t in range(n):
        which = t % 8
        if which == 0:                                         # axes, up to 7 axes
            ndim = rnd.randint(1, 7)
            if rnd.random() < 0.25:
                axes = rint(-ndim - 1, ndim)
            else:
                k = rnd.randint(0, min(ndim, 5))
                pool = list(range(-ndim, ndim)) if rnd.random() < 0.8 else list(range(-ndim - 2, ndim + 2))
                axes = rseq([rint(v, v) for v in (rnd.sample(pool, k) if rnd.random() < 0.8 else [rnd.choice(pool) for _ in range(k)])])
            o, _ = outcome(N.normalized_axes_tuple, axes, ndim)
            plain = int(axes) if isinstance(axes, (int, np.integer)) else [int(t) for t in axes]
            add('axes', {'axes': absin(axes), 'ndim': VI(ndim)}, o, {'np': numpy_axes(plain, ndim)})
        elif which in (1, 2):                                  # index expressions on shapes up to 4 axes of size <= 6
            nd = rnd.randint(1, 4)
            shape = [rnd.randint(1, 6 if nd < 4 else 3) for _ in range(nd)]
            k = rnd.randint(0, nd + (1 if rnd.random() < 0.1 else 0))
            items = []
            for j in range(k):
                r = rnd.random()
                nmax = shape[min(j, nd - 1)]
                if r < 0.45:
                    items.append(rint(-nmax - (2 if rnd.random() < 0.2 else 0), nmax - 1 + (1 if rnd.random() < 0.1 else 0)))
                else:
                    items.append(rslice(nmax))
            if rnd.random() < 0.3:
                items.insert(rnd.randint(0, len(items)), Ellipsis)
            i2s = rnd.random() < 0.5
            ind = items[0] if len(items) == 1 and rnd.random() < 0.5 else rnd.choice([list, tuple])(items)
            o, r = outcome(N.normalized_index_expression, ind, rseq(shape), i2s)
            arr = np.arange(int(np.prod(shape))).reshape(shape)
            ind_np = tuple(ind) if isinstance(ind, list) else ind
            add('index', {'ind': absin(ind), 'shape': shape, 'i2s': int(i2s)}, o,
                {'sin': flat_sel(arr, ind_np), 'sout': flat_sel(arr, r) if o['k'] == 'ok' and isinstance(r, tuple) else [-1]})
        elif which == 3:                                       # nodes_on_bdry, up to 5 axes
            length = rnd.randint(1, 5)
            if rnd.random() < 0.15:
                nob = rnd.random() < 0.5
            else:
                k = length if rnd.random() < 0.85 else rnd.randint(0, 6)
                its = []
                for _ in range(k):
                    r = rnd.random()
                    b = lambda: rnd.choice([True, False, np.True_, np.False_])     # noqa: E731
                    its.append(b() if r < 0.5 else (rnd.choice([list, tuple])([b(), b()]) if r < 0.9 else [b(), b(), b()]))
                nob = rnd.choice([list, tuple])(its)
            o, _ = outcome(N.normalized_nodes_on_bdry, nob, length)
            add('nob', {'nob': absin(nob), 'length': VI(length)}, o)
        elif which == 4:                                       # scalar parameter lists, lengths up to 6
            length = rnd.randint(0, 6)
            pool = [1, 2, None, 2.5, 3.0, '4', np.int64(5), np.float64(1.5)]
            r = rnd.random()
            if r < 0.3:
                param = rnd.choice(pool + ['12', 'abc'])
            else:
                k = length if r < 0.9 else rnd.randint(0, 6)
                param = rnd.choice([list, tuple])([rnd.choice(pool) for _ in range(k)])
            cname = rnd.choice(['none', 'int', 'float', 'myconv', 'safeint'])
            conv = {'none': None, 'int': int, 'float': float, 'myconv': myconv, 'safeint': N.safe_int_conv}[cname]
            keep, ret = rnd.random() < 0.7, rnd.random() < 0.2
            o, _ = outcome(N.normalized_scalar_param_list, param, length, param_conv=conv, keep_none=keep, return_nonconv=ret)
            add('spl', {'param': absin(param), 'length': VI(length), 'conv': cname, 'keep': int(keep), 'ret': int(ret)}, o)
        elif which == 5:                                       # unique on longer sequences
            pool = [1, 2, 3, 1.0, 2.0, True, 'a', 'b', [1], [2], [1.0]]
            s = [rnd.choice(pool) for _ in range(rnd.randint(0, 9))]
            seq = rnd.choice([list, tuple])(s)
            o, _ = outcome(U.unique, seq)
            add('unique', {'seq': absin(seq)}, o)
        elif which == 6:                                       # apply_on_boundary up to 3 axes of size <= 4
            nd = rnd.randint(1, 3)
            shape = [rnd.randint(1, 4) for _ in range(nd)]
            toks = ['x2', 'x3', 'p1', 'none']
            a = {'shape': shape, 'vals': [rnd.randint(-3, 5) for _ in range(int(np.prod(shape)))],
                 'funcs': [[rnd.choice(toks[:3]), rnd.choice(toks)] for _ in range(nd)],
                 'which': [[rnd.randint(0, 1), rnd.randint(0, 1)] for _ in range(nd)],
                 'order': rnd.sample(range(1, nd + 1), nd), 'once': rnd.randint(0, 1)}
            o, _, _ = call_aob(a, Pick(rnd.randint(0, 10 ** 6)), M)
            add('aob', a, o)
        else:                                                  # fast_1d_tensor_mult up to 3 axes
            nd = rnd.randint(1, 3)
            shape = [rnd.randint(1, 4) for _ in range(nd)]
            k = rnd.randint(1, nd)
            axes = rnd.sample(range(nd), k)
            a = {'shape': shape, 'vals': [rnd.randint(-3, 5) for _ in range(int(np.prod(shape)))],
                 'vecs': [[rnd.randint(-2, 3) for _ in range(shape[ax])] for ax in axes],
                 'axes': [ax - (nd if rnd.random() < 0.4 else 0) for ax in axes]}
            if axes == list(range(nd - k, nd)) and rnd.random() < 0.5:
                a['axes'] = [NONE]
            o, _, _ = call_f1d(a, Pick(rnd.randint(0, 10 ** 6)), M)
            add('f1d', a, o)
    return ev


def random_hist_events(seed, n):
    """longer histories than the TLC instance on real objects, validated through Run() of NormMachine"""
    rnd = random.Random(seed + 1)
    ev = []
    for t in range(n):
        kind = ['wa', 'rng', 'po', 'cache'][t % 4]
        hist, depth = [], 0
        length = rnd.randint(6, 10)
        if kind == 'wa':
            target = rnd.choice(WA_TARGETS)
            for _ in range(length):
                opts = []
                if depth < 2:
                    opts.append({'a': 'enter', 'i': 0, 'f': ''})
                if depth > 0:
                    opts += [{'a': 'mutarr', 'i': rnd.randint(1, depth), 'f': rnd.choice(['x2', 'p1'])}] * 3
                    opts += [{'a': 'mutobj', 'i': 0, 'f': 'set7'}, {'a': 'exit', 'i': 0, 'f': ''}, {'a': 'exit', 'i': 0, 'f': ''},
                             {'a': 'raise', 'i': 0, 'f': ''}]
                act = rnd.choice(opts)
                depth += 1 if act['a'] == 'enter' else (-1 if act['a'] in ('exit', 'raise') else 0)
                hist.append(act)
            if sum(1 for h in hist if h['a'] == 'mutarr' and h['f'] == 'x2') > 8:
                continue
            mode, got = run_wa(target, hist)
            ev.append({'id': 0, 'fn': 'hist', 'a': {'m': mode, 'hist': hist}, 'o': got, 'x': {'n': 0}})
        elif kind in ('rng', 'po'):
            for _ in range(length):
                opts = []
                if depth < 2:
                    opts += [{'a': 'enter', 'x': x} for x in ([NONE, 0, 7] if kind == 'rng' else [[NONE, NONE], [3, NONE], [5, 7]])]
                if depth > 0:
                    opts += [{'a': 'exit', 'x': 0 if kind == 'rng' else []}, {'a': 'raise', 'x': 0 if kind == 'rng' else []}]
                opts += [{'a': 'draw', 'x': 0}] * 3 if kind == 'rng' else []
                opts.append({'a': 'user', 'x': 5 if kind == 'rng' else [6, NONE]})
                act = rnd.choice(opts)
                depth += 1 if act['a'] == 'enter' else (-1 if act['a'] in ('exit', 'raise') else 0)
                hist.append(act)
            if kind == 'rng' and sum(1 for h in hist if h['a'] == 'draw') > 12:
                continue
            got = run_rng(hist, t) if kind == 'rng' else run_po(hist, t)
            ev.append({'id': 0, 'fn': 'hist', 'a': {'m': kind, 'hist': hist}, 'o': got, 'x': {'n': 0}})
        else:
            xs = [V('int', 1), V('int', 2), V('int', 3), V('list', [V('int', 1)])]
            for _ in range(length):
                if rnd.random() < 0.1:
                    hist.append({'a': 'clear', 'x': VNONE, 'kw': 0})
                else:
                    x = rnd.choice(xs)
                    hist.append({'a': 'call', 'x': x, 'kw': 1 if x['k'] == 'int' and x['v'] == 1 and rnd.random() < 0.3 else 0})
            ev.append({'id': 0, 'fn': 'hist', 'a': {'m': 'cache', 'hist': hist}, 'o': run_cache(hist), 'x': {'n': 0}})
    return ev


# ------------------------------------------------------------------ TLC
def tlc_retry(module, cfg, work, env, workers):
    res = run_tlc(module, cfg, work, env=env, workers=workers, timeout=1500, heap='2g')
    if res.status == 'machinery':
        if env.get('OUT_FILE') and os.path.exists(env['OUT_FILE']):
            os.remove(env['OUT_FILE'])
        res = run_tlc(module, cfg, work, env=env, workers=workers, timeout=1500, heap='2g')
    return res


def validate(ctx, events, label, nchunk=4000):
    """Trace_Norm on events (ids are assigned here); -> {id: clauses_text} of the rejected ones"""
    for i, ev in enumerate(events):
        if ev['id'] != CORRUPT_ID:
            ev['id'] = i + 1
    chunks = [events[i:i + nchunk] for i in range(0, len(events), nchunk)]
    paths = []
    for k, ch in enumerate(chunks):
        p = os.path.join(ctx.work, 'norm_%s_%d.ndjson' % (label, k))
        with open(p, 'w') as f:
            for ev in ch:
                f.write(json.dumps(ev) + '\n')
        paths.append(p)

    def go(p):
        return tlc_retry('Trace_Norm.tla', 'Trace_Norm.cfg', ctx.work, {'TRACE_FILE': p}, 1)
    with ThreadPoolExecutor(max_workers=6) as ex:
        results = list(ex.map(go, paths))
    rejected = {}
    for k, (res, ch) in enumerate(zip(results, chunks)):
        ctx.add_tlc('trace-%s-%d' % (label, k), res)
        for line_no, ev_id, clauses in parse_fails(res.output):
            rejected[ev_id] = clauses
    return rejected


def clause_of(text):
    m = re.search(r'<<\s*"([\w-]+)"\s*,\s*"([\w-]+)"\s*,\s*"([^"]*)"', text)
    return (m.group(1), m.group(2), m.group(3)) if m else ('rejected', '?', '?')


def report(ctx, suspects, rejected, seen_fam, source):
    n = 0
    for ev, detail in suspects:
        if ev['id'] not in rejected:
            continue                                           # TLC accepts the observation: equivalent to the expectation
        clause, fn, cell = clause_of(rejected[ev['id']])
        sig = sig_of(fn if ev['fn'] != 'hist' else 'hist:' + ev['a']['m'], cell, clause)
        if source != 'replay':
            sig['source'] = source
        key = dumps(sig, sort_keys=True)
        seen_fam[key] = seen_fam.get(key, 0) + 1
        n += 1
        if seen_fam[key] <= 4:
            detail = dict(detail, stage_module=STAGE, event=ev, clauses=rejected[ev['id']])
            ctx.violation(sig, detail)
    return n


# ------------------------------------------------------------------ the stage
def _group_worker(args):
    """forked worker: replay of one exported group on the real code"""
    g, path, seed, variants, stride = args
    stats = {'n': 0, 'leaves': {}, 'drift': {}, 'drift_ex': {}}
    events = []
    if g == 'hist':
        suspects, events = replay_hist(path, seed, stats, stride=stride)
    else:
        suspects = replay_cases(path, seed, variants, events, stats)
    with open(path) as f:
        nlines = sum(1 for _ in f)
    return g, suspects, events, stats, nlines


def run_stage(ctx):
    import multiprocessing as mp
    import time
    thorough = ctx.tier != 'quick'
    t0 = time.time()
    laps = ctx.extra.setdefault('normalize_laps_s', {})

    def lap(name):
        laps[name] = round(time.time() - t0, 1)
    env = {'NORM_TIER': 'thorough' if thorough else 'quick', 'NORM_FIXED': FIXED_IN_TREE or '-'}
    outs = {g: os.path.join(ctx.work, 'norm_%s.ndjson' % g) for g in GROUPS + ('hist',)}
    variants = 4 if thorough else 2

    def group_job(g):
        """TLC on one argument space, then the replay of its export in a forked process"""
        cfg = 'MC_Norm_hist.cfg' if g == 'hist' else 'MC_Norm_cases.cfg'
        res = tlc_retry('MC_Norm.tla', cfg, ctx.work, dict(env, NORM_GROUP=g, OUT_FILE=outs[g]), 1)
        lap('tlc-' + g)
        if res.status != 'ok':
            return res, None
        with mp.get_context('fork').Pool(1) as pool:
            r = pool.apply(_group_worker, ((g, outs[g], ctx.seed, variants, 1 if thorough else 2),))
        lap('replay-' + g)
        return res, r
    ex = ThreadPoolExecutor(max_workers=len(GROUPS) + 2)
    gfuts = {g: ex.submit(group_job, g) for g in ('index', 'spl', 'misc', 'num', 'hist', 'nob', 'axes')}
    fbogus = ex.submit(tlc_retry, 'MC_Norm.tla', 'MC_Norm_bogus.cfg', ctx.work, dict(env, NORM_GROUP='hist'), 2)

    # ---- code -> spec events are produced while TLC runs
    nrand = 20000 if thorough else 1200
    events = doc_examples()
    ndoc = len(events)
    events += random_events(ctx.seed, nrand)
    events += random_hist_events(ctx.seed, 4000 if thorough else 240)
    lap('drivers')

    # ---- spec -> code: replay of every exported case / history state (done by the group jobs)
    stats = {'n': 0, 'leaves': {}, 'drift': {}, 'drift_ex': {}, 'cur_refuted': 0, 'suspect_families': {}}
    suspects = []
    ncases = nhist = 0
    for g, fut in gfuts.items():
        res, r = fut.result()
        ctx.add_tlc('norm-hist' if g == 'hist' else 'norm-cases-' + g, res)
        _, sus, evs, st, nlines = r
        suspects += sus
        events += evs
        stats['n'] += st['n']
        stats['cur_refuted'] += st.get('cur_refuted', 0)
        for k in ('leaves', 'drift', 'suspect_families'):
            for kk, vv in st.get(k, {}).items():
                stats[k][kk] = stats[k].get(kk, 0) + vv
        stats['drift_ex'].update(st['drift_ex'])
        if g == 'hist':
            nhist = nlines
        else:
            ncases += nlines
    if ncases < 20000 or nhist < 5000:
        raise MachineryError('normalize export too small: %d cases, %d history states' % (ncases, nhist))
    lap('replay')

    # ---- consumers
    cons = consumers(outs, ctx.seed, stats, thorough)
    lap('consumers')

    # ---- TLC decides: suspects + recorded events + one corrupted copy of an accepted event
    all_events = [ev for ev, _ in suspects] + events
    corrupt = None
    for ev in events:
        if ev['fn'] == 'nob' and ev['o']['k'] == 'ok' and ev['o']['v']['k'] == 'list' and ev['o']['v']['v']:
            corrupt = json.loads(json.dumps(ev))
            first = corrupt['o']['v']['v'][0]['v'][0]
            first['v'] = 1 - first['v']                        # flip the left flag of the first axis
            corrupt['id'] = CORRUPT_ID
            break
    if corrupt is None:
        raise MachineryError('no nodes_on_bdry event to corrupt')
    all_events.append(corrupt)
    rejected = validate(ctx, all_events, 'ev', nchunk=2500)
    if CORRUPT_ID not in rejected or clause_of(rejected[CORRUPT_ID])[0] != 'value':
        raise MachineryError('the corrupted copy of a recorded event was not rejected by Trace_Norm')
    lap('trace')
    seen_fam = {}
    nrep = report(ctx, suspects, rejected, seen_fam, 'replay')
    ev_susp = [(ev, {'recorded': ev}) for ev in events if ev['id'] in rejected]
    ntr = report(ctx, ev_susp, rejected, seen_fam, 'trace')
    for sig, detail in cons:
        key = dumps(sig, sort_keys=True)
        seen_fam[key] = seen_fam.get(key, 0) + 1
        if seen_fam[key] <= 4:
            ctx.violation(sig, dict(detail, stage_module=STAGE))

    # ---- the remaining TLC verdicts
    bog = fbogus.result()
    ctx.add_tlc('norm-bogus', bog, expect='any')
    ex.shutdown()
    if bog.status != 'counterexample':
        raise MachineryError('the bogus law was not refuted: the history run is vacuous')
    # layer C with the switches of the tree only: refuted on these exported cases (0 once every finding is repaired)
    ctx.extra['normalize_layerC_current_code_refuted_cases'] = stats['cur_refuted']
    if stats['cur_refuted'] == 0 and len(FIXED_IN_TREE.strip('-')) < 5:
        ctx.drift_note('normalize: layer C without the repair switches refines layer A - FIXED_IN_TREE is stale')
    lap('tlc-all')

    # ---- evidence
    for key, cnt in stats['leaves'].items():
        ctx.count(['normalize'] + list(key), True, n=0)
    ctx.count(None, False, n=stats['n'] + len(events))
    for dk, cnt in sorted(stats['drift'].items()):
        ctx.drift_note('normalize: %s: real code differs from layer C in %d accepted cases, e.g. %s' % (
            dk, cnt, stats['drift_ex'][dk][:200]))
    ctx.traces += ncases + nhist + len(events)
    ctx.extra['normalize_cases_replayed'] = ncases
    ctx.extra['normalize_case_executions'] = stats['n']
    ctx.extra['normalize_history_states_replayed'] = nhist
    ctx.extra['normalize_events_validated'] = len(all_events)
    ctx.extra['normalize_events_docstring_examples'] = ndoc
    ctx.extra['normalize_suspects_decided_by_tlc'] = len(suspects)
    ctx.extra['normalize_suspect_executions_per_family'] = stats['suspect_families']
    ctx.extra['normalize_rejected'] = {'replay': nrep, 'trace': ntr, 'consumers': len(cons)}
    ctx.extra['normalize_violation_cases_per_family'] = seen_fam
    ctx.extra['normalize_leaves_covered'] = len(stats['leaves'])
    with open(outs['index']) as f:
        for k, line in enumerate(f):
            if k in (40, 4000):
                c = json.loads(line)
                ctx.sample({'stage': STAGE, 'fn': c['fn'], 'args': c['a'], 'allowed': c['allow'], 'layerC': c['c']})
            if k > 4000:
                break
    ctx.extra['normalize_rule'] = (
        'abstract case = (function, branch of the documentation that applies (Cell), leaf of the transcribed decision tree, '
        'kind of outcome) resp. (history machine, concretisation of the object, last action); one evaluation = one real '
        'call or one history executed on a real object and compared with the exported expectation, or one recorded event '
        'accepted / rejected by Trace_Norm; every exported case is executed under 2 (quick) / 4 (thorough) spellings')
    ctx.assumptions += [
        'normalize: an exception class is demanded only where a Raises section names it (real_dtype / complex_dtype: '
        'ValueError); elsewhere "must be rejected" accepts any exception except NameError / UnboundLocalError, which '
        'signal a broken code path rather than a rejection',
        'normalize: no demand (documentation silent) for: bool / float / None / str / generator / 0-d array as `axes`; '
        'None, bool, float entries and two Ellipsis in index expressions; slices that select nothing or start at the '
        'end of the axis (accepted or rejected); NumPy bool, int, None as the global nodes_on_bdry; non-boolean entries; '
        'length <= 0 for nodes_on_bdry; sequences as single parameters and nested sequences in '
        'normalized_scalar_param_list ("not applicable to parameters which are themselves iterable"); integral floats '
        'and bools in safe_int_conv (converted or rejected); bool / datetime dtypes in the dtype predicates; integer '
        'dtypes in real_dtype (itself, default or ValueError) and complex_dtype; float16 in complex_dtype; dtype_str / '
        'dtype_repr of shaped and non-numeric dtypes; texts with blank or indentation-only lines in dedent; a trailing '
        'newline in indent; duplicate axes and broadcasting 1-d arrays in fast_1d_tensor_mult; non-permutations as axis_order',
        'normalize: normalized_axes_tuple([0, -1, 2], ndim=3) -> (0, 2, 2) is a docstring example although "duplicate '
        'entries are not allowed": duplicates that only appear after conversion may be returned or rejected',
        'normalize: index expressions are compared up to NumPy equivalence on the given shape (same positions per axis, '
        'axis kept or dropped), not literally',
        'normalize: writable_array "saves changes upon exiting the context manager" is read as: on every exit, also by an '
        'exception; whether numpy.asarray(obj) aliases an ODL element is not documented (both accepted)',
        'normalize: npy_random_seed(None) is a no-op (numbers drawn inside are consumed from the outer stream)',
        'normalize: cache_arguments "is equivalent to functools.lru_cache": maxsize 128, typed=False, cache_info / '
        'cache_clear available (one abstract cache entry = a block of 64 real arguments)',
    ]
    return ncases


def replay(body):
    """./vcheck replay <file>: show the recorded case and re-execute the call under a few spellings"""
    det = body['detail']
    if 'case' in det:
        case = det['case']
        print('call       :', det.get('call'))
        print('allowed    :', dumps(case['allow']))
        print('recorded   :', dumps(det.get('observed')))
        bad = 0
        for var in range(6):
            o, x, desc = make_call(case['fn'], case['a'], Pick(var * 37))
            if not literally_allowed(o, case['allow']):
                bad += 1
                print('re-executed:', desc, '->', dumps(o))
        print('VIOLATION reproduced (%d of 6 spellings)' % bad if bad else 'not reproduced literally on this tree')
        return 1 if bad else 0
    if 'recorded' in det and det['recorded'].get('fn') not in (None, 'hist'):
        ev = det['recorded']
        print('recorded   :', dumps({'fn': ev['fn'], 'a': ev['a'], 'o': ev['o']}))
        print('rejected by Trace_Norm with', det.get('clauses'))
        same = 0
        for var in range(6):
            o, x, desc = make_call(ev['fn'], ev['a'], Pick(var * 37))
            same += o == ev['o']
            print('re-executed:', desc, '->', dumps(o))
        print('VIOLATION reproduced (%d of 6 spellings give the recorded outcome)' % same if same else
              'the recorded outcome is not reproduced on this tree')
        return 1 if same else 0
    if 'state' in det:
        st = det['state']
        print('machine    :', st['m'], ' target:', det.get('target'))
        print('history    :', dumps(st['hist']))
        print('expected   :', dumps(st['st']))
        print('recorded   :', dumps(det.get('observed')))
        if st['m'] in ('wa-alias', 'wa-snap'):
            print('re-executed:', dumps(run_wa(det['target'], st['hist'])[1]))
        elif st['m'] == 'rng':
            print('re-executed:', dumps(run_rng(st['hist'])))
        elif st['m'] == 'po':
            print('re-executed:', dumps(run_po(st['hist'])))
        else:
            print('re-executed:', dumps(run_cache(st['hist'])))
        return 1
    print(dumps(det, indent=1)[:3000])
    return 1

"""EXT/geomsets - set algebra of interval products, rectilinear grids and the basic sets.

Specification: spec/sem/GeomSetSem.tla (layer A, from the docstrings of odl/set/domain.py, odl/discr/grid.py and
odl/set/sets.py), spec/mach/GeomSetMachine.tla (layer B: chains of object-valued calls, the query alphabet, the
laws as invariants), spec/impl/GeomSetImpl.tla (layer C: the code's decision structures, checked against A),
spec/trace/Trace_GeomSet.tla (layer D).

Pipeline of `run_stage`:
  1. TLC: laws of the reference on every reachable object; non-vacuity (bogus invariant must fail); layer C refines
     layer A outside the cells of the open findings; basic-set laws.
  2. spec -> code: every generated state of the machine (initial object, chain of calls, reached object, the whole
     query alphabet with the layer-A answers) is exported; the chain is executed on REAL IntervalProd / RectGrid
     objects (every derived object is the one the previous real call returned), then every query is asked under
     rotating spellings (list / tuple / ndarray float64 / float32 / int / Python and NumPy scalars, positional /
     keyword / omitted defaults, property vs method) and compared with the exported answer on the case's lattice;
     parameterless queries are asked a second time after all others (cached properties) and the object must not
     have changed.  The basic sets are replayed the same way from their own export.
  3. code -> spec: seeded drivers beyond the TLC constants (1-5 axes, up to 9 nodes per axis, other dyadic
     lattices, longer chains, mixed uniform_grid flags) record one event per public call; Trace_GeomSet validates them.
Python never decides a value: it builds objects, projects observations onto the lattice and moves JSON.
"""
import json
import math
import os
import random
from concurrent.futures import ThreadPoolExecutor
from fractions import Fraction

import numpy as np

from ..tlc import run_tlc, parse_fails
from ..common import MachineryError, dumps
from ..exact import snap, OFF

STANDALONE = True
NONE = 99
STAGE = 'geomsets'
# open findings already repaired in the tree, as letters for MC_GeomSetImpl_all.cfg (layer C mirrors the CURRENT code):
#   a contains_all-atol   e approx_equals-ndim   r is_subgrid-rtol   n is_subgrid-ndim   s is_subgrid-shortcut
FIXED_IN_TREE = 'aern'


# ------------------------------------------------------------------ exact numbers
def fq(q):
    n, d = q
    if d == 0:
        return float('nan') if n == 0 else (float('inf') if n > 0 else float('-inf'))
    return Fraction(n, d)


def fl(q):
    v = fq(q)
    return float(v)


def qj(fr):
    if isinstance(fr, float):
        if math.isnan(fr):
            return [0, 0]
        return [1, 0] if fr > 0 else [-1, 0]
    fr = Fraction(fr)
    if abs(fr.numerator) >= 2 ** 31 or fr.denominator >= 2 ** 31:
        raise OverflowError(fr)
    return [fr.numerator, fr.denominator]


def lcm(a, b):
    return a * b // math.gcd(a, b)


def dens(x, acc):
    """collect the denominators of every [n, d] leaf of a JSON value made of Q numbers"""
    if isinstance(x, list):
        if len(x) == 2 and isinstance(x[0], int) and isinstance(x[1], int) and not isinstance(x[0], bool):
            if x[1] > 0:
                acc[0] = lcm(acc[0], x[1])
            return
        for y in x:
            dens(y, acc)
    elif isinstance(x, dict):
        for y in x.values():
            dens(y, acc)


def lattice(*vals):
    acc = [1]
    for v in vals:
        dens(v, acc)
    if acc[0] > 2 ** 40:
        raise MachineryError('lattice denominator too wide: %d' % acc[0])
    return acc[0]


class Off(Exception):
    pass


def sq(x, D):
    """observed float -> [n, d] on the lattice 1/D (tokens for nan / inf); raises Off"""
    x = float(x)
    if math.isnan(x):
        return [0, 0]
    if math.isinf(x):
        return [1, 0] if x > 0 else [-1, 0]
    s = snap(x, D)
    if s == OFF:
        raise Off(repr(x))
    return qj(s)


# ------------------------------------------------------------------ spellings
class Pick(object):
    """Deterministic rotation through the spellings of one abstract argument: systematic over (state, query, seed)."""

    def __init__(self, base):
        self.k = base
        self.used = []

    def __call__(self, options, tag=None):
        self.k += 1
        o = options[self.k % len(options)]
        if tag:
            self.used.append('%s=%s' % (tag, o if isinstance(o, str) else self.k % len(options)))
        return o


def f32ok(v):
    return all(math.isfinite(x) and float(np.float32(x)) == x for x in v)


def integral(v):
    return all(math.isfinite(x) and float(x).is_integer() and abs(x) < 2 ** 31 for x in v)


def spell_vec(fr, pick, scalar_ok=False, tag='vec', listlike_only=False):
    """a vector of rationals as one of the documented array-like spellings"""
    v = [float(x) for x in fr]
    opts = ['list', 'tuple', 'f64']
    if not listlike_only:
        if len(v) >= 2:
            opts.append('strided')
        if v and f32ok(v):
            opts.append('f32')
        if v and integral(v):
            opts += ['i64', 'intlist']
        if scalar_ok and len(v) == 1:
            opts += ['float', 'npfloat'] + (['int'] if integral(v) else [])
    m = pick(opts, tag)
    if m == 'list':
        return list(v)
    if m == 'tuple':
        return tuple(v)
    if m == 'f64':
        return np.array(v, dtype='float64')
    if m == 'strided':                  # a non-contiguous view into a caller-owned buffer
        buf = np.full(2 * len(v) + 1, 12345.0)
        buf[1::2] = v
        return buf[1::2]
    if m == 'f32':
        return np.array(v, dtype='float32')
    if m == 'i64':
        return np.array([int(x) for x in v], dtype='int64')
    if m == 'intlist':
        return [int(x) for x in v]
    if m == 'float':
        return v[0]
    if m == 'npfloat':
        return np.float64(v[0])
    if m == 'int':
        return int(v[0])
    raise ValueError(m)


def spell_scalar(x, pick, tag='scalar', numpy_ok=True):
    x = float(x)
    opts = ['float'] + (['npfloat'] if numpy_ok else [])
    if numpy_ok and f32ok([x]):
        opts.append('npf32')
    if integral([x]):
        opts += ['int'] + (['npint'] if numpy_ok else [])
    m = pick(opts, tag)
    return {'float': float, 'npfloat': np.float64, 'npf32': np.float32, 'int': lambda t: int(t),
            'npint': lambda t: np.int64(int(t))}[m](x)


def spell_int(i, pick, tag='int'):
    m = pick(['int', 'npint64', 'npint32'], tag)
    return {'int': int, 'npint64': np.int64, 'npint32': np.int32}[m](i)


def mk_box(v, pick, odl):
    n = len(v)
    mn = [fq(ax[0]) for ax in v]
    mx = [fq(ax[1]) for ax in v]
    return odl.IntervalProd(spell_vec(mn, pick, n == 1, 'min_pt'), spell_vec(mx, pick, n == 1, 'max_pt'))


def mk_grid(v, pick, odl):
    return odl.RectGrid(*[spell_vec([fq(x) for x in vec], pick, False, 'coord') for vec in v])


def mk_obj(o, pick, odl):
    if o['k'] == 'box':
        return mk_box(o['v'], pick, odl)
    if o['k'] == 'grid':
        return mk_grid(o['v'], pick, odl)
    if o['k'] == 'reals':
        return odl.RealNumbers()
    raise ValueError(o['k'])


class Raised(object):
    def __init__(self, exc):
        self.cls = type(exc).__name__
        self.msg = str(exc)[:200]


def py_item(it, pick):
    k = it['k']
    if k == 'int':
        return spell_int(it['i'], pick, 'idx') if pick else it['i']
    if k == 'slice':
        return slice(*[None if t == NONE else t for t in (it['a'], it['b'], it['s'])])
    if k == 'ell':
        return Ellipsis
    if k == 'none':
        return None
    if k == 'list':
        return list(it['l'])
    raise ValueError(k)


def atol_args(t, pick, optional):
    """(args, kwargs) spelling of a tolerance; `optional`: the parameter has the default 0.0"""
    t = fq(t)
    opts = ['pos', 'kw', 'npfloat']
    if optional and t == 0:
        opts += ['omit', 'int']
    m = pick(opts, 'atol')
    if m == 'omit':
        return (), {}
    if m == 'kw':
        return (), {'atol': float(t)}
    if m == 'npfloat':
        return (np.float64(float(t)),), {}
    if m == 'int':
        return (0,), {}
    return (float(t),), {}


def order_args(s, pick):
    opts = ['pos', 'kw'] + (['omit'] if s == 'C' else [])
    m = pick(opts, 'order')
    return ((), {}) if m == 'omit' else (((), {'order': s}) if m == 'kw' else ((s,), {}))


def spell_points(o, n, pick, odl):
    """the operand of contains_all: a (d, N) array-like / nested list / meshgrid tuple / grid"""
    if o['k'] == 'grid':
        g = mk_grid(o['v'], pick, odl)
        m = pick(['grid', 'meshgrid', 'array', 'nested'] if len(o['v']) == n else ['grid'], 'points')
        if m == 'grid':
            return g, m
        if m == 'meshgrid':
            return g.meshgrid, m
        arr = g.points().T
        if n == 1:
            arr = arr.ravel() if pick([0, 1]) else arr
        return (arr if m == 'array' else arr.tolist()), m
    rows = [[fl(x) for x in r] for r in o['v']]
    arr = np.array(rows, dtype='float64').T
    m = pick(['array', 'nested', 'farray'], 'points')
    if n == 1:
        arr = arr.ravel() if pick([0, 1]) else arr
    if m == 'nested':
        return arr.tolist(), m
    if m == 'farray':
        return np.asfortranarray(arr), 'array'
    return arr, m


# ------------------------------------------------------------------ executing one abstract call on a real object
def do_call(obj, part, c, pick, odl):
    """Returns (raw result | Raised, extra) ; operands are built before the call is attempted."""
    op = c['op']
    n = obj.ndim
    extra = {}

    def attempt(f):
        try:
            return f()
        except Exception as e:       # noqa - every exception is an observation
            return Raised(e)

    def others():
        return [mk_obj(o, pick, odl) for o in c['o']]

    def pt_of(qs, scalar_ok):
        return spell_vec([fq(x) for x in qs], pick, scalar_ok and n == 1, 'point')

    # ---- common to both classes
    if op == 'ndim':
        return attempt(lambda: obj.ndim), extra
    if op == 'len':
        return attempt(lambda: len(obj)), extra
    if op in ('min_pt', 'max_pt'):
        short = op[:3]
        m = pick(['prop', 'method'] + (['numpy'] if part == 'grid' else []), 'route')
        if m == 'prop':
            return attempt(lambda: getattr(obj, op)), extra
        if m == 'method':
            return attempt(lambda: getattr(obj, short)()), extra
        return attempt(lambda: getattr(np, short)(obj)), extra
    if op in ('mid_pt', 'extent'):
        return attempt(lambda: getattr(obj, op)), extra
    if op == 'nondegen':
        return attempt(lambda: obj.nondegen_byaxis), extra
    if op == 'squeeze' and part == 'box':
        return attempt(lambda: obj.squeeze()), extra
    if op in ('insert', 'append'):
        oth = others()
        if op == 'append':
            return attempt(lambda: obj.append(*oth)), extra
        i = spell_int(c['i'][0], pick, 'index')
        return attempt(lambda: obj.insert(i, *oth)), extra
    if op == 'corners' or op == 'points':
        a, kw = order_args(c['s'], pick)
        return attempt(lambda: getattr(obj, op)(*a, **kw)), extra
    if op == 'contains':
        pt = pt_of(c['q'], True)
        return attempt(lambda: pt in obj), extra
    if op == 'approx_contains':
        pt = pt_of(c['q'][1:], True)
        t = float(fq(c['q'][0]))
        m = pick(['pos', 'kw', 'np'], 'atol')
        if m == 'pos':
            return attempt(lambda: obj.approx_contains(pt, t)), extra
        if m == 'kw':
            return attempt(lambda: obj.approx_contains(pt, atol=t)), extra
        return attempt(lambda: obj.approx_contains(pt, np.float64(t))), extra
    if op == 'approx_equals':
        oth = others()[0]
        t = float(fq(c['q'][0]))
        if pick([0, 1], 'atol'):
            return attempt(lambda: obj.approx_equals(oth, atol=t)), extra
        return attempt(lambda: obj.approx_equals(oth, t)), extra

    # ---- interval products
    if part == 'box':
        if op in ('true_ndim', 'volume', 'length', 'area'):
            return attempt(lambda: getattr(obj, op)), extra
        if op == 'measure':
            m = c['i'][0]
            if m == NONE:
                how = pick(['omit', 'none', 'kwnone'], 'ndim')
                return attempt(lambda: obj.measure() if how == 'omit' else
                               (obj.measure(None) if how == 'none' else obj.measure(ndim=None))), extra
            how = pick(['pos', 'kw', 'np'], 'ndim')
            return attempt(lambda: obj.measure(m) if how == 'pos' else
                           (obj.measure(ndim=m) if how == 'kw' else obj.measure(np.int64(m)))), extra
        if op == 'dist':
            pt = pt_of(c['q'], True)
            e = c['s']
            extra['pow'] = {'1': 1, '2': 2, 'inf': 0}[e]
            if e == '2':
                how = pick(['omit', 'int', 'float', 'kw'], 'exponent')
                val = {'omit': None, 'int': 2, 'float': 2.0, 'kw': 2.0}[how]
            elif e == '1':
                how = pick(['int', 'float', 'kw'], 'exponent')
                val = {'int': 1, 'float': 1.0, 'kw': 1}[how]
            else:
                how = pick(['float', 'np', 'kw'], 'exponent')
                val = {'float': float('inf'), 'np': np.inf, 'kw': float('inf')}[how]
            if how == 'omit':
                return attempt(lambda: obj.dist(pt)), extra
            if how == 'kw':
                return attempt(lambda: obj.dist(pt, exponent=val)), extra
            return attempt(lambda: obj.dist(pt, val)), extra
        if op == 'contains_set':
            oth = others()[0]
            a, kw = atol_args(c['q'][0], pick, True)
            return attempt(lambda: obj.contains_set(oth, *a, **kw)), extra
        if op == 'contains_all':
            oth, how = spell_points(c['o'][0], n, pick, odl)
            extra['points'] = how
            a, kw = atol_args(c['q'][0], pick, True)
            return attempt(lambda: obj.contains_all(oth, *a, **kw)), extra
        if op == 'collapse':
            idx, vals = list(c['i']), [fl(x) for x in c['q']]
            opts = ['list', 'tuple', 'array']
            if len(idx) == 1 and len(vals) == 1:
                opts += ['scalar', 'npscalar']
            how = pick(opts, 'indices')
            if how == 'scalar':
                return attempt(lambda: obj.collapse(idx[0], vals[0])), extra
            if how == 'npscalar':
                return attempt(lambda: obj.collapse(np.int64(idx[0]), np.float64(vals[0]))), extra
            if how == 'tuple':
                return attempt(lambda: obj.collapse(tuple(idx), tuple(vals))), extra
            if how == 'array':
                return attempt(lambda: obj.collapse(np.array(idx, dtype='int64'), np.array(vals, dtype='float64'))), extra
            return attempt(lambda: obj.collapse(idx, vals)), extra
        if op == 'getitem':
            it = py_item(c['idx'][0], pick)
            return attempt(lambda: obj[it]), extra
        if op == 'element':
            if c['s'] == 'none':
                how = pick([0, 1], 'inp')
                return attempt(lambda: obj.element() if how else obj.element(None)), extra
            fr = [fq(x) for x in c['q']]
            if n == 1:
                how = pick(['float', 'npfloat', 'array1'], 'inp')
                pt = {'float': float(fr[0]), 'npfloat': np.float64(float(fr[0])),
                      'array1': np.array([float(fr[0])])}[how]
            else:
                pt = spell_vec(fr, pick, False, 'inp')
            return attempt(lambda: obj.element(pt)), extra
        if op == 'pos':
            return attempt(lambda: +obj), extra
        if op == 'neg':
            return attempt(lambda: -obj), extra
        if op in ('add_s', 'sub_s', 'mul_s', 'div_s'):
            s = spell_scalar(fq(c['q'][0]), pick)
            return attempt({'add_s': lambda: obj + s, 'sub_s': lambda: obj - s, 'mul_s': lambda: obj * s,
                            'div_s': lambda: obj / s}[op]), extra
        if op == 'rdiv_s':
            s = spell_scalar(fq(c['q'][0]), pick, numpy_ok=False)      # Python numbers: NumPy scalars dispatch elsewhere
            return attempt(lambda: s / obj), extra
        if op in ('add_b', 'sub_b', 'mul_b', 'div_b'):
            oth = others()[0]
            return attempt({'add_b': lambda: obj + oth, 'sub_b': lambda: obj - oth, 'mul_b': lambda: obj * oth,
                            'div_b': lambda: obj / oth}[op]), extra
        if op == 'uniform_grid':
            if len(c['i']) != 3 * n:
                raise MachineryError('uniform_grid call with %d ints for %d axes' % (len(c['i']), n))
            shp = c['i'][:n]
            nb = [(bool(c['i'][n + 2 * a]), bool(c['i'][n + 2 * a + 1])) for a in range(n)]
            sopts = ['tuple', 'list', 'array'] + (['int', 'npint'] if len(set(shp)) == 1 else [])
            how = pick(sopts, 'shape')
            shape = {'tuple': tuple(shp), 'list': list(shp), 'array': np.array(shp, dtype='int64'),
                     'int': shp[0], 'npint': np.int64(shp[0])}[how]
            bopts = ['tuples', 'lists']
            if all(l == r for l, r in nb):
                bopts.append('peraxis')
                if len(set(nb)) == 1:
                    bopts.append('bool')
                    if nb[0] == (True, True):
                        bopts.append('omit')
            if n == 1:
                bopts.append('pair1d')
            if any(l == r for l, r in nb):
                bopts.append('mixed')
            how = pick(bopts, 'nodes_on_bdry')
            kw = {}
            if how == 'tuples':
                kw['nodes_on_bdry'] = [tuple(p) for p in nb]
            elif how == 'lists':
                kw['nodes_on_bdry'] = tuple(list(p) for p in nb)
            elif how == 'peraxis':
                kw['nodes_on_bdry'] = [p[0] for p in nb]
            elif how == 'bool':
                kw['nodes_on_bdry'] = nb[0][0]
            elif how == 'pair1d':
                kw['nodes_on_bdry'] = nb[0]
            elif how == 'mixed':
                kw['nodes_on_bdry'] = [p[0] if p[0] == p[1] else p for p in nb]
            route = pick(['fromintv', 'minmax', 'arrays', 'fromintv_pos'], 'route')
            if route == 'fromintv':
                return attempt(lambda: odl.uniform_grid_fromintv(obj, shape, **kw)), extra
            if route == 'fromintv_pos' and kw:
                return attempt(lambda: odl.uniform_grid_fromintv(obj, shape, kw['nodes_on_bdry'])), extra
            if route == 'arrays':
                return attempt(lambda: odl.uniform_grid(obj.min_pt, obj.max_pt, shape, **kw)), extra
            mn = obj.min_pt.tolist() if n > 1 else pick([obj.min_pt.tolist(), float(obj.min_pt[0])])
            mx = obj.max_pt.tolist() if n > 1 else pick([tuple(obj.max_pt.tolist()), float(obj.max_pt[0])])
            return attempt(lambda: odl.uniform_grid(mn, mx, shape, **kw)), extra
        raise MachineryError('unknown box op %r' % op)

    # ---- grids
    if op in ('shape', 'size', 'stride', 'is_uniform_byaxis', 'is_uniform', 'coord_vectors', 'meshgrid'):
        return attempt(lambda: getattr(obj, op)), extra
    if op in ('element', 'corner_grid', 'convex_hull'):
        return attempt(lambda: getattr(obj, op)()), extra
    if op in ('is_subgrid', 'is_supergrid'):
        oth = others()[0]
        a, kw = atol_args(c['q'][0], pick, True)
        if op == 'is_subgrid':
            return attempt(lambda: obj.is_subgrid(oth, *a, **kw)), extra
        return attempt(lambda: oth.is_subgrid(obj, *a, **kw)), extra
    if op == 'squeeze':
        if c['s'] == 'all':
            how = pick(['omit', 'none', 'kwnone'], 'axis')
            return attempt(lambda: obj.squeeze() if how == 'omit' else
                           (obj.squeeze(None) if how == 'none' else obj.squeeze(axis=None))), extra
        ax = list(c['i'])
        opts = ['list', 'kwlist', 'array'] + (['int', 'kwint', 'npint'] if len(ax) == 1 else [])
        how = pick(opts, 'axis')
        val = {'list': ax, 'kwlist': ax, 'array': np.array(ax, dtype='int64'), 'int': ax[0], 'kwint': ax[0],
               'npint': np.int64(ax[0])}[how]
        if how.startswith('kw'):
            return attempt(lambda: obj.squeeze(axis=val)), extra
        return attempt(lambda: obj.squeeze(val)), extra
    if op == 'getitem':
        items = [py_item(it, pick) for it in c['idx']]
        idx = tuple(items)
        if len(items) == 1 and pick([0, 1], 'bare'):
            idx = items[0]
        return attempt(lambda: obj[idx]), extra
    raise MachineryError('unknown grid op %r' % op)


# ------------------------------------------------------------------ projection of an observation
def project(op, part, raw, D, extra, odl, want=None):
    """observed Python value -> result record of layer A ({k, v}); {'k': 'off'} / {'k': 'type:..'} when impossible"""
    try:
        if isinstance(raw, Raised):
            cls = raw.cls if (want and want.get('k') == 'err' and want.get('v')) else ''
            return {'k': 'err', 'v': cls}
        if isinstance(raw, odl.IntervalProd):
            return {'k': 'box', 'v': [[sq(a, D), sq(b, D)] for a, b in zip(raw.min_pt, raw.max_pt)]}
        if isinstance(raw, odl.RectGrid):
            return {'k': 'grid', 'v': [[sq(x, D) for x in vec] for vec in raw.coord_vectors]}
        if isinstance(raw, (bool, np.bool_)):
            return {'k': 'bool', 'v': bool(raw)}
        if isinstance(raw, (int, np.integer)):
            return {'k': 'int', 'v': int(raw)}
        if isinstance(raw, (float, np.floating)):
            x = float(raw)
            if op == 'dist' and extra.get('pow'):
                x = x ** extra['pow']
            if op == 'element':
                return {'k': 'qs', 'v': [sq(x, D)]}
            return {'k': 'q', 'v': sq(x, D)}
        if isinstance(raw, np.ndarray):
            if raw.ndim == 1:
                if raw.dtype == bool:
                    return {'k': 'bools', 'v': [bool(x) for x in raw]}
                return {'k': 'qs', 'v': [sq(x, D) for x in raw]}
            if raw.ndim == 2:
                return {'k': 'pts', 'v': [[sq(x, D) for x in row] for row in raw]}
            return {'k': 'type:ndarray%d' % raw.ndim, 'v': ''}
        if isinstance(raw, tuple):
            if op == 'coord_vectors':
                return {'k': 'grid', 'v': [[sq(x, D) for x in vec] for vec in raw]}
            if op == 'meshgrid':
                return {'k': 'mesh', 'v': [{'shape': list(m.shape), 'vals': [sq(x, D) for x in m.ravel()]} for m in raw]}
            if all(isinstance(x, (bool, np.bool_)) for x in raw):
                return {'k': 'bools', 'v': [bool(x) for x in raw]}
            if all(isinstance(x, (int, np.integer)) for x in raw):
                return {'k': 'ints', 'v': [int(x) for x in raw]}
        return {'k': 'type:' + type(raw).__name__, 'v': ''}
    except Off:
        return {'k': 'off', 'v': ''}
    except OverflowError:
        return {'k': 'toowide', 'v': ''}


def bit_exact(obj, objj, odl):
    """the float coordinates of the real object ARE the rationals of its projection (no rounding anywhere)"""
    if isinstance(obj, odl.IntervalProd):
        real = [x for pair in zip(obj.min_pt, obj.max_pt) for x in pair]
        want = [x for ax in objj['v'] for x in ax]
    else:
        real = [x for vec in obj.coord_vectors for x in vec]
        want = [x for vec in objj['v'] for x in vec]
    return len(real) == len(want) and all(q[1] != 0 and float(r) == float(Fraction(q[0], q[1])) and
                                          Fraction(float(r)) == Fraction(q[0], q[1]) for r, q in zip(real, want))


# ------------------------------------------------------------------ family-level signatures
CLS = {'box': 'IntervalProd', 'grid': 'RectGrid'}


def atol_class(c):
    if c['op'] in ('approx_contains', 'contains_set', 'approx_equals', 'contains_all', 'is_subgrid', 'is_supergrid'):
        return 'zero' if fq(c['q'][0]) == 0 else 'positive'
    return '-'


def uniform_vec(v):
    fr = [fq(x) for x in v]
    return all(fr[i + 1] - fr[i] == fr[1] - fr[0] for i in range(len(fr) - 1))


def other_class(obj, c):
    if not c['o']:
        return '-'
    o = c['o'][0]
    if o['k'] not in ('box', 'grid'):
        return o['k']
    tag = o['k']
    if o['k'] in ('box', 'grid') and len(o['v']) != len(obj['v']):
        tag += '/ndim-differs'
    if c['op'] in ('is_subgrid', 'is_supergrid') and o['k'] == 'grid':
        both = all(uniform_vec(v) for v in o['v']) and all(uniform_vec(v) for v in obj['v'])
        tag += '/both-uniform' if both else '/non-uniform'
    return tag


def signature(obj, c, clause, extra):
    op = c['op']
    sig = {'stage': STAGE, 'cls': 'uniform_grid' if op == 'uniform_grid' else CLS[obj['k']], 'op': op,
           'clause': clause, 'atol': atol_class(c), 'other': other_class(obj, c)}
    if op == 'contains_all':
        sig['points'] = extra.get('points', '-')
    return sig


def clause_of(exp, got):
    if got['k'] == exp['k']:
        return 'value'
    if got['k'] == 'err':
        return 'raised'
    if exp['k'] == 'err':
        return 'no-error'
    if got['k'] == 'off':
        return 'offlattice'
    return 'type'


# ------------------------------------------------------------------ replay of exported states
PARAMLESS = {'ndim', 'len', 'true_ndim', 'min_pt', 'max_pt', 'mid_pt', 'extent', 'nondegen', 'volume', 'shape', 'size',
             'stride', 'is_uniform_byaxis', 'is_uniform', 'coord_vectors', 'element', 'meshgrid'}


def replay_state(st, si, seed, variants, odl):
    """-> (n_evaluations, [(sig, detail)], nontrivial keys)"""
    out = []
    nev = 0
    keys = []
    for var in range(variants):
        pick = Pick(si * 7 + seed * 13 + var * 5)
        try:
            obj = mk_obj(st['init'], pick, odl)
            cur = st['init']
        except Exception as e:
            raise MachineryError('cannot build initial object %r: %r' % (st['init'], e))
        ok = True
        for k, c in enumerate(st['hist']):
            # the object every prefix of the chain has to produce is the `cur` of the state exported for that prefix
            want = st['cur'] if k + 1 == len(st['hist']) else _PREFIX.get(prefix_key(st['init'], st['hist'][:k + 1]))
            raw, extra = do_call(obj, cur['k'], c, pick, odl)
            nev += 1
            if not isinstance(raw, (odl.IntervalProd, odl.RectGrid)):
                out.append((signature(cur, c, 'raised' if isinstance(raw, Raised) else 'type', extra),
                            {'state': {'init': st['init'], 'hist': st['hist'][:k], 'cur': cur}, 'call': c,
                             'expected': want, 'observed': getattr(raw, 'msg', repr(raw))}))
                ok = False
                break
            obj = raw
            if want is not None:
                got = project(c['op'], cur['k'], obj, lattice(want), {}, odl)
                if got != want:
                    out.append((signature(cur, c, clause_of(want, got), extra),
                                {'state': {'init': st['init'], 'hist': st['hist'][:k], 'cur': cur}, 'call': c,
                                 'expected': want, 'observed': got, 'spelling': pick.used[-6:]}))
                    ok = False
                    break
                cur = want
            else:
                cur = {'k': 'box' if isinstance(raw, odl.IntervalProd) else 'grid', 'v': []}
        if not ok:
            continue
        D0 = lattice(st['cur'])
        got = project('chain', st['cur']['k'], obj, D0, {}, odl)
        nev += 1
        if got != st['cur']:
            out.append(({'stage': STAGE, 'cls': CLS[st['cur']['k']], 'op': 'construct', 'clause': 'value'},
                        {'state': {'init': st['init'], 'hist': st['hist']}, 'expected': st['cur'], 'observed': got}))
            continue
        part = st['cur']['k']
        if st['exact'] and not bit_exact(obj, st['cur'], odl):
            # safety net: the specification tracked this object as computed without rounding, the real one deviates by
            # rounding (below the resolution of the lattice comparison): tolerances must not be probed exactly
            keys.append(('inexact-object', si, var))
            continue
        again = []
        for qi, qr in enumerate(st['queries']):
            c, exp = qr['c'], qr['r']
            D = lattice(exp, st['cur'], c['q'])
            raw, extra = do_call(obj, part, c, pick, odl)
            got = project(c['op'], part, raw, D, extra, odl, exp)
            nev += 1
            if var == 0:
                keys.append((part, c['op'], exp['k'], atol_class(c), len(st['cur']['v']), c['s']))
            if got != exp:
                out.append((signature(st['cur'], c, clause_of(exp, got), extra),
                            {'state': {'init': st['init'], 'hist': st['hist'], 'cur': st['cur']}, 'call': c,
                             'expected': exp, 'observed': got, 'spelling': pick.used[-6:],
                             'message': getattr(raw, 'msg', '')}))
            elif c['op'] in PARAMLESS and not c['q'] and c['s'] in ('', 'none'):
                again.append((c, exp, D))
        # histories on one object: the parameterless queries once more after everything else, in reverse order
        for c, exp, D in reversed(again):
            raw, extra = do_call(obj, part, c, pick, odl)
            got = project(c['op'], part, raw, D, extra, odl, exp)
            nev += 1
            if got != exp:
                out.append((signature(st['cur'], c, 'history', extra),
                            {'state': {'init': st['init'], 'hist': st['hist'], 'cur': st['cur']}, 'call': c,
                             'expected': exp, 'observed': got}))
        got = project('chain', part, obj, D0, {}, odl)
        if got != st['cur']:
            out.append(({'stage': STAGE, 'cls': CLS[part], 'op': 'any-query', 'clause': 'object-mutated'},
                        {'state': {'init': st['init'], 'hist': st['hist'], 'cur': st['cur']}, 'observed': got}))
    return nev, out, keys


_PREFIX = {}        # (init, chain) -> object, filled by the parent before the workers are forked


def prefix_key(init, hist):
    return json.dumps([init, hist], sort_keys=True)


def load_prefixes(path):
    _PREFIX.clear()
    n = 0
    with open(path) as f:
        for line in f:
            if line.strip():
                st = json.loads(line)
                _PREFIX[prefix_key(st['init'], st['hist'])] = st['cur']
                n += 1
    return n


def replay_chunk(args):
    import odl
    path, lo, hi, seed, variants, stride = args
    nev, out, keys = 0, [], set()
    with open(path) as f:
        for si, line in enumerate(f):
            if si < lo or si >= hi or not line.strip():
                continue
            if stride > 1 and (si + seed) % stride and si >= 40:
                # quick tier: every state's chain and object are still checked, the full alphabet on a rotating part
                st = json.loads(line)
                st['queries'] = st['queries'][(si + seed) % 3::3]
            else:
                st = json.loads(line)
            n, o, k = replay_state(st, si, seed, variants, odl)
            nev += n
            out.extend(o)
            keys.update(k)
    return nev, out, sorted(keys)


# ------------------------------------------------------------------ basic sets (replay of MC_GeomSetBasic)
def value_catalogue():
    """name -> Python value ; the TLA+ side knows only the kind / length / items of each name"""
    return {
        'i3': 3, 'i0': 0, 'in5': -5, 'npi64': np.int64(7), 'npi32': np.int32(-2),
        'f05': 0.5, 'fn2': -2.0, 'npf64': np.float64(1.25), 'npf32': np.float32(0.75),
        'c12': 1 + 2j, 'npc': np.complex128(0.5j),
        'sab': 'ab', 'sabc': 'abc', 'se': '',
        'none': None,
        't_i_f': (3, 0.5), 't_f_c': (0.5, 1 + 2j), 'l_i_s': [3, 'ab'], 't_i': (3,), 't_f_c_s': (0.5, 1 + 2j, 'ab'),
        'obj': object,
    }


def mk_set(d, odl, cat):
    cls = d['cls']
    if cls == 'Strings':
        return odl.Strings(d['n'])
    if cls in ('CartesianProduct', 'SetUnion', 'SetIntersection'):
        return getattr(odl, cls)(*[mk_set(s, odl, cat) for s in d['sub']])
    if cls == 'FiniteSet':
        return odl.FiniteSet(*[cat[e['id']] for e in d['els']])
    return getattr(odl, cls)()


def same_value(a, b):
    try:
        if type(a) in (tuple, list) or type(b) in (tuple, list):
            return len(a) == len(b) and all(same_value(x, y) for x, y in zip(a, b))
        return bool(a == b)
    except Exception:
        return False


def replay_sets(path, ctx, odl):
    cat = value_catalogue()
    n = 0

    def setsig(S, op, clause):
        return {'stage': STAGE, 'cls': S['cls'], 'op': op, 'clause': clause}

    def attempt(f):
        try:
            return f()
        except Exception as e:     # noqa
            return Raised(e)

    seen = set()
    with open(path) as f:
        for line in f:
            if not line.strip() or line in seen:        # TLC evaluates the constraint again on the stuttering successor
                continue
            seen.add(line)
            case = json.loads(line)
            S = case['S']
            real = mk_set(S, odl, cat)
            kind = case['kind']
            if kind == 'contains':
                for x, exp in zip(case['xs'], case['exp']):
                    got = attempt(lambda: cat[x['id']] in real)
                    n += 1
                    ctx.count(['set-contains', S, x['id']], exp)
                    if isinstance(got, Raised) or bool(got) != exp:
                        ctx.violation(setsig(S, 'contains', 'raised' if isinstance(got, Raised) else 'value'),
                                      {'stage_module': STAGE, 'set': S, 'value': x['id'], 'expected': exp,
                                       'observed': getattr(got, 'msg', got)})
            elif kind == 'contains_set':
                for T, exp in zip(case['Ts'], case['exp']):
                    other = mk_set(T, odl, cat)
                    got = attempt(lambda: real.contains_set(other))
                    n += 1
                    ctx.count(['set-contains_set', S, T], exp)
                    if isinstance(got, Raised) or bool(got) != exp:
                        ctx.violation(dict(setsig(S, 'contains_set', 'raised' if isinstance(got, Raised) else 'value'),
                                           other=T['cls']),
                                      {'stage_module': STAGE, 'set': S, 'other': T, 'expected': exp,
                                       'observed': getattr(got, 'msg', got)})
            elif kind == 'contains_all':
                for xs, exp, asked in zip(case['seqs'], case['exp'], case['asked']):
                    if not asked:
                        continue
                    vals = [cat[x['id']] for x in xs]
                    spells = [('list', list(vals)), ('tuple', tuple(vals))]
                    kinds = set(x['t'] for x in xs)
                    if kinds <= {'int', 'real', 'complex'} or kinds == {'str'}:
                        spells.append(('array', np.array(vals)))
                    for how, seq in spells:
                        got = attempt(lambda: real.contains_all(seq))
                        n += 1
                        ctx.count(['set-contains_all', S, [x['id'] for x in xs], how], exp)
                        if isinstance(got, Raised) or bool(got) != exp:
                            ctx.violation(dict(setsig(S, 'contains_all', 'raised' if isinstance(got, Raised) else 'value'),
                                               spelling=how, elements='/'.join(sorted(kinds))),
                                          {'stage_module': STAGE, 'set': S, 'seq': [x['id'] for x in xs],
                                           'spelling': how, 'expected': exp, 'observed': getattr(got, 'msg', got)})
            elif kind == 'element':
                for x, exp in zip(case['xs'], case['exp']):
                    if exp == 'unspecified':
                        continue
                    inp = cat[x['id']]
                    got = attempt(lambda: real.element(inp) if x['t'] != 'none' else
                                  (real.element() if n % 2 else real.element(None)))
                    n += 1
                    ctx.count(['set-element', S, x['id']], exp != 'err')
                    bad = None
                    if exp == 'err':
                        bad = None if isinstance(got, Raised) else 'no-error'
                    elif isinstance(got, Raised):
                        bad = 'raised'
                    elif exp == 'member':
                        bad = None if attempt(lambda: got in real) is True else 'not-a-member'
                    elif exp == 'same':
                        bad = None if got is inp or same_value(got, inp) else 'value'
                    elif exp == 'equal':
                        bad = None if (same_value(got, inp) and attempt(lambda: got in real) is True) else 'value'
                    if bad:
                        ctx.violation(setsig(S, 'element', bad),
                                      {'stage_module': STAGE, 'set': S, 'inp': x['id'], 'expected': exp,
                                       'observed': getattr(got, 'msg', repr(got))})
    return n


# ------------------------------------------------------------------ code -> spec: drivers beyond the TLC constants
def Q_(n, d=1):
    return Fraction(n, d)


def _item(k, i=0, a=NONE, b=NONE, s=NONE, l=()):
    return {'k': k, 'i': i, 'a': a, 'b': b, 's': s, 'l': list(l)}


def _call(op, i=(), q=(), o=(), s='', idx=()):
    return {'op': op, 'i': list(i), 'q': [qj(x) for x in q], 'o': list(o), 's': s, 'idx': list(idx)}


def _boxj(axes):
    return {'k': 'box', 'v': [[qj(a), qj(b)] for a, b in axes]}


def _gridj(vecs):
    return {'k': 'grid', 'v': [[qj(x) for x in v] for v in vecs]}


def rnd_box(rnd, n, den):
    axes = []
    for _ in range(n):
        a = Fraction(rnd.randint(-6 * den, 6 * den), den)
        w = 0 if rnd.random() < 0.2 else Fraction(rnd.randint(1, 5 * den), den)
        axes.append((a, a + w))
    return axes


def rnd_gridv(rnd, n, den, maxlen=9):
    vecs = []
    for _ in range(n):
        m = rnd.choice([1, 1, 2, 3, 4, 5, 7, maxlen])
        if rnd.random() < 0.5:
            a = Fraction(rnd.randint(-4 * den, 4 * den), den)
            h = Fraction(rnd.randint(1, 2 * den), den)
            vecs.append([a + k * h for k in range(m)])
        else:
            pts = sorted(rnd.sample(range(-5 * den, 5 * den), m))
            vecs.append([Fraction(p, den) for p in pts])
    return vecs


def box_calls(rnd, axes, den):
    """a random selection of calls on a dyadic box (all probes on the lattice 1/(4 den): floats are exact)"""
    n = len(axes)
    g = Fraction(1, 4 * den)
    tol = rnd.choice([Fraction(0), Fraction(1, den), Fraction(1, 2 * den), Fraction(3, 1)])
    mid = [(a + b) / 2 for a, b in axes]

    def probe():
        p = list(mid)
        for _ in range(rnd.randint(1, n)):
            a = rnd.randrange(n)
            side = rnd.randint(0, 1)
            d = rnd.choice([Fraction(0), tol, tol + g, tol - g if tol > 0 else g, 5 * g, Fraction(3), -g])
            p[a] = axes[a][0] - d if side == 0 else axes[a][1] + d
        return p

    def other_box():
        o = [list(ax) for ax in axes]
        for _ in range(rnd.randint(0, n)):
            a = rnd.randrange(n)
            d = rnd.choice([Fraction(0), tol, tol + g, tol - g if tol > 0 else g, Fraction(2)])
            if rnd.randint(0, 1):
                o[a][0] -= d
            else:
                o[a][1] += d
        if rnd.random() < 0.3:
            a = rnd.randrange(n)
            w = o[a][1] - o[a][0]
            o[a] = [o[a][0] + w / 4, o[a][1] - w / 4]
        return _boxj(o)

    def arith_box():
        return _boxj([rnd.choice([(Q_(-1), Q_(2)), (Q_(1, 2), Q_(3)), (Q_(-3), Q_(-1)), (Q_(0), Q_(2)), (Q_(-2), Q_(0)),
                                  (Q_(0), Q_(0)), (Q_(1, 4), Q_(1, 4))]) for _ in range(n)])

    def nozero_box():
        return _boxj([rnd.choice([(Q_(1, 2), Q_(4)), (Q_(-4), Q_(-1, 4)), (Q_(2), Q_(2)), (Q_(-1, 2), Q_(-1, 2))])
                      for _ in range(n)])

    calls = [_call(op) for op in ('ndim', 'true_ndim', 'min_pt', 'max_pt', 'mid_pt', 'extent', 'nondegen', 'volume',
                                  'length', 'area', 'squeeze', 'neg', 'pos')]
    calls += [_call('corners', s=rnd.choice('CF')), _call('element', s='none')]
    if any(a != b for a, b in axes):
        calls.append(_call('measure', i=[NONE]))
    calls += [_call('measure', i=[m]) for m in rnd.sample(range(1, n + 2), min(2, n + 1))]
    for _ in range(4):
        p = probe()
        calls += [_call('contains', q=p), _call('approx_contains', q=[tol] + p),
                  _call('dist', q=p, s=rnd.choice(['1', '2', 'inf'])), _call('element', q=p)]
    for _ in range(3):
        o = other_box()
        calls += [_call('contains_set', q=[tol], o=[o]), _call('approx_equals', q=[tol], o=[o])]
    for _ in range(2):
        pts = [probe() for _ in range(rnd.randint(2, 4))]
        calls.append(_call('contains_all', q=[tol], o=[{'k': 'pts', 'v': [[qj(x) for x in p] for p in pts]}]))
    a = rnd.randrange(n)
    calls += [_call('collapse', i=[a], q=[rnd.choice([axes[a][0], axes[a][1], mid[a], axes[a][1] + 1])]),
              _call('insert', i=[rnd.randint(-n - 1, n + 1)], o=[_boxj(rnd_box(rnd, rnd.randint(1, 2), den))]),
              _call('append', o=[_boxj(rnd_box(rnd, 1, den)), _boxj(rnd_box(rnd, 2, den))]),
              _call('getitem', idx=[_item('int', rnd.randint(-n - 1, n))]),
              _call('getitem', idx=[_item('slice', a=rnd.choice([NONE, 0, 1, -1]), b=rnd.choice([NONE, n, -1, 1]),
                                          s=rnd.choice([NONE, 1, 2]))]),
              _call('getitem', idx=[_item('list', l=[rnd.randint(-n, n - 1) for _ in range(rnd.randint(1, 3))])]),
              _call('add_s', q=[Fraction(rnd.randint(-8, 8), 4)]), _call('sub_s', q=[Fraction(rnd.randint(-8, 8), 4)]),
              _call('mul_s', q=[rnd.choice([Q_(-2), Q_(-1, 2), Q_(0), Q_(1, 4), Q_(3)])]),
              _call('div_s', q=[rnd.choice([Q_(-2), Q_(-1, 2), Q_(4), Q_(1, 4)])]),
              _call('add_b', o=[arith_box()]), _call('sub_b', o=[arith_box()]), _call('mul_b', o=[arith_box()]),
              _call('div_b', o=[nozero_box()]), _call('div_b', o=[arith_box()]),
              _call('rdiv_s', q=[rnd.choice([Q_(-2), Q_(1), Q_(4)])])]
    # uniform sampling with a dyadic stride: extent = (n - 1 + hL + hR) * h is arranged by the caller (see driver)
    return calls


def grid_calls(rnd, vecs, den):
    n = len(vecs)
    g = Fraction(1, 4 * den)
    spacing = min([v[i + 1] - v[i] for v in vecs for i in range(len(v) - 1)] or [Fraction(1000)])
    tols = [Fraction(0)] + [t for t in (Fraction(1, 2 * den), Fraction(1, 4 * den)) if 2 * t < spacing]
    tol = rnd.choice(tols)

    def probe():
        p = [rnd.choice(v) for v in vecs]
        for _ in range(rnd.randint(0, 2)):
            a = rnd.randrange(n)
            p[a] += rnd.choice([Fraction(0), tol, -tol, tol + g, -(tol + g), g])
        return p

    def other():
        o = [list(v) for v in vecs]
        how = rnd.choice(['same', 'shift', 'node', 'sub', 'super', 'mixed'])
        a = rnd.randrange(n)
        d = rnd.choice([tol, tol + g, g, -tol, Fraction(0)])
        if how == 'shift':
            o[a] = [x + d for x in o[a]]
        elif how == 'node':
            i = rnd.randrange(len(o[a]))
            o[a][i] += d
        elif how == 'sub':
            o[a] = o[a][::2]
        elif how == 'super':
            extra = [x + (o[a][1] - o[a][0]) / 2 for x in o[a][:-1]] if len(o[a]) > 1 else [o[a][0] + 1]
            o[a] = sorted(set(o[a] + extra))
        elif how == 'mixed':
            o[a] = o[a][::2]
            b = rnd.randrange(n)
            o[b] = [x + d for x in o[b]]
        for v in o:
            if any(v[i + 1] <= v[i] for i in range(len(v) - 1)):
                return _gridj(vecs)
        return _gridj(o)

    def idx():
        items = []
        k = rnd.randint(1, n + 1)
        ell = False
        for a in range(k):
            r = rnd.random()
            m = len(vecs[min(a, n - 1)])
            if r < 0.35:
                items.append(_item('int', rnd.randint(-m - 1, m)))
            elif r < 0.8:
                items.append(_item('slice', a=rnd.choice([NONE, 0, 1, -1, m]), b=rnd.choice([NONE, m, -1, 1, 0]),
                                   s=rnd.choice([NONE, 1, 2, 3])))
            elif r < 0.95 and not ell:
                items.append(_item('ell'))
                ell = True
            else:
                items.append(_item('none'))
        return items

    calls = [_call(op) for op in ('ndim', 'shape', 'size', 'min_pt', 'max_pt', 'mid_pt', 'extent', 'stride', 'nondegen',
                                  'is_uniform_byaxis', 'is_uniform', 'coord_vectors', 'element', 'corner_grid',
                                  'convex_hull', 'meshgrid', 'stride')]
    calls += [_call('corners', s=rnd.choice('CF'))]
    size = 1
    for v in vecs:
        size *= len(v)
    if size <= 200:
        calls.append(_call('points', s=rnd.choice('CF')))
    for _ in range(4):
        p = probe()
        calls += [_call('contains', q=p), _call('approx_contains', q=[tol] + p)]
    for _ in range(4):
        o = other()
        okself = tol == 0 or 2 * tol < spacing
        ov = [[fq(x) for x in v] for v in o['v']]
        ospacing = min([v[i + 1] - v[i] for v in ov for i in range(len(v) - 1)] or [Fraction(1000)])
        if okself:
            calls.append(_call('is_subgrid', q=[tol], o=[o]))
        if tol == 0 or 2 * tol < ospacing:
            calls.append(_call('is_supergrid', q=[tol], o=[o]))
        calls.append(_call('approx_equals', q=[tol], o=[o]))
    for _ in range(5):
        calls.append(_call('getitem', idx=idx()))
    calls += [_call('squeeze', s='all'),
              _call('squeeze', i=[rnd.randint(-n, n - 1)], s='axes'),
              _call('squeeze', i=sorted(set(rnd.randint(-n, n) for _ in range(2))), s='axes'),
              _call('insert', i=[rnd.randint(-n - 1, n + 1)], o=[_gridj(rnd_gridv(rnd, rnd.randint(1, 2), den, 4))]),
              _call('append', o=[_gridj(rnd_gridv(rnd, 1, den, 3)), _gridj(rnd_gridv(rnd, 1, den, 3))])]
    return calls


def ugrid_case(rnd, den):
    """a box whose extents make the stride of the requested uniform grid dyadic"""
    n = rnd.randint(1, 4)
    axes, shp, nb = [], [], []
    for _ in range(n):
        a = Fraction(rnd.randint(-4 * den, 4 * den), den)
        if rnd.random() < 0.15:
            axes.append((a, a))
            shp.append(1 if rnd.random() < 0.8 else 2)
            nb.append((rnd.randint(0, 1), rnd.randint(0, 1)))
            continue
        L, R = rnd.randint(0, 1), rnd.randint(0, 1)
        m = rnd.randint(1, 9)
        if m == 1 and L and R:
            m = 2
        h = Fraction(rnd.randint(1, 2 * den), den)
        cells = (m - 1) + Fraction(1 - L, 2) + Fraction(1 - R, 2)
        axes.append((a, a + cells * h))
        shp.append(m)
        nb.append((L, R))
    flat = [x for p in nb for x in p]
    return axes, _call('uniform_grid', i=shp + flat)


def event_lattice(objj, c, D0):
    """lattice denominator of one driver event (mirrors the arithmetic only to choose the lattice); None: the numbers of
    this call do not fit TLC's 32-bit integers - the call is not made"""
    op = c['op']
    if objj['k'] == 'box' and op in ('volume', 'length', 'area', 'measure'):
        v = Fraction(1)
        for a, b in objj['v']:
            if a != b:
                v *= fq(b) - fq(a)
        if v.numerator >= 2 ** 30 or v.denominator >= 2 ** 24:
            return None
        return lcm(D0, v.denominator)
    if op == 'rdiv_s':
        m = 1
        for a, b in objj['v']:
            for x in (a, b):
                if x[0] != 0:
                    m = lcm(m, abs(x[0]))
        if m > 2 ** 10 or len(objj['v']) > 2:
            return None
        return lcm(D0, m * fq(c['q'][0]).denominator)
    if op == 'dist' and c['s'] == '2':
        return D0 * 2 ** 6
    if op in ('mul_b', 'div_b', 'mul_s', 'div_s'):
        return D0 * 2 ** 4
    return D0


def driver_chunk(args):
    """runs real ODL, returns NDJSON lines (one event per public call)"""
    import odl
    seed, lo, hi, path = args
    n_ev = 0
    with open(path, 'w') as f:
        for tid in range(lo, hi):
            rnd = random.Random(seed * 1000003 + tid)
            den = rnd.choice([1, 2, 4, 8])
            pick = Pick(tid * 11 + seed)
            D0 = 3 * 2 ** 14
            kind = tid % 5
            if kind in (0, 1):
                axes = rnd_box(rnd, rnd.choice([1, 1, 2, 3, 4, 5]), den)
                objj = _boxj(axes)
            elif kind in (2, 3):
                objj = _gridj(rnd_gridv(rnd, rnd.choice([1, 1, 2, 3, 4]), den))
            else:
                axes, ucall = ugrid_case(rnd, den)
                objj = _boxj(axes)
            obj = mk_obj(objj, pick, odl)
            steps = 0
            while steps < 3:
                part = objj['k']
                if part == 'box':
                    axes = [(fq(a), fq(b)) for a, b in objj['v']]
                    calls = box_calls(rnd, axes, den) if axes else []
                    if kind == 4 and steps == 0:
                        calls = [ucall] + calls[:12]
                else:
                    vecs = [[fq(x) for x in v] for v in objj['v']]
                    calls = grid_calls(rnd, vecs, den) if vecs else []
                nxt = None
                for c in calls:
                    D = event_lattice(objj, c, D0)
                    if D is None:
                        continue
                    raw, extra = do_call(obj, part, c, pick, odl)
                    r = project(c['op'], part, raw, D, extra, odl, {'k': 'err', 'v': 'x'} if c['op'] == 'contains_set' else None)
                    if r['k'] == 'toowide':
                        continue
                    if r['k'] == 'err' and c['op'] != 'contains_set':
                        r['v'] = ''
                    ev = {'id': n_ev, 'tid': tid, 'obj': objj, 'c': c, 'r': r, 'sp': pick.used[-3:], 'x': extra}
                    f.write(json.dumps(ev) + '\n')
                    n_ev += 1
                    if r['k'] in ('box', 'grid') and isinstance(raw, (odl.IntervalProd, odl.RectGrid)) and \
                            1 <= len(r['v']) <= 5 and (nxt is None or rnd.random() < 0.25) and bit_exact(raw, r, odl):
                        small = all(x[1] != 0 and abs(x[0]) < 4000 * x[1] and x[1] <= 2 ** 10 and x[1] & (x[1] - 1) == 0
                                    for v in r['v'] for x in v)
                        if small:
                            nxt = (raw, r)
                if nxt is None:
                    break
                obj, objj = nxt[0], {'k': nxt[1]['k'], 'v': nxt[1]['v']}      # the derived REAL object and its projection
                steps += 1
    return n_ev


# ------------------------------------------------------------------ the stage
def tlc_retry(module, cfg, work, env, workers):
    """the models are small: 2 GB heap; one retry if the JVM did not deliver a verdict (the box may be overloaded)"""
    res = run_tlc(module, cfg, work, env=env, workers=workers, timeout=1500, heap='2g')
    if res.status == 'machinery':
        for k in ('OUT_STATES', 'OUT_TRANS', 'OUT_FILE'):
            if env.get(k) and os.path.exists(env[k]):
                os.remove(env[k])
        res = run_tlc(module, cfg, work, env=env, workers=workers, timeout=1500, heap='2g')
    return res


CORRUPT_ID = 999999999


def validate_trace(ctx, path, nchunk_lines=5000):
    """split an NDJSON trace into chunks, validate with Trace_GeomSet, report rejected events.  One recorded event is
    appended a second time with its boolean result flipped: the trace specification has to reject exactly that copy."""
    with open(path) as f:
        lines = f.readlines()
    corrupted_seen = []
    for line in lines:
        ev = json.loads(line)
        if ev['r']['k'] == 'bool' and ev['c']['op'] == 'contains':
            ev['r']['v'] = not ev['r']['v']
            ev['id'] = CORRUPT_ID
            lines.append(json.dumps(ev) + '\n')
            break
    else:
        raise MachineryError('no boolean event to corrupt in the trace')
    chunks = [lines[i:i + nchunk_lines] for i in range(0, len(lines), nchunk_lines)]
    paths = []
    for k, ch in enumerate(chunks):
        p = '%s.chunk%d' % (path, k)
        with open(p, 'w') as f:
            f.writelines(ch)
        paths.append(p)

    def go(p):
        return tlc_retry('Trace_GeomSet.tla', 'Trace_GeomSet.cfg', ctx.work, {'TRACE_FILE': p}, 1)

    with ThreadPoolExecutor(max_workers=6) as ex:
        results = list(ex.map(go, paths))
    nfail = 0
    for k, (res, ch) in enumerate(zip(results, chunks)):
        ctx.add_tlc('trace-%d' % k, res)
        for line_no, ev_id, clauses in parse_fails(res.output):
            ev = json.loads(ch[line_no - 1])
            nfail += 1
            import re
            m = re.search(r'<<\s*"([\w-]+)"', clauses)
            clause = m.group(1) if m else 'rejected'
            if ev['id'] == CORRUPT_ID:
                corrupted_seen.append(clause)
                continue
            ctx.violation(dict(signature(ev['obj'], ev['c'], clause, ev.get('x') or {}), source='trace'),
                          {'stage_module': STAGE, 'event': ev, 'clauses': clauses})
    if corrupted_seen != ['value']:
        raise MachineryError('the corrupted copy of a recorded event was not rejected by Trace_GeomSet: %r' % corrupted_seen)
    return len(lines) - 1, nfail


def run_stage(ctx):
    import multiprocessing as mp
    import odl
    thorough = ctx.tier != 'quick'
    env = {'GS_TIER': 'thorough' if thorough else 'quick', 'GS_FIXED': FIXED_IN_TREE or '-'}
    states = os.path.join(ctx.work, 'geomsets_states.ndjson')
    setsf = os.path.join(ctx.work, 'geomsets_sets.ndjson')
    env_x = dict(env, OUT_STATES=states)

    # ---- 1. TLC (laws, non-vacuity, layer C, basic sets, export) in threads; the drivers of step 3 run meanwhile
    jobs = [('geomset-export', 'MC_GeomSet.tla', 'MC_GeomSet_export.cfg', env_x, 1, 'ok'),
            ('geomset-laws', 'MC_GeomSet.tla', 'MC_GeomSet_laws.cfg', env, 6, 'ok'),
            ('geomset-bogus', 'MC_GeomSet.tla', 'MC_GeomSet_bogus.cfg', env, 2, 'any'),
            ('geomset-impl', 'MC_GeomSetImpl.tla', 'MC_GeomSetImpl.cfg', env, 4, 'ok'),
            ('geomset-impl-current', 'MC_GeomSetImpl.tla', 'MC_GeomSetImpl_all.cfg', env, 2, 'any'),
            ('geomset-basic', 'MC_GeomSetBasic.tla', 'MC_GeomSetBasic.cfg', dict(env, OUT_FILE=setsf), 1, 'ok')]
    ntid = 1500 if thorough else 160
    nd = 6
    per = (ntid + nd - 1) // nd
    dargs = [(ctx.seed, k * per, min(ntid, (k + 1) * per), os.path.join(ctx.work, 'geomsets_tr%d.ndjson' % k))
             for k in range(nd)]
    trace = os.path.join(ctx.work, 'geomsets_trace.ndjson')

    def drive_and_validate():
        with mp.get_context('fork').Pool(nd) as pool:
            counts = pool.map(driver_chunk, dargs)
        with open(trace, 'w') as out:
            for a in dargs:
                with open(a[3]) as f:
                    out.write(f.read())
        return sum(counts)

    import time
    t0 = time.time()
    laps = ctx.extra.setdefault('geomsets_laps_s', {})

    def lap(name):
        laps[name] = round(time.time() - t0, 1)

    ex = ThreadPoolExecutor(max_workers=len(jobs) + 1)
    futs = {j[0]: (j, ex.submit(tlc_retry, j[1], j[2], ctx.work, j[3], j[4])) for j in jobs}
    fdrive = ex.submit(drive_and_validate)

    # ---- 2. replay of the exported states as soon as the export is there
    ctx.add_tlc('geomset-export', futs['geomset-export'][1].result())
    lap('export')
    nstates = load_prefixes(states)
    if nstates < 300:
        raise MachineryError('geomsets export too small: %d states' % nstates)
    nproc = 10
    step = (nstates + nproc - 1) // nproc
    variants = 2 if thorough else 1
    stride = 1 if thorough else 3
    args = [(states, k * step, min(nstates, (k + 1) * step), ctx.seed, variants, stride) for k in range(nproc)]
    with mp.get_context('fork').Pool(nproc) as pool:
        parts = pool.map(replay_chunk, args)
    seen_fam = {}
    ninexact = 0
    for nev, out, keys in parts:
        ctx.count(None, False, n=nev)
        for k in keys:
            if k[0] == 'inexact-object':
                ninexact += 1
                continue
            ctx.count(['geomsets', k], True, n=0)
        for sig, detail in out:
            key = dumps(sig, sort_keys=True)
            seen_fam[key] = seen_fam.get(key, 0) + 1
            if seen_fam[key] <= 4:          # a handful of replay files per family is enough
                detail['stage_module'] = STAGE
                ctx.violation(sig, detail)
    if ninexact:
        ctx.drift_note('geomsets: %d exported objects tracked as exact are not bit-exact in real ODL; their queries were '
                       'not asked (GeomSetMachine!ExactStep needs another rounding rule)' % ninexact)
    ctx.traces += nstates
    ctx.extra['geomsets_states_replayed'] = nstates
    ctx.extra['geomsets_violation_cases_per_family'] = seen_fam

    lap('replay')
    # ---- 3. code -> spec: validate the recorded events
    nevents = fdrive.result()
    lap('drivers')
    nlines, nfail = validate_trace(ctx, trace)
    if nlines != nevents:
        raise MachineryError('trace lines lost: %d != %d' % (nlines, nevents))
    ctx.count(None, False, n=nlines)
    ctx.traces += ntid
    ctx.extra['geomsets_trace_events'] = nlines
    ctx.extra['geomsets_trace_rejected'] = nfail

    lap('trace')
    # ---- the remaining TLC verdicts
    for name, (j, fut) in futs.items():
        if name != 'geomset-export':
            ctx.add_tlc(name, fut.result(), expect=j[5])
    ex.shutdown()
    if futs['geomset-bogus'][1].result().status != 'counterexample':
        raise MachineryError('the bogus invariant was not refuted: the law run is vacuous')
    cur = futs['geomset-impl-current'][1].result()
    ctx.extra['geomsets_layerC_current_code_refuted'] = cur.status == 'counterexample'
    if cur.status == 'ok' and len(FIXED_IN_TREE) < 5:
        ctx.drift_note('geomsets: layer C with the open defects transcribed refines layer A - FIXED_IN_TREE is stale')
    lap('tlc-all')
    nsets = replay_sets(setsf, ctx, odl)
    ctx.extra['geomsets_basic_set_cases'] = nsets
    lap('sets')

    with open(states) as f:
        for k, line in enumerate(f):
            if k in (0, 60):
                st = json.loads(line)
                ctx.sample({'stage': STAGE, 'init': st['init'], 'chain': [c['op'] for c in st['hist']], 'object': st['cur'],
                            'query': st['queries'][25]['c'], 'expected': st['queries'][25]['r']})
            if k > 60:
                break
    ctx.extra['geomsets_rule'] = (
        'abstract case = (object kind, operation, kind of the expected result, tolerance class, number of axes, option) '
        'of a query asked of a reached object; one evaluation = one real call compared with the layer-A answer (replay) or '
        'one recorded event accepted / rejected by Trace_GeomSet; every exported chain is executed on real objects')
    ctx.assumptions += [
        'geomsets: interval arithmetic (+ - * / with scalars and interval products) has no prose documentation beyond '
        '"Return self + other"; the reference is the standard one (smallest box containing the pointwise results)',
        'geomsets: exceptions are compared by "raises / does not raise"; the class only where a Raises section names it '
        '(IntervalProd.contains_set: AttributeError)',
        'geomsets: tolerances are probed exactly (gap = atol) only on objects whose coordinates are dyadic; on other objects '
        'every decision has a margin of at least 1/64',
        'geomsets: is_subgrid is asked only with atol < half the spacing of the tested grid (the shape pre-check of the code '
        'is then implied by the documented criterion)',
        'geomsets: not asked (documentation silent or contradictory): measure(ndim=0) / measure() of a single point, '
        'uniform grids with one node and both nodes on the boundary of a non-degenerate axis, element([x]) with a list in 1-d, '
        'NumPy scalars on the left of "/", 0-dimensional products, negative slice steps, index lists on grids, '
        'lower-dimensional `other` in is_subgrid',
    ]
    return nstates


def replay(body):
    """./vcheck replay <file>: re-execute one recorded case on the current tree and show expectation and observation"""
    import odl
    det = body['detail']
    if 'event' in det:                       # a trace event: receiver, call and observation are in the event
        ev = det['event']
        obj = mk_obj(ev['obj'], Pick(0), odl)
        raw, extra = do_call(obj, ev['obj']['k'], ev['c'], Pick(0), odl)
        print('receiver   :', dumps(ev['obj']))
        print('call       :', dumps(ev['c']))
        print('recorded   :', dumps(ev['r']))
        print('observed   :', dumps(project(ev['c']['op'], ev['obj']['k'], raw, 3 * 2 ** 18, extra, odl)))
        print('rejected by Trace_GeomSet with', det.get('clauses'))
        return 1
    if 'set' in det:
        cat = value_catalogue()
        real = mk_set(det['set'], odl, cat)
        print('set        :', real)
        print('case       :', dumps({k: v for k, v in det.items() if k not in ('set', 'stage_module')}))
        return 1
    st = det['state']
    bad = 0
    for var in range(8):                     # the spelling rotation is not recorded literally: try several
        pick = Pick(var * 5)
        obj = mk_obj(st['init'], pick, odl)
        kind = st['init']['k']
        for c in st['hist']:
            obj, _ = do_call(obj, kind, c, pick, odl)
            if not isinstance(obj, (odl.IntervalProd, odl.RectGrid)):
                break
            kind = 'box' if isinstance(obj, odl.IntervalProd) else 'grid'
        else:
            if 'call' not in det:
                continue
            exp = det['expected']
            D = lattice(exp, st.get('cur') or [], det['call']['q'])
            raw, extra = do_call(obj, kind, det['call'], pick, odl)
            got = project(det['call']['op'], kind, raw, D, extra, odl, exp)
            if got != exp:
                bad += 1
                print('receiver   :', repr(obj).replace('\n', ' '))
                print('call       :', dumps(det['call']), ' spelling:', pick.used[-4:])
                print('expected   :', dumps(exp))
                print('observed   :', dumps(got), getattr(raw, 'msg', ''))
                break
    print('VIOLATION reproduced' if bad else 'not reproduced on this tree')
    return 1 if bad else 0

"""Replay of CallbackMachine behaviours (TLC export) on the real callback classes of odl.solvers.util.callback.
Each exported state carries a history of Call(v)/Reset and the expected per-leaf counters and logs; the history is
executed on ONE real callback object (built with & and * as the expression says) and the observable state is compared
after the last action (every prefix is itself an exported state, so every step of every behaviour is compared)."""
import contextlib
import io
import json
import os

import odl

from ..tlc import run_tlc
from ..common import MachineryError


class Probe(object):
    """Builds the real callback for an expression and exposes the leaves' observations in pre-order."""

    def __init__(self, expr):
        self.leaves = []
        self.root = self._build(expr)

    def _build(self, e):
        k = e['k']
        if k == 'and':
            return self._build(e['l']) & self._build(e['r'])
        if k == 'compose':
            return self._build(e['l']) * (lambda x: 10 * x)
        if k == 'store':
            cb = odl.solvers.CallbackStore(step=e['step'])
            self.leaves.append(('store', cb))
            return cb
        if k == 'apply':
            seen = []
            cb = odl.solvers.CallbackApply(seen.append, step=e['step'])
            self.leaves.append(('apply', cb, seen))
            return cb
        if k == 'printiter':
            cb = odl.solvers.CallbackPrintIteration(fmt='{}', step=e['step'])
            self.leaves.append(('printiter', cb))
            return cb
        raise ValueError(k)

    def run(self, hist):
        printed = io.StringIO()
        applied_marks = []
        with contextlib.redirect_stdout(printed):
            for h in hist:
                if h['a'] == 'call':
                    self.root(h['v'])
                else:
                    self.root.reset()
                    # what print / apply callbacks have emitted before a reset is history, not state
                    printed.seek(0)
                    printed.truncate(0)
                    for lf in self.leaves:
                        if lf[0] == 'apply':
                            del lf[2][:]
        logs, its = [], []
        nprint = sum(1 for lf in self.leaves if lf[0] == 'printiter')
        plines = [int(t) for t in printed.getvalue().split()]
        for lf in self.leaves:
            its.append(lf[1].iter)
            if lf[0] == 'store':
                logs.append(list(lf[1].results))
            elif lf[0] == 'apply':
                logs.append(list(lf[2]))
            else:
                logs.append(None)       # filled below when it can be told apart
        if nprint == 1:
            logs = [plines if lg is None else lg for lg in logs]
        return logs, its, plines


def run_stage(ctx, prop_sig=None):
    """Run TLC on CallbackMachine, replay every exported state; violations are reported through ctx."""
    out = os.path.join(ctx.work, 'callbacks.ndjson')
    res = run_tlc('MC_Callback.tla', 'MC_Callback.cfg', ctx.work,
                  env={'OUT_FILE': out, 'CB_LEN': '5' if ctx.tier == 'quick' else '6'}, workers=1, timeout=1500)
    ctx.add_tlc('callback-machine', res)
    n = 0
    seen = set()
    with open(out) as f:
        for line in f:
            if not line.strip() or line in seen:
                continue
            seen.add(line)
            st = json.loads(line)
            n += 1
            pr = Probe(st['shape'])
            try:
                logs, its, plines = pr.run(st['hist'])
                err = ''
            except Exception as ex:
                logs, its, err = [], [], type(ex).__name__
            ctx.count(['callback', st['shape'], st['hist']], len(st['hist']) >= 2)
            sig = {'part': 'callbacks', 'shape': json.dumps(st['shape'])[:80]}
            if err:
                ctx.violation(dict(sig, clause='callback-raised', exc=err), {'state': st})
                continue
            if its != st['it']:
                ctx.violation(dict(sig, clause='callback-iteration-counter'), {'state': st, 'observed_it': its})
            for i, (obs, exp) in enumerate(zip(logs, st['log'])):
                if obs is not None and obs != exp:
                    ctx.violation(dict(sig, clause='callback-observations'), {'state': st, 'leaf': i, 'observed': obs})
            if any(lg is None for lg in logs):
                # several print callbacks share stdout: compare the multiset of printed iteration numbers
                exp_all = sorted(v for lf, lg in zip(pr.leaves, st['log']) if lf[0] == 'printiter' for v in lg)
                if sorted(plines) != exp_all:
                    ctx.violation(dict(sig, clause='callback-observations'), {'state': st, 'printed': plines})
    if n < 1000:
        raise MachineryError('callback export too small: %d' % n)
    ctx.traces += n
    ctx.extra['callback_states_replayed'] = n
    return n

"""EXT/rotphantom - rotation utilities of odl.tomo.util.utility and the geometric phantoms of odl.phantom.

Specification: spec/sem/RotSem.tla (layer A, from the docstrings: euler_matrix, axis_rotation(_matrix),
rotation_matrix_from_to, transform_system, perpendicular_vector, is_inside_bounds; cuboid, ellipsoid_phantom, defrise,
indicate_proj_axis, cylinders_from_ellipses - exact over rationals: angles are rational points of the unit circle),
spec/mach/RotMachine.tla (layer B: a rigid body moved by the public calls, the laws as invariants),
spec/impl/RotImpl.tla (layer C: the branches of the code as written, checked to refine A), spec/cfg/MC_Rot*.tla
(bounded instances + export), spec/trace/Trace_Rot.tla (layer D).

Pipeline of `run_stage`:
  1. TLC: the history machine (laws + export of every state), one case job per function group (laws of the reference,
     C refines A, export of every case with the documented expectation), the bounding-box / min_pt / max_pt
     transcription of ellipsoid_phantom against A (with the repair switches of the open findings and without:
     the current code has to be refuted while a finding is open), a bogus law that has to be refuted.
  2. spec -> code: every exported case / history is executed on the real functions under rotating spellings
     (list / tuple / ndarray / int and float32 arrays / Fortran order / views, positional / keyword, Python and NumPy
     scalars, angles shifted by 2 pi, random non-cubic dyadic domains, float32 / float64 spaces).  Observations are
     projected onto the rational lattice (nearest fraction with denominator <= 10^5 within 2e-12) and compared with
     the exported expectation; everything that is not literally the expectation, and every case whose documentation
     is only relational, is handed to Trace_Rot: TLC decides.
  3. code -> spec: docstring examples, seeded random rational rotations / vectors / ellipses / histories beyond the
     TLC constants, defrise (the table is data, its documented regularities and the sampled array are decided by TLC)
     and indicate_proj_axis are recorded as events and validated by Trace_Rot.
Python never decides a value: it builds objects, projects observations and moves JSON.
"""
import json
import math
import os
import random
import re
import warnings
from concurrent.futures import ThreadPoolExecutor
from fractions import Fraction

import numpy as np

from ..tlc import run_tlc, parse_fails
from ..common import MachineryError, dumps

STANDALONE = True
STAGE = 'rotphantom'
FIXED_IN_TREE = 'b'          # letters of RotImpl switches that are repaired in the tree ('b' bounding box, 's' single-sided shift)
GROUPS = ('euler', 'axis', 'fromto', 'tsys', 'misc', 'cub', 'ell')
CORRUPT_ID = 999999999
DMAX = 10 ** 5
TOL = 2e-12
OFFQ = [0, 0]
LIM = 2 ** 31 - 1
ARR_D = 8                    # phantom values are multiples of 1/8
ARR_OFF = 999983             # an array entry that is not such a multiple
NOARG = {'sh': [], 'v': []}


# ------------------------------------------------------------------ exact <-> float
def fq(q):
    return Fraction(q[0], q[1])


def ff(q):
    return float(fq(q))


def tq(fr):
    fr = Fraction(fr)
    return [int(fr.numerator), int(fr.denominator)]


def qj(x):
    try:
        x = float(x)
    except (TypeError, ValueError):
        return OFFQ
    if not math.isfinite(x):
        return OFFQ
    q = Fraction(x).limit_denominator(DMAX)
    if abs(x - float(q)) <= TOL * max(1.0, abs(x)) and abs(q.numerator) <= LIM:
        return [int(q.numerator), int(q.denominator)]
    return OFFQ


def pvec(v):
    return [qj(x) for x in np.asarray(v).ravel()]


def pmat(m):
    return [[qj(x) for x in row] for row in np.asarray(m)]


def parr(arr):
    arr = np.asarray(arr)
    if np.iscomplexobj(arr):
        arr = np.where(arr.imag == 0, arr.real, np.nan)
    out = []
    for x in arr.astype(float).ravel(order='C'):
        y = x * ARR_D
        k = round(y) if math.isfinite(y) else None
        out.append(int(k) if k is not None and abs(y - k) <= 1e-4 and abs(k) < 10 ** 6 else ARR_OFF)
    return out


# ------------------------------------------------------------------ spellings
def angle(cs, rng):
    """a float whose cosine / sine is the rational point cs"""
    base = math.atan2(ff(cs[1]), ff(cs[0]))
    return base + 2 * math.pi * rng.choice((0, 0, 0, 1, -1))


def sp_scalar(x, rng):
    k = rng.randrange(4)
    if k == 0:
        return float(x)
    if k == 1:
        return np.float64(x)
    if k == 2:
        return np.array(float(x))
    return int(x) if float(x) == int(x) and abs(x) < 10 ** 6 else float(x)


def is_f32_exact(vals):
    return all(float(np.float32(v)) == float(v) for v in vals)


def sp_vec(q_vec, rng, owned=None, kinds=None):
    """a rational vector as list / tuple / ndarray (float, int, float32, non-contiguous view)"""
    vals = [ff(q) for q in q_vec]
    allint = all(fq(q).denominator == 1 for q in q_vec)
    opts = ['list', 'tuple', 'ndarray', 'view']
    if allint:
        opts += ['intlist', 'ndarray-int']
    if is_f32_exact(vals):
        opts.append('ndarray-f32')
    if kinds:
        opts = [o for o in opts if o in kinds]
    k = rng.choice(opts)
    if k == 'list':
        return list(vals)
    if k == 'tuple':
        return tuple(vals)
    if k == 'intlist':
        return [int(v) for v in vals]
    if k == 'ndarray':
        r = np.array(vals, dtype=float)
    elif k == 'ndarray-int':
        r = np.array([int(v) for v in vals])
    elif k == 'ndarray-f32':
        r = np.array(vals, dtype='float32')
    else:
        big = np.zeros(2 * len(vals))
        big[::2] = vals
        r = big[::2]
    if owned is not None:
        owned.append(r)
    return r


def sp_array(arr, rng, owned=None):
    """a float ndarray (ndim >= 1) as ndarray (C / Fortran / view) or nested list / tuple"""
    arr = np.asarray(arr, dtype=float)
    k = rng.randrange(5)
    if k == 0:
        return arr.tolist()
    if k == 1:
        def tup(x):
            return tuple(tup(y) for y in x) if isinstance(x, list) else x
        return tup(arr.tolist())
    if k == 2:
        r = np.array(arr, order='C')
    elif k == 3:
        r = np.asfortranarray(arr)
    else:
        big = np.zeros((2 * arr.shape[0],) + arr.shape[1:])
        big[::2] = arr
        r = big[::2]
    if owned is not None:
        owned.append(r)
    return r


def same(a, b):
    if a is None or b is None:
        return a is None and b is None
    if isinstance(a, (tuple, list)) and isinstance(b, (tuple, list)):
        return len(a) == len(b) and all(same(x, y) for x, y in zip(a, b))
    try:
        a, b = np.asarray(a), np.asarray(b)
        return a.shape == b.shape and bool(np.array_equal(a, b) or np.array_equal(np.nan_to_num(a), np.nan_to_num(b)))
    except Exception:
        return False


def snapshot(r):
    if r is None or isinstance(r, (bool, np.bool_)):
        return r
    if isinstance(r, (tuple, list)):
        return tuple(snapshot(x) for x in r)
    return np.array(np.asarray(r), copy=True)


def scribble(r, owned):
    """overwrite what a call returned (unless it is the caller's own array handed back)"""
    if isinstance(r, (tuple, list)):
        for x in r:
            scribble(x, owned)
        return
    arr = r if isinstance(r, np.ndarray) else getattr(getattr(r, 'tensor', None), 'data', None)
    if isinstance(arr, np.ndarray) and arr.size and arr.flags.writeable and arr.dtype.kind in 'fc' \
            and not any(np.shares_memory(arr, o) for o in owned):
        arr += 7


def observe(thunk, owned, post):
    """run the real call twice (the first result is overwritten in between); -> outcome record"""
    copies = [np.array(x, copy=True) for x in owned]
    try:
        with warnings.catch_warnings():
            warnings.simplefilter('ignore')
            r1 = thunk()
            mut = any(not same(x, c) for x, c in zip(owned, copies))
            o = post(r1)
            c1 = snapshot(r1)
            scribble(r1, owned)
            r2 = thunk()
        o['k'] = 'ok'
        o['mut'] = bool(mut)
        o['again'] = bool(same(c1, snapshot(r2)))
        return o
    except Exception as ex:                                     # the outcome is judged by the specification
        return {'k': 'err', 'exc': type(ex).__name__, 'mut': False, 'again': True}


# ------------------------------------------------------------------ the real calls
def util():
    from odl.tomo.util import utility
    return utility


def build_angle_arg(arg, rng, owned):
    if arg == NOARG:
        return None
    vals = [angle(cs, rng) for cs in arg['v']]
    if arg['sh'] == []:
        return sp_scalar(vals[0], rng) if rng.random() < 0.7 else float(vals[0])
    return sp_array(np.array(vals, dtype=float).reshape(arg['sh']), rng, owned)


def post_mats(r):
    arr = np.asarray(r)
    if arr.ndim < 2:
        return {'sh': list(arr.shape), 'mats': []}
    n, m = arr.shape[-2:]
    return {'sh': list(arr.shape[:-2]), 'mats': [pmat(x) for x in arr.reshape((-1, n, m))]}


def call_euler(a, rng):
    U = util()
    owned = []
    phi = build_angle_arg(a['phi'], rng, owned)
    theta = build_angle_arg(a['theta'], rng, owned)
    psi = build_angle_arg(a['psi'], rng, owned)
    k = rng.randrange(3)
    if theta is None and psi is None:
        thunk = [lambda: U.euler_matrix(phi), lambda: U.euler_matrix(phi, None, None),
                 lambda: U.euler_matrix(phi, theta=None)][k]
    elif psi is None:
        thunk = [lambda: U.euler_matrix(phi, theta), lambda: U.euler_matrix(phi, theta, None),
                 lambda: U.euler_matrix(phi, theta=theta)][k]
    else:
        thunk = [lambda: U.euler_matrix(phi, theta, psi), lambda: U.euler_matrix(phi, theta=theta, psi=psi),
                 lambda: U.euler_matrix(phi=phi, psi=psi, theta=theta)][k]
    return observe(thunk, owned, post_mats)


def call_axmat(a, rng):
    U = util()
    owned = []
    axis = sp_vec(a['k'], rng, owned)
    ang = build_angle_arg(a['ang'], rng, owned)
    thunk = (lambda: U.axis_rotation_matrix(axis, ang)) if rng.random() < 0.5 else \
        (lambda: U.axis_rotation_matrix(angle=ang, axis=axis))
    return observe(thunk, owned, post_mats)


def call_axrot(a, rng):
    U = util()
    owned = []
    axis = sp_vec(a['k'], rng, owned)
    ang = sp_scalar(angle(a['cs'], rng), rng)
    if a['single']:
        vecs = sp_vec(a['vecs'][0], rng, owned)
    else:
        vecs = sp_array(np.array([[ff(x) for x in v] for v in a['vecs']]), rng, owned)
    k = rng.randrange(2)
    if a['s'] == []:
        thunk = (lambda: U.axis_rotation(axis, ang, vecs)) if k else (lambda: U.axis_rotation(axis, angle=ang, vectors=vecs))
    else:
        shift = sp_vec(a['s'], rng, owned)
        thunk = (lambda: U.axis_rotation(axis, ang, vecs, shift)) if k else \
            (lambda: U.axis_rotation(axis, ang, vectors=vecs, axis_shift=shift))
    return observe(thunk, owned, lambda r: {'v': [pvec(x) for x in np.asarray(r, dtype=float).reshape((-1, 3))]})


def call_fromto(a, rng):
    U = util()
    owned = []
    u = sp_vec(a['u'], rng, owned)
    v = sp_vec(a['v'], rng, owned)
    thunk = (lambda: U.rotation_matrix_from_to(u, v)) if rng.random() < 0.6 else \
        (lambda: U.rotation_matrix_from_to(from_vec=u, to_vec=v))
    return observe(thunk, owned, lambda r: {'v': pmat(r)})


def call_tsys(a, rng):
    U = util()
    owned = []
    pv = sp_vec(a['pv'], rng, owned)
    pd = sp_vec(a['pd'], rng, owned)
    others = [None if o == [] else sp_vec(o, rng, owned) for o in a['others']]
    if rng.random() < 0.5:
        others = tuple(others)
    if a['mat'] == []:
        thunk = [lambda: U.transform_system(pv, pd, others), lambda: U.transform_system(pv, pd, others, None),
                 lambda: U.transform_system(pv, pd, other_vecs=others, matrix=None)][rng.randrange(3)]
    else:
        mat = sp_array(np.array([[ff(x) for x in row] for row in a['mat']]), rng, owned)
        thunk = [lambda: U.transform_system(pv, pd, others, mat),
                 lambda: U.transform_system(pv, pd, others, matrix=mat)][rng.randrange(2)]

    def post(r):
        return {'v': [[] if x is None else pvec(x) for x in r]}
    return observe(thunk, owned, post)


def call_perp(a, rng):
    U = util()
    owned = []
    n = len(a['vecs'][0])
    if a['sh'] == []:
        vec = sp_vec(a['vecs'][0], rng, owned)
    else:
        vec = sp_array(np.array([[ff(x) for x in v] for v in a['vecs']]).reshape(a['sh'] + [n]), rng, owned)
    thunk = (lambda: U.perpendicular_vector(vec)) if rng.random() < 0.7 else (lambda: U.perpendicular_vector(vec=vec))

    def post(r):
        arr = np.asarray(r)
        if arr.ndim < 1:
            return {'sh': [-1], 'v': []}
        return {'sh': list(arr.shape[:-1]), 'v': [pvec(x) for x in arr.reshape((-1, arr.shape[-1]))]}
    return observe(thunk, owned, post)


def call_inside(a, rng):
    import odl
    U = util()
    owned = []
    nd = len(a['lo'])
    lo = [ff(x) for x in a['lo']]
    hi = [ff(x) for x in a['hi']]
    k = rng.randrange(3)
    if nd == 1 and k == 0:
        params = odl.IntervalProd(lo[0], hi[0])
    elif k == 1:
        params = odl.IntervalProd(np.array(lo), np.array(hi))
    else:
        params = odl.IntervalProd(lo, hi)
    if a['mode'] == 'zip':
        pts = [[ff(x) for x in p] for p in a['pts']]
        if len(pts) == 1:
            if nd == 1:
                value = [pts[0][0], np.float64(pts[0][0]), [pts[0][0]], np.array(pts[0])][rng.randrange(4)]
            else:
                value = sp_vec(a['pts'][0], rng, owned, kinds=('list', 'tuple', 'ndarray', 'view'))
        elif nd == 1:
            flat = np.array([p[0] for p in pts])
            value = [flat.tolist(), flat, flat[:, None], tuple(flat.tolist())][rng.randrange(4)]
        else:
            byaxis = np.array(pts).T                            # one row per axis
            value = [byaxis, [row for row in byaxis], [row.tolist() for row in byaxis],
                     tuple(np.array(row) for row in byaxis)][rng.randrange(4)]
    else:
        axes = []
        for i, ax in enumerate(a['pts']):
            v = np.array([ff(x) for x in ax])
            shape = [1] * nd
            shape[i] = len(v)
            axes.append(v.reshape(shape))
        value = axes if rng.random() < 0.5 else tuple(axes)
    thunk = (lambda: U.is_inside_bounds(value, params)) if rng.random() < 0.7 else \
        (lambda: U.is_inside_bounds(value=value, params=params))

    def post(r):
        if not isinstance(r, (bool, np.bool_)):
            raise TypeError('is_inside_bounds returned %s' % type(r).__name__)
        return {'v': bool(r)}
    return observe(thunk, owned, post)


# ---- phantoms
H_POOL = (Fraction(1, 4), Fraction(1, 2), Fraction(1), Fraction(2), Fraction(1, 8), Fraction(3, 2), Fraction(3, 4))
LO_POOL = (Fraction(-2), Fraction(-1), Fraction(0), Fraction(1, 2), Fraction(-1, 4), Fraction(3), Fraction(-5, 2))
DTYPES = ('float64', 'float32', 'float64')


def make_space(shape, rng, axes=None, dtype=None, nob=False):
    """uniform_discr with a random non-cubic dyadic domain (or the exact axes [lo, hi, n] of the case)"""
    import odl
    if axes is None:
        los = [rng.choice(LO_POOL) for _ in shape]
        hs = [rng.choice(H_POOL) for _ in shape]
        his = [l + n * h for l, n, h in zip(los, shape, hs)]
    else:
        los = [fq(ax['lo']) for ax in axes]
        his = [fq(ax['hi']) for ax in axes]
        hs = [(h - l) / n for l, h, n in zip(los, his, shape)]
    dtype = dtype or rng.choice(DTYPES)
    k = rng.randrange(3)
    lo_f, hi_f = [float(x) for x in los], [float(x) for x in his]
    if nob and rng.random() < 0.25:
        # the normalised coordinates of a phantom depend on the grid shape only: nodes on the boundary change nothing
        space = odl.uniform_discr(lo_f, hi_f, tuple(shape), dtype=dtype,
                                  nodes_on_bdry=rng.choice((True, [(rng.random() < 0.5, rng.random() < 0.5) for _ in shape])))
    elif k == 0:
        space = odl.uniform_discr(lo_f, hi_f, list(shape), dtype=dtype)
    elif k == 1:
        space = odl.uniform_discr(np.array(lo_f), np.array(hi_f), tuple(shape), dtype=dtype)
    else:
        space = odl.uniform_discr(tuple(lo_f), tuple(hi_f), shape=tuple(int(n) for n in shape), dtype=dtype)
    return space, los, hs


def sp_point(vals, rng, owned):
    vals = [float(v) for v in vals]
    k = rng.randrange(3)
    if k == 0:
        return list(vals)
    if k == 1:
        return tuple(vals)
    r = np.array(vals)
    owned.append(r)
    return r


def box_points(a, los, hs, rng, owned):
    mn = mx = None
    if a['i0'] != []:
        mn = sp_point([l + i * h for l, i, h in zip(los, a['i0'], hs)], rng, owned)
    if a['i1'] != []:
        mx = sp_point([l + i * h for l, i, h in zip(los, a['i1'], hs)], rng, owned)
    return mn, mx


def ell_rows(ells, rng):
    rows = []
    for e in ells:
        rows.append([ff(e['val'])] + [ff(x) for x in e['ax']] + [ff(x) for x in e['c']] + [angle(cs, rng) for cs in e['rot']])
    return rows


def sp_rows(rows, rng, owned):
    k = rng.randrange(4)
    if k == 0 or not rows:
        return [list(r) for r in rows]
    if k == 1:
        return tuple(tuple(r) for r in rows)
    if k == 2:
        r = np.array(rows, dtype=float)
        owned.append(r)
        return r
    out = [np.array(r, dtype=float) for r in rows]
    owned.extend(out)
    return out


def phantom_call(fun, space, pos, mn, mx, rng, kw=None):
    """ODL phantom with min_pt / max_pt positional, keyword or omitted"""
    kw = dict(kw or {})
    if mn is None and mx is None:
        k = rng.randrange(3)
        if k == 0:
            return lambda: fun(space, *pos, **kw)
        if k == 1:
            return lambda: fun(space, *pos, min_pt=None, max_pt=None, **kw)
        return lambda: fun(space, *pos, max_pt=None, **kw)
    if rng.random() < 0.5 and not kw:
        return lambda: fun(space, *(list(pos) + [mn, mx]))
    return lambda: fun(space, *pos, min_pt=mn, max_pt=mx, **kw)


def post_arr(space):
    def post(r):
        if r not in space:
            raise TypeError('phantom is not an element of the space')
        return {'D': ARR_D, 'v': parr(r.asarray())}
    return post


def call_ell(a, rng):
    import odl
    owned = []
    space, los, hs = make_space(a['shape'], rng, nob=(a['i0'] == [] and a['i1'] == []))
    rows = ell_rows(a['ells'], rng)
    if a['cyl']:
        from odl.phantom.phantom_utils import cylinders_from_ellipses
        rows2 = sp_rows(rows, rng, owned) if rows else np.zeros((0, 6))
        thunk = lambda: odl.phantom.ellipsoid_phantom(space, cylinders_from_ellipses(rows2))
        return observe(thunk, owned, post_arr(space))
    mn, mx = box_points(a, los, hs, rng, owned)
    ells = sp_rows(rows, rng, owned)
    return observe(phantom_call(odl.phantom.ellipsoid_phantom, space, [ells], mn, mx, rng), owned, post_arr(space))


def call_cub(a, rng):
    import odl
    owned = []
    shape = [ax['n'] for ax in a['sp']]
    space, los, hs = make_space(shape, rng, axes=a['sp'])
    mn = None if a['lo'] == [] else sp_point([ff(x) for x in a['lo']], rng, owned)
    mx = None if a['hi'] == [] else sp_point([ff(x) for x in a['hi']], rng, owned)
    return observe(phantom_call(odl.phantom.cuboid, space, [], mn, mx, rng), owned, post_arr(space))


SM_D = 2 ** 16


def call_smoothcub(a, rng):
    import odl
    owned = []
    shape = [ax['n'] for ax in a['sp']]
    space, los, hs = make_space(shape, rng, axes=a['sp'])
    mn = None if a['lo'] == [] else sp_point([ff(x) for x in a['lo']], rng, owned)
    mx = None if a['hi'] == [] else sp_point([ff(x) for x in a['hi']], rng, owned)
    axes = a['axes']
    if len(axes) == 1:
        axis = [axes[0], np.int64(axes[0]), [axes[0]], (axes[0],)][rng.randrange(4)]
    else:
        axis = [list(axes), tuple(axes), np.array(axes)][rng.randrange(3)]
    if axes == [0] and rng.random() < 0.3:
        thunk = lambda: odl.phantom.smooth_cuboid(space, mn, mx)
    elif rng.random() < 0.5:
        thunk = lambda: odl.phantom.smooth_cuboid(space, mn, mx, axis)
    else:
        thunk = lambda: odl.phantom.smooth_cuboid(space, min_pt=mn, max_pt=mx, axis=axis)

    def post(r):
        if r not in space:
            raise TypeError('phantom is not an element of the space')
        v = []
        for x in np.asarray(r.asarray(), dtype=float).ravel():
            v.append(int(round(x * SM_D)) if math.isfinite(x) and abs(x) < 100 else -ARR_OFF)
        return {'D': SM_D, 'v': v}
    return observe(thunk, owned, post)


def ptab(tab):
    """defrise_ellipses table -> ellipse records of RotSem (angles are 0 in the table: the point (1, 0))"""
    out = []
    for row in tab:
        row = list(row)
        dim = 2 if len(row) == 6 else 3
        angs = row[1 + 2 * dim:]
        out.append({'val': qj(row[0]), 'ax': [qj(x) for x in row[1:1 + dim]], 'c': [qj(x) for x in row[1 + dim:1 + 2 * dim]],
                    'rot': [[qj(math.cos(t)), qj(math.sin(t))] for t in angs]})
    return out


def call_defrise(a, rng):
    """a lacks tab / thin: they are observed from defrise_ellipses and added to the event"""
    import odl
    from odl.phantom.geometric import defrise_ellipses
    owned = []
    dim = len(a['shape'])
    space, los, hs = make_space(a['shape'], rng)
    n = a['n'] if rng.random() < 0.6 else np.int64(a['n'])
    alt = a['alt'] if rng.random() < 0.6 else np.bool_(a['alt'])
    a['tab'] = ptab(defrise_ellipses(dim, nellipses=a['n'], alternating=a['alt']))
    a['thin'] = qj(defrise_ellipses(dim, a['n'] + 1, a['alt'])[0][dim])
    mn, mx = box_points(a, los, hs, rng, owned)
    if rng.random() < 0.5:
        thunk = phantom_call(odl.phantom.defrise, space, [n, alt], mn, mx, rng)
    else:
        thunk = phantom_call(odl.phantom.defrise, space, [], mn, mx, rng, kw={'nellipses': n, 'alternating': alt})
    return observe(thunk, owned, post_arr(space))


def call_projaxis(a, rng):
    import odl
    space, los, hs = make_space(a['shape'], rng, nob=True)
    if a['default']:
        thunk = [lambda: odl.phantom.indicate_proj_axis(space), lambda: odl.phantom.indicate_proj_axis(space, 0.5),
                 lambda: odl.phantom.indicate_proj_axis(space, scale_structures=np.float64(0.5))][rng.randrange(3)]
    else:
        thunk = lambda: odl.phantom.indicate_proj_axis(space, scale_structures=1.0)

    def post(r):
        if r not in space:
            raise TypeError('phantom is not an element of the space')
        arr = r.asarray()
        return {'v': [int(x) if float(x) == int(x) else ARR_OFF for x in arr.ravel()]}
    return observe(thunk, [], post)


def call_hist(a, rng):
    """execute a history of the machine on real arrays; every step is a public call"""
    U = util()
    p0 = np.array([ff(x) for x in a['p0']])
    q0 = np.array([ff(x) for x in a['q0']])
    dnorm = float(np.linalg.norm(p0 - q0))

    def thunk():
        M, p, q = np.eye(3), p0.copy(), q0.copy()
        for act in a['hist']:
            kind = act['a']
            if kind == 'axrot':
                axis = sp_vec(act['k'], rng)
                ang = sp_scalar(angle(act['cs'], rng), rng)
                R = U.axis_rotation_matrix(axis, ang)
                both = [p, q] if rng.random() < 0.5 else np.array([p, q])
                out = U.axis_rotation(axis, ang, both) if act['s'] == [] else \
                    U.axis_rotation(axis, ang, both, axis_shift=sp_vec(act['s'], rng))
                p, q = np.array(out[0]), np.array(out[1])
                M = R.dot(M)
            elif kind == 'euler':
                R = U.euler_matrix(*[sp_scalar(angle(cs, rng), rng) for cs in act['e']])
                M, p, q = R.dot(M), R.dot(p), R.dot(q)
            elif kind == 'fromto':
                R = U.rotation_matrix_from_to(p - q, sp_vec(act['t'], rng))
                M, p, q = R.dot(M), R.dot(p), R.dot(q)
            elif kind == 'tsys':
                scale = rng.choice((1.0, 2.0, 0.5, dnorm))
                t = np.array([ff(x) for x in act['t']]) * scale
                out = U.transform_system(t, p - q, [p, q, None, M[:, 0], M[:, 1], M[:, 2]])
                if out[3] is not None or not same(out[0], t):
                    raise ValueError('transform_system lost an entry')
                p, q = np.array(out[1]), np.array(out[2])
                M = np.column_stack(out[4:7])
            elif kind == 'undo':
                d = p - q
                out = U.transform_system(d, d[::-1].copy(), (p, q), matrix=M.T)
                p, q = np.array(out[1]), np.array(out[2])
                M = M.T.dot(M)
            else:
                raise MachineryError('unknown action ' + kind)
        return M, p, q
    copies_before = (p0.copy(), q0.copy())
    try:
        with warnings.catch_warnings():
            warnings.simplefilter('ignore')
            M, p, q = thunk()
        return {'k': 'ok', 'M': pmat(M), 'p': pvec(p), 'q': pvec(q),
                'mut': not (same(p0, copies_before[0]) and same(q0, copies_before[1])), 'again': True}
    except MachineryError:
        raise
    except Exception as ex:
        return {'k': 'err', 'exc': type(ex).__name__, 'mut': False, 'again': True}


CALLS = {'euler': call_euler, 'axmat': call_axmat, 'axrot': call_axrot, 'fromto': call_fromto, 'tsys': call_tsys,
         'perp': call_perp, 'inside': call_inside, 'ell': call_ell, 'cub': call_cub, 'defrise': call_defrise,
         'projaxis': call_projaxis, 'smoothcub': call_smoothcub, 'hist': call_hist}


def make_event(fn, a, seed_key):
    rng = random.Random(seed_key)
    a = json.loads(json.dumps(a))
    o = CALLS[fn](a, rng)
    return {'id': 0, 'fn': fn, 'a': a, 'o': o, 'rs': seed_key}


# ------------------------------------------------------------------ literal comparison with the export
def literally_expected(ev, exp):
    """True if the projected observation is literally the exported expectation (then TLC need not be asked again)"""
    o = ev['o']
    if o['k'] != 'ok' or o['mut'] or not o['again']:
        return False
    k = exp['k']
    if k == 'rel':
        return False
    if k == 'mats':
        return o['sh'] == exp['v']['sh'] and o['mats'] == exp['v']['mats']
    if k in ('vecs', 'mat', 'bool'):
        return o['v'] == exp['v']
    if k == 'arr':
        if len(o['v']) != len(exp['v']):
            return False
        return all(e == OFFQ or Fraction(v, o['D']) == fq(e) for v, e in zip(o['v'], exp['v']))
    return False


def replay_cases(path, seed, variants):
    """-> (events for TLC (not literally expected), stats)"""
    pending, n, leaves = [], 0, {}
    seen = set()
    with open(path) as f:
        for ln, line in enumerate(f):
            if not line.strip() or line in seen:               # the constraint is evaluated twice on an initial state
                continue
            seen.add(line)
            case = json.loads(line)
            a, exp = case['a'], case['exp']
            fn = a['fn']
            for var in range(variants):
                ev = make_event(fn, a, '%s/%s/%d/%d' % (seed, fn, ln, var))
                n += 1
                leaf = (fn, exp.get('cell', exp['k']))
                leaves[leaf] = leaves.get(leaf, 0) + 1
                if not literally_expected(ev, exp):
                    ev['src'] = 'replay'
                    ev['exp_k'] = exp['k']
                    pending.append(ev)
    return pending, n, leaves


def replay_hist(path, seed, stride):
    pending, n = [], 0
    with open(path) as f:
        for ln, line in enumerate(f):
            if not line.strip() or (ln % stride and ln > 200):
                continue
            st = json.loads(line)
            a = {'hist': st['hist'], 'p0': P0, 'q0': Q0}
            ev = make_event('hist', a, '%s/hist/%d' % (seed, ln))
            n += 1
            o = ev['o']
            if not (o['k'] == 'ok' and o['M'] == st['M'] and o['p'] == st['p'] and o['q'] == st['q'] and not o['mut']):
                ev['src'] = 'replay'
                pending.append(ev)
    return pending, n


P0 = [[1, 1], [2, 1], [2, 1]]
Q0 = [[0, 1], [0, 1], [0, 1]]


# ------------------------------------------------------------------ code -> spec drivers
def iv(*xs):
    return [tq(x) for x in xs]


def doc_examples():
    """the docstring examples that are on the lattice"""
    A90 = [[0, 1], [1, 1]]
    ez = iv(0, 0, 1)
    ev = []

    def add(fn, a):
        ev.append((fn, a))
    add('axrot', {'k': ez, 'cs': A90, 'vecs': [iv(1, 0, 0)], 'single': True, 's': []})
    add('axrot', {'k': ez, 'cs': A90, 'vecs': [iv(0, 1, 0)], 'single': True, 's': []})
    add('axrot', {'k': ez, 'cs': A90, 'vecs': [iv(1, 0, 0)], 'single': True, 's': iv(0, 0, 2)})
    add('axrot', {'k': ez, 'cs': A90, 'vecs': [iv(1, 0, 0)], 'single': True, 's': iv(1, 0, 0)})
    add('axrot', {'k': ez, 'cs': A90, 'vecs': [iv(1, 0, 0)], 'single': True, 's': iv(-1, 0, 0)})
    add('axrot', {'k': ez, 'cs': A90, 'vecs': [iv(1, 0, 0), iv(0, 1, 0)], 'single': False, 's': []})
    for v in (iv(0, 1), iv(1, 0), iv(0, 1, 0), iv(0, 0, 1), iv(1, 0, 0)):
        add('perp', {'sh': [], 'vecs': [v]})
    add('perp', {'sh': [2], 'vecs': [iv(0, 1, 0), iv(0, 0, 1)]})
    add('perp', {'sh': [2, 3], 'vecs': [iv(0, 1, 0)] * 6})
    add('inside', {'lo': iv(0, 0), 'hi': iv(1, 2), 'mode': 'zip', 'pts': [iv(0, 0)]})
    add('inside', {'lo': iv(0, 0), 'hi': iv(1, 2), 'mode': 'zip', 'pts': [iv(0, -1)]})
    add('inside', {'lo': iv(0, 0), 'hi': iv(1, 2), 'mode': 'mesh', 'pts': [iv(0, 0, 1, 0, 1), iv(2, 0, 1)]})
    add('inside', {'lo': iv(0, 0), 'hi': iv(1, 2), 'mode': 'mesh', 'pts': [iv(0, 0, 1, 0, 1), iv(-2, 1)]})
    sp = [{'lo': tq(0), 'hi': tq(1), 'n': 4}, {'lo': tq(0), 'hi': tq(1), 'n': 6}]
    add('cub', {'sp': sp, 'lo': [], 'hi': []})
    add('cub', {'sp': sp, 'lo': iv(Fraction(1, 4), 0), 'hi': iv(Fraction(3, 4), Fraction(1, 2))})
    zero2 = [[tq(1), tq(0)]]
    add('ell', {'shape': [5, 5], 'i0': [], 'i1': [], 'cyl': False, 'ells': [
        {'val': tq(1), 'ax': iv(1, 1), 'c': iv(0, 0), 'rot': zero2},
        {'val': tq(1), 'ax': iv(Fraction(3, 5), Fraction(3, 5)), 'c': iv(0, 0), 'rot': zero2}]})
    add('projaxis', {'shape': [8, 8], 'default': True})
    add('projaxis', {'shape': [8, 8, 8], 'default': True})
    add('fromto', {'u': iv(1, 0, 0), 'v': iv(0, 3, 4)})
    return ev


def cs_pool(maxden):
    out = [[tq(1), tq(0)], [tq(0), tq(1)], [tq(-1), tq(0)], [tq(0), tq(-1)]]
    for a, b, c in ((3, 4, 5), (5, 12, 13), (8, 15, 17), (7, 24, 25), (20, 21, 29)):
        if c > maxden:
            continue
        for x, y in ((a, b), (b, a)):
            for sx in (1, -1):
                for sy in (1, -1):
                    out.append([tq(Fraction(sx * x, c)), tq(Fraction(sy * y, c))])
    return out


def unit_pool(maxden):
    out = []
    for v, n in (((1, 0, 0), 1), ((1, 2, 2), 3), ((2, 3, 6), 7), ((0, 3, 4), 5), ((1, 4, 8), 9), ((4, 4, 7), 9), ((2, 6, 9), 11)):
        if n <= maxden:
            out.append((v, n))
    return out


def rand_unit(rng, maxden):
    v, n = rng.choice(unit_pool(maxden))
    v = list(v)
    rng.shuffle(v)
    return [tq(Fraction(rng.choice((1, -1)) * x, n)) for x in v], n


def rand_ratvec(rng, dim, maxden):
    """vector with a rational norm: a scaled rational unit vector"""
    if dim == 2:
        a, b, c = rng.choice(((1, 0, 1), (3, 4, 5), (5, 12, 13), (4, 3, 5), (0, 1, 1), (8, 15, 17)))
        if c > maxden:
            a, b, c = 3, 4, 5
        u, n = [Fraction(rng.choice((1, -1)) * a, c), Fraction(rng.choice((1, -1)) * b, c)], c
    else:
        uq, n = rand_unit(rng, maxden)
        u = [fq(x) for x in uq]
    scale = rng.choice((1, 1, 2, 3, Fraction(1, 2), 5, Fraction(3, 4))) * n if rng.random() < 0.8 else rng.choice((1, 2, Fraction(1, 4)))
    return [tq(x * scale) for x in u], n


def rand_vec(rng, dim):
    return [tq(Fraction(rng.randint(-6, 6), rng.choice((1, 1, 2, 4)))) for _ in range(dim)]


def rand_ells(rng, dim, n):
    ells = []
    for _ in range(n):
        val = tq(rng.choice((1, -1, 2, Fraction(1, 2), Fraction(1, 4), Fraction(-1, 2), 3)))
        if dim == 2:
            rot = [rng.choice(cs_pool(5))]
            ks = (2, 3, 4, 6, 8) if rot[0][0][1] > 1 else (2, 3, 4, 5, 6, 7, 8)
            ax = [tq(Fraction(rng.choice(ks), 8)) for _ in range(2)]
            c = [tq(Fraction(rng.randint(-3, 3), 4)) for _ in range(2)]
        else:
            ax = [tq(Fraction(rng.choice((2, 3, 4, 6, 8)), 8)) for _ in range(3)]
            c = [tq(Fraction(rng.randint(-1, 1), 2)) for _ in range(3)]
            rot = [rng.choice(cs_pool(1)) for _ in range(3)]
            if rng.random() < 0.6:
                rot[rng.randrange(3)] = rng.choice(cs_pool(5))
            if rng.random() < 0.25:
                rot = [[tq(1), tq(0)]] * 3
        ells.append({'val': val, 'ax': ax, 'c': c, 'rot': rot})
    return ells


def lcm_ok(shape, bound):
    """TLC integers are 32-bit: the normalised coordinates -1 + 2 i / (n - 1) of all axes are mixed by a rotation, so the
    least common multiple of the n - 1 is kept small"""
    m = 1
    for n in shape:
        if n > 1:
            m = m * (n - 1) // math.gcd(m, n - 1)
    return m <= bound


def rand_shape(rng, dim):
    while True:
        shape = [rng.randint(1, 13) for _ in range(2)] if dim == 2 else [rng.randint(1, 7) for _ in range(3)]
        if lcm_ok(shape, 12 if dim == 2 else 6):
            return shape


def rand_box(rng, shape, check=True):
    k = rng.randrange(5)
    if k < 2 or min(shape) < 3:
        return [], []
    for _ in range(50):
        i0 = [rng.randint(0, n // 2 - 1) if n >= 4 else 0 for n in shape]
        i1 = [rng.randint(n // 2 + 1, n) for n in shape]
        if not check or lcm_ok([b - a for a, b in zip(i0, i1)], 12 if len(shape) == 2 else 6):
            break
    else:
        return [], []
    if k == 2:
        return i0, i1
    if k == 3:
        return i0, []
    return [], i1


def random_cases(seed, n):
    rng = random.Random('rotphantom-%s' % seed)
    out = []
    for _ in range(n):
        r = rng.random()
        if r < 0.10:
            def arg(p):
                if rng.random() < p:
                    return NOARG
                if rng.random() < 0.6:
                    return {'sh': [], 'v': [rng.choice(cs_pool(17))]}
                sh = rng.choice(([3], [1], [2, 1], [1, 3], [2, 3], [4]))
                return {'sh': sh, 'v': [rng.choice(cs_pool(13)) for _ in range(int(np.prod(sh)))]}
            phi = arg(0.0)
            theta, psi = arg(0.4), arg(0.4)
            # broadcast-compatible shapes only: equalise every array argument that is not a scalar to phi's trailing size
            shapes = [x['sh'] for x in (phi, theta, psi) if x != NOARG]
            try:
                np.broadcast(*[np.zeros(s) for s in shapes])
            except ValueError:
                theta = psi = NOARG
            out.append(('euler', {'phi': phi, 'theta': theta, 'psi': psi}))
        elif r < 0.17:
            k, _ = rand_unit(rng, 11)
            sh = rng.choice(([], [], [3], [2, 2], [1]))
            out.append(('axmat', {'k': k, 'ang': {'sh': sh, 'v': [rng.choice(cs_pool(13)) for _ in range(int(np.prod(sh)) if sh else 1)]}}))
        elif r < 0.25:
            k, _ = rand_unit(rng, 11)
            nv = rng.choice((1, 1, 2, 5))
            out.append(('axrot', {'k': k, 'cs': rng.choice(cs_pool(13)), 'vecs': [rand_vec(rng, 3) for _ in range(nv)],
                                  'single': nv == 1 and rng.random() < 0.5, 's': [] if rng.random() < 0.4 else rand_vec(rng, 3)}))
        elif r < 0.37:
            dim = rng.choice((2, 3, 3))
            u, n1 = rand_ratvec(rng, dim, 9)
            v, n2 = rand_ratvec(rng, dim, 63 // n1 if dim == 3 else 17)
            if rng.random() < 0.15:
                sc = rng.choice((1, 2, -1, -3, Fraction(1, 2)))
                v = [tq(fq(x) * sc) for x in u]
            out.append(('fromto', {'u': u, 'v': v}))
        elif r < 0.50:
            dim = rng.choice((2, 3, 3))
            pd, n1 = rand_ratvec(rng, dim, 9)
            pv, n2 = rand_ratvec(rng, dim, 63 // n1 if dim == 3 else 17)
            if rng.random() < 0.25:
                sc = rng.choice((1, 2, -1, -3, Fraction(1, 2)))
                pv = [tq(fq(x) * sc) for x in pd]
            others = [[] if rng.random() < 0.2 else rand_vec(rng, dim) for _ in range(rng.choice((0, 1, 2, 3, 4)))]
            mat = []
            if rng.random() < 0.3:
                mat = [[tq(rng.randint(-2, 2)) for _ in range(dim)] for _ in range(dim)]
                m = np.array([[ff(x) for x in row] for row in mat])
                if abs(np.linalg.det(m)) < 0.5 or np.linalg.cond(m) > 100:
                    mat = [[tq(2 if i == j else 0) for j in range(dim)] for i in range(dim)]
            out.append(('tsys', {'pv': pv, 'pd': pd, 'others': others, 'mat': mat}))
        elif r < 0.58:
            dim = rng.choice((2, 3, 3, 4, 5))
            sh = rng.choice(([], [], [1], [3], [2, 2]))
            vecs = []
            for _ in range(int(np.prod(sh)) if sh else 1):
                a, b, c = rng.choice(((1, 0, 1), (0, 1, 1), (3, 4, 5), (5, 12, 13), (4, 3, 5), (0, 0, 1), (8, 15, 17), (0, 0, 1)))
                sc = rng.choice((1, 2, -1, Fraction(1, 2), 3))
                rest = [tq(rng.randint(-5, 5)) for _ in range(dim - 2)]
                if a == 0 and b == 0 and all(x[0] == 0 for x in rest):
                    rest = rest[:-1] + [tq(2)] if rest else rest
                    if not rest:
                        a = 1
                vecs.append([tq(a * sc * rng.choice((1, -1))), tq(b * sc)] + rest)
            out.append(('perp', {'sh': sh, 'vecs': vecs}))
        elif r < 0.66:
            nd = rng.choice((1, 2, 2, 3))
            lo = [Fraction(rng.randint(-4, 2), 2) for _ in range(nd)]
            hi = [l + Fraction(rng.randint(0, 6), 2) for l in lo]

            def coord(i):
                return tq(rng.choice((lo[i], hi[i], (lo[i] + hi[i]) / 2, lo[i] - Fraction(1, 2), hi[i] + Fraction(1, 4), lo[i], hi[i])))
            if rng.random() < 0.5 or nd == 1:
                pts = [[coord(i) for i in range(nd)] for _ in range(rng.choice((1, 1, 2, 4)))]
                out.append(('inside', {'lo': [tq(x) for x in lo], 'hi': [tq(x) for x in hi], 'mode': 'zip', 'pts': pts}))
            else:
                pts = [[coord(i) for _ in range(rng.choice((1, 2, 3)))] for i in range(nd)]
                out.append(('inside', {'lo': [tq(x) for x in lo], 'hi': [tq(x) for x in hi], 'mode': 'mesh', 'pts': pts}))
        elif r < 0.80:
            dim = rng.choice((2, 2, 3))
            shape = rand_shape(rng, dim)
            i0, i1 = rand_box(rng, shape)
            out.append(('ell', {'shape': shape, 'ells': rand_ells(rng, dim, rng.choice((1, 1, 2, 3, 4))), 'i0': i0, 'i1': i1,
                                'cyl': False}))
        elif r < 0.83:
            shape = rand_shape(rng, 2) + [rng.randint(1, 4)]
            out.append(('ell', {'shape': shape, 'ells': rand_ells(rng, 2, rng.choice((1, 2, 3))), 'i0': [], 'i1': [], 'cyl': True}))
        elif r < 0.89:
            nd = rng.choice((1, 2, 3))
            sp = []
            for _ in range(nd):
                n = rng.randint(1, 8) if nd == 3 else rng.randint(1, 20)
                lo = rng.choice(LO_POOL)
                sp.append({'lo': tq(lo), 'hi': tq(lo + n * rng.choice(H_POOL)), 'n': n})

            def pt(frac):
                return [tq(fq(ax['lo']) + (fq(ax['hi']) - fq(ax['lo'])) * Fraction(rng.randint(-2, 18), 16) * frac) for ax in sp]
            lo_pt = [] if rng.random() < 0.3 else pt(Fraction(1, 2))
            hi_pt = [] if rng.random() < 0.3 else pt(1)
            out.append(('cub', {'sp': sp, 'lo': lo_pt, 'hi': hi_pt}))
        elif r < 0.925:
            nd = rng.choice((1, 2, 2, 3))
            sp = []
            for _ in range(nd):
                n = rng.randint(2, 6 if nd < 3 else 4)
                lo = rng.choice(LO_POOL)
                sp.append({'lo': tq(lo), 'hi': tq(lo + n * rng.choice(H_POOL)), 'n': n})

            def pt2(frac):
                return [tq(fq(ax['lo']) + (fq(ax['hi']) - fq(ax['lo'])) * Fraction(rng.randint(0, 16), 16) * frac) for ax in sp]
            lo_pt = [] if rng.random() < 0.4 else pt2(Fraction(1, 2))
            hi_pt = [] if rng.random() < 0.4 else pt2(1)
            axes = sorted(rng.sample(range(nd), rng.randint(1, nd)))
            out.append(('smoothcub', {'sp': sp, 'lo': lo_pt, 'hi': hi_pt, 'axes': axes}))
        elif r < 0.96:
            dim = rng.choice((2, 3))
            shape = [rng.randint(3, 12), rng.randint(8, 24)] if dim == 2 else [rng.randint(2, 5), rng.randint(2, 5), rng.randint(8, 20)]
            i0, i1 = rand_box(rng, shape, check=False)
            out.append(('defrise', {'shape': shape, 'n': rng.randint(1, 5), 'alt': rng.random() < 0.5, 'i0': i0, 'i1': i1}))
        else:
            dim = rng.choice((2, 2, 3))
            shape = [rng.randint(8, 16) for _ in range(dim)] if dim == 2 else [rng.randint(8, 10) for _ in range(3)]
            out.append(('projaxis', {'shape': shape, 'default': True}))
    return out


def random_hists(seed, n):
    """histories beyond the TLC constants (other axes, angles, shifts), denominators bounded"""
    rng = random.Random('rotphantom-hist-%s' % seed)
    out = []

    def act(a, k=(), cs=(), s=(), e=(), t=()):
        return {'a': a, 'k': list(k), 'cs': list(cs), 's': list(s), 'e': list(e), 't': list(t)}
    while len(out) < n:
        hist, den = [], 1
        for _ in range(rng.choice((1, 2, 2, 3))):
            r = rng.random()
            if r < 0.5:
                k, kn = rand_unit(rng, 7)
                cs = rng.choice(cs_pool(13))
                d = kn * kn * cs[0][1] * (1 if cs[0][1] > 1 or cs[1][1] == 1 else cs[1][1])
                a = act('axrot', k=k, cs=cs, s=[] if rng.random() < 0.5 else [tq(rng.randint(-2, 2)) for _ in range(3)])
            elif r < 0.75:
                e = [rng.choice(cs_pool(5)) for _ in range(3)]
                d = max(x[0][1] for x in e) ** sum(1 for x in e if x[0][1] > 1 or x[1][1] > 1)
                a = act('euler', e=e)
            elif r < 0.9 and den == 1:
                t, tn = rand_unit(rng, 3)
                d = 9 * 3
                a = act(rng.choice(('fromto', 'tsys')), t=t)
            elif hist and hist[-1]['a'] != 'undo':
                a, d = act('undo'), 1                           # the points keep their denominators
            else:
                continue
            if den * d > 1500:
                continue
            den *= d
            hist.append(a)
        if hist:
            out.append(('hist', {'hist': hist, 'p0': P0, 'q0': Q0}))
    return out


# ------------------------------------------------------------------ TLC
def tlc_retry(module, cfg, work, env, workers):
    res = run_tlc(module, cfg, work, env=env, workers=workers, timeout=1500, heap='2g')
    if res.status == 'machinery':
        if env.get('OUT_FILE') and os.path.exists(env['OUT_FILE']):
            os.remove(env['OUT_FILE'])
        res = run_tlc(module, cfg, work, env=env, workers=workers, timeout=1500, heap='2g')
    return res


def validate(ctx, events, label, nchunk):
    for i, ev in enumerate(events):
        if ev['id'] != CORRUPT_ID:
            ev['id'] = i + 1
    # heavy (phantom) events are spread over the chunks
    order = sorted(range(len(events)), key=lambda i: (events[i]['fn'] in ('ell', 'defrise', 'cub', 'smoothcub'), i))
    nch = max(1, (len(events) + nchunk - 1) // nchunk)
    chunks = [[events[i] for i in order[k::nch]] for k in range(nch)]
    paths = []
    for k, ch in enumerate(chunks):
        p = os.path.join(ctx.work, 'rot_%s_%d.ndjson' % (label, k))
        with open(p, 'w') as f:
            for ev in ch:
                f.write(json.dumps({'id': ev['id'], 'fn': ev['fn'], 'a': ev['a'], 'o': ev['o']}) + '\n')
        paths.append(p)

    def go(p):
        return tlc_retry('Trace_Rot.tla', 'Trace_Rot.cfg', ctx.work, {'TRACE_FILE': p, 'ROT_FIXED': '-'}, 1)
    with ThreadPoolExecutor(max_workers=8) as ex:
        results = list(ex.map(go, paths))
    rejected = {}
    for k, res in enumerate(results):
        ctx.add_tlc('trace-%s-%d' % (label, k), res)
        for line_no, ev_id, clauses in parse_fails(res.output):
            rejected[ev_id] = clauses
    return rejected


def clauses_of(text):
    return re.findall(r'<<\s*"([\w-]+)"\s*,\s*"([\w-]+)"\s*,\s*"([^"]*)"\s*>>', text)


def sig_of(clause, fn, cell):
    return {'stage': STAGE, 'fn': fn, 'cell': cell, 'clause': clause}


# ------------------------------------------------------------------ the stage
def _replay_worker(args):
    g, path, seed, variants, stride = args
    if g == 'hist':
        pending, n = replay_hist(path, seed, stride)
        leaves = {('hist', 'state'): n}
    else:
        pending, n, leaves = replay_cases(path, seed, variants)
    with open(path) as f:
        nlines = len(set(f))
    return g, pending, n, leaves, nlines


def _driver_worker(args):
    seed, nrand, nhist = args
    evs = []
    for i, (fn, a) in enumerate(doc_examples()):
        ev = make_event(fn, a, '%s/doc/%d' % (seed, i))
        ev['src'] = 'doc'
        evs.append(ev)
    ndoc = len(evs)
    for i, (fn, a) in enumerate(random_cases(seed, nrand) + random_hists(seed, nhist)):
        ev = make_event(fn, a, '%s/rand/%d' % (seed, i))
        ev['src'] = 'trace'
        evs.append(ev)
    return evs, ndoc


def run_stage(ctx):
    import multiprocessing as mp
    import time
    thorough = ctx.tier != 'quick'
    t0 = time.time()
    laps = ctx.extra.setdefault('rotphantom_laps_s', {})

    def lap(name):
        laps[name] = round(time.time() - t0, 1)
    env = {'ROT_TIER': 'thorough' if thorough else 'quick', 'ROT_FIXED': FIXED_IN_TREE, 'ROT_DEPTH': '2'}
    outs = {g: os.path.join(ctx.work, 'rot_%s.ndjson' % g) for g in GROUPS + ('hist',)}
    variants = 5 if thorough else 3
    pool = mp.get_context('fork').Pool(6)
    fdrv = pool.apply_async(_driver_worker, ((ctx.seed, 10000 if thorough else 700, 3000 if thorough else 150),))

    def group_job(g):
        if g == 'hist':
            res = tlc_retry('MC_Rot.tla', 'MC_Rot_hist.cfg', ctx.work, dict(env, OUT_FILE=outs[g]), 1)
        else:
            res = tlc_retry('MC_RotCases.tla', 'MC_RotCases_export.cfg', ctx.work, dict(env, ROT_GROUP=g, OUT_FILE=outs[g]), 1)
        lap('tlc-' + g)
        if res.status != 'ok':
            return res, None
        r = pool.apply(_replay_worker, ((g, outs[g], ctx.seed, variants, 1 if thorough else 3),))
        lap('replay-' + g)
        return res, r
    ex = ThreadPoolExecutor(max_workers=len(GROUPS) + 5)
    gfuts = {g: ex.submit(group_job, g) for g in ('hist', 'ell') + tuple(g for g in GROUPS if g != 'ell')}
    fbogus = ex.submit(tlc_retry, 'MC_Rot.tla', 'MC_Rot_bogus.cfg', ctx.work, env, 2)
    # thorough: the laws on all histories of length 3 over the quick constants (no export)
    flaws = ex.submit(tlc_retry, 'MC_Rot.tla', 'MC_Rot_laws.cfg', ctx.work,
                      dict(env, ROT_TIER='quick', ROT_DEPTH='3'), 8) if thorough else None
    # layer C of ellipsoid_phantom: with every repair switch on it has to refine A; as the tree is, it is refuted while
    # a finding is open
    fell_fixed = ex.submit(tlc_retry, 'MC_RotCases.tla', 'MC_RotCases_ellimpl.cfg', ctx.work,
                           dict(env, ROT_GROUP='ell', ROT_FIXED='bs'), 2)
    fell_cur = ex.submit(tlc_retry, 'MC_RotCases.tla', 'MC_RotCases_ellimpl.cfg', ctx.work,
                         dict(env, ROT_GROUP='ell', ROT_FIXED=FIXED_IN_TREE), 2)

    pending, nexec, ncases, nhist = [], 0, 0, 0
    leaves = {}
    for g, fut in gfuts.items():
        res, r = fut.result()
        ctx.add_tlc('rot-hist' if g == 'hist' else 'rot-cases-' + g, res)
        _, pend, n, lv, nlines = r
        pending += pend
        nexec += n
        for k, v in lv.items():
            leaves[k] = leaves.get(k, 0) + v
        if g == 'hist':
            nhist = nlines
        else:
            ncases += nlines
    if ncases < 1900 or nhist < 2000:
        raise MachineryError('rotphantom export too small: %d cases, %d history states' % (ncases, nhist))
    lap('replay')
    events, ndoc = fdrv.get()
    pool.close()
    lap('drivers')

    # ---- TLC decides: replay observations that are not literally the expectation + recorded events + a corrupted copy
    all_events = pending + events
    corrupt = None
    for ev in events:
        if ev['fn'] == 'axmat' and ev['o']['k'] == 'ok' and ev['o']['mats']:
            corrupt = json.loads(json.dumps(ev))
            n, d = corrupt['o']['mats'][0][1][2]
            corrupt['o']['mats'][0][1][2] = [n + d, d]          # one matrix entry off by one
            corrupt['id'] = CORRUPT_ID
            corrupt['src'] = 'corrupt'
            break
    if corrupt is None:
        raise MachineryError('no axis_rotation_matrix event to corrupt')
    all_events.append(corrupt)
    rejected = validate(ctx, all_events, 'ev', nchunk=400 if thorough else 160)
    if CORRUPT_ID not in rejected or ('value', 'axmat') not in [c[:2] for c in clauses_of(rejected[CORRUPT_ID])]:
        raise MachineryError('the corrupted copy of a recorded event was not rejected by Trace_Rot')
    lap('trace')

    seen_fam = {}
    illposed = 0
    nrej = {'replay': 0, 'trace': 0, 'doc': 0}
    for ev in all_events:
        if ev['id'] not in rejected or ev['id'] == CORRUPT_ID:
            continue
        cl = clauses_of(rejected[ev['id']])
        if not cl:
            raise MachineryError('unparsed FAIL line: %s' % rejected[ev['id']][:200])
        if any(c[0] in ('ill-posed', 'unknown-event') for c in cl):
            illposed += 1
            if ev['src'] == 'replay' or ev['fn'] != 'hist':
                raise MachineryError('ill-posed event from %s: %s' % (ev['src'], dumps(ev)[:300]))
            continue
        nrej[ev['src']] += 1
        for clause, fn, cell in cl:
            sig = sig_of(clause, fn, cell)
            key = dumps(sig, sort_keys=True)
            seen_fam[key] = seen_fam.get(key, 0) + 1
            if seen_fam[key] <= 3:
                ctx.violation(sig, {'stage_module': STAGE, 'source': ev['src'], 'event': ev, 'clauses': rejected[ev['id']]})

    # ---- the remaining TLC verdicts
    bog = fbogus.result()
    ctx.add_tlc('rot-bogus', bog, expect='any')
    if bog.status != 'counterexample':
        raise MachineryError('the bogus law was not refuted: the history run is vacuous')
    if flaws is not None:
        ctx.add_tlc('rot-laws-depth3', flaws.result())
    ctx.add_tlc('rot-ellimpl-repaired', fell_fixed.result())
    cur = fell_cur.result()
    ctx.add_tlc('rot-ellimpl-current', cur, expect='any')
    ex.shutdown()
    ctx.extra['rotphantom_layerC_current_code'] = 'refines layer A' if cur.status == 'ok' else 'refuted (open finding)'
    if cur.status == 'ok' and len(FIXED_IN_TREE.strip('-')) < 2:
        ctx.drift_note('rotphantom: layer C of ellipsoid_phantom without the repair switches refines layer A - '
                       'FIXED_IN_TREE is stale')
    lap('tlc-all')

    # ---- evidence
    for key in leaves:
        ctx.count([STAGE] + list(key), True, n=0)
    for ev in events:
        ctx.count([STAGE, 'trace', ev['fn'], ev['o']['k']], True, n=0)
    ctx.count(None, False, n=nexec + len(events))
    ctx.traces += ncases + nhist + len(events)
    ctx.extra['rotphantom_cases_exported'] = ncases
    ctx.extra['rotphantom_history_states_exported'] = nhist
    ctx.extra['rotphantom_replay_executions'] = nexec
    ctx.extra['rotphantom_events_recorded'] = len(events)
    ctx.extra['rotphantom_events_docstring_examples'] = ndoc
    ctx.extra['rotphantom_events_validated_by_tlc'] = len(all_events)
    ctx.extra['rotphantom_not_literal_decided_by_tlc'] = len(pending)
    ctx.extra['rotphantom_rejected'] = nrej
    ctx.extra['rotphantom_random_histories_ill_posed_skipped'] = illposed
    ctx.extra['rotphantom_violation_cases_per_family'] = seen_fam
    ctx.extra['rotphantom_rule'] = (
        'abstract case = (function, documented case (cell), kind of outcome); one evaluation = one real call (or one '
        'history executed on real arrays) under one spelling, compared with the exported expectation or decided by '
        'Trace_Rot; every exported case is executed under 3 (quick) / 5 (thorough) spellings')
    ctx.assumptions += [
        'rotphantom: ellipses / ellipsoids are "relative to the reference rectangle [-1, -1] x [1, 1]": the docstring '
        'example (a radius-1 circle on a 5 x 5 grid touches exactly the outermost grid points) fixes the reading that the '
        'outermost GRID POINTS are -1 and +1; "rotation" turns the ellipse counter-clockwise, the Euler angles act as '
        'euler_matrix documents (ZXZ); points within a relative margin of 1/128 of an ellipse boundary and points exactly '
        'on a face of a cuboid carry no demand',
        'rotphantom: min_pt / max_pt of ellipsoid_phantom / defrise are exercised on cell boundaries only (the snapping of '
        'other points to the cell grid is not documented)',
        'rotphantom: rotation_matrix_from_to: "should not be ... collinear" - no demand for collinear 2-d vectors (the tree '
        'returns NaN for some parallel 2-d pairs, e.g. (5, 12) -> (10, 24)); in 3-d the Notes fix angle 0 / pi; the normal '
        'quoted there for the collinear case, (-v2, v1, v3), is not perpendicular: only "rotation by pi taking u to -u" is '
        'demanded; transform_system with anti-parallel 3-d vectors is constrained relationally (Gram matrix, image)',
        'rotphantom: perpendicular_vector: orthogonality, the examples and (as every example shows) unit length; zero '
        'vectors, 1-component vectors and irrational results are not exercised',
        'rotphantom: axis_rotation returns "the rotated vector(s)": the result is compared flattened to (N, 3); '
        'axis_rotation_matrix with an array of angles: angle.shape + (3, 3) as for euler_matrix',
        'rotphantom: cuboid(min_pt given, max_pt=None): "min_pt plus half the extent" and the symmetric default differ - no '
        'demand; defrise: the table of defrise_ellipses is data, constrained by "regularly spaced", "alternating (+1, -1)" '
        '(consecutive ellipses have opposite signs), "thinner with more ellipses"',
        'rotphantom: indicate_proj_axis: the rectangle-count law is checked for shapes >= 8 per axis and the default '
        'scale_structures only (scale_structures=1.0 loses the cube for most sizes on the tree: observation, not raised)',
        'rotphantom: smooth_cuboid is constrained relationally only: values in [0, 1]; inside (outside) the cuboid the value '
        'depends on the coordinates of `axis` only (+- 2 quanta of 2^-16)',
        'rotphantom: pure functions leave caller-owned arrays unchanged and return the same result when called twice',
    ]
    return ncases


def replay(body):
    det = body['detail']
    ev = det['event']
    print('recorded   :', dumps({'fn': ev['fn'], 'a': ev['a'], 'o': ev['o']})[:1500])
    print('rejected by Trace_Rot with', det.get('clauses'))
    same_n = 0
    for var in range(4):
        ev2 = make_event(ev['fn'], ev['a'], ev.get('rs', '') if var == 0 else 'replay-%d' % var)
        same_n += ev2['o'] == ev['o']
    print('VIOLATION reproduced (%d of 4 re-executions give the recorded outcome)' % same_n if same_n else
          'the recorded outcome is not reproduced on this tree')
    return 1 if same_n else 0

"""EXT stage `oputil`: operator utilities, ufunc operators and numerical derivatives.

Specification: spec/sem/OpUtilSem.tla (layer A, written from the docstrings), spec/mach/OpUtilMachine.tla (case machine;
the power method is iterated exactly), spec/impl/OpUtilImpl.tla (the code's decision structures, checked to refine
layer A), spec/cfg/MC_OpUtil*.{tla,cfg}, spec/trace/Trace_OpUtil.tla (total trace specification).

What runs here
  1. TLC: laws per part (expr / pm / pmarg / nd / uf), refinement of the implementation-shaped model, one bogus law.
  2. spec -> code: every exported case is executed on REAL ODL objects under several concretisations (dtypes, weighted
     and discretised spaces, block-operator spellings, self-adjoint / matrix operators, operand kinds) and the projected
     observation is compared with the exported expectation.
  3. code -> spec: every execution (exported cases AND Python drivers that go beyond the TLC constants: 3-axis spaces,
     larger power spaces, seeded matrices, all generated ufuncs, longer power-method runs with tolerances) is recorded as
     an NDJSON event and validated by the total trace specification, which recomputes the expectation.
Python only builds objects, projects observations on exact lattices and moves JSON; TLC decides.
"""
import json
import os
import random
import warnings
from concurrent.futures import ThreadPoolExecutor
from fractions import Fraction

import numpy as np
import odl

from ..tlc import run_tlc, parse_fails
from ..common import MachineryError
from .. import exact

STANDALONE = True
STAGE = 'oputil'
Q12 = 4096

# ---------------------------------------------------------------------------------------------- exact <-> float
def fq(q):
    return Fraction(q[0], q[1])


def fc(c):
    return complex(float(fq(c[0])), float(fq(c[1])))


def jq(fr):
    fr = Fraction(fr)
    return [int(fr.numerator), int(fr.denominator)]


def jc(re, im=0):
    return [jq(re), jq(im)]


def proj_q(v, maxden=1 << 16, tol=1e-9):
    """project a float on the lattice of small rationals (None = off the lattice)"""
    v = float(v)
    if not np.isfinite(v):
        return None
    f = Fraction(v).limit_denominator(maxden)
    if abs(v - float(f)) > tol * max(1.0, abs(v)):
        return None
    if abs(f.numerator) >= 2 ** 30:
        return None
    return f


def proj_c(z, maxden=1 << 16, tol=1e-9):
    z = complex(z)
    a, b = proj_q(z.real, maxden, tol), proj_q(z.imag, maxden, tol)
    if a is None or b is None:
        return None
    return (a, b)


def proj_vec(arr, single=False):
    """flat C-order list of [[n,d],[n,d]] and the `off` flag"""
    flat = np.asarray(arr).ravel(order='C')
    out, off = [], False
    md, tol = ((1 << 10), 1e-3) if single else ((1 << 16), 1e-9)
    for z in flat:
        p = proj_c(z, md, tol)
        if p is None:
            off = True
            out.append(jc(0))
        else:
            out.append(jc(p[0], p[1]))
    return out, off


def is_single(dt):
    return np.dtype(dt) in (np.dtype('float32'), np.dtype('complex64'))


# ---------------------------------------------------------------------------------------------- spaces
def mk_space(sp, var):
    """real space of a layer-A space descriptor; var: dict(dtype='double'|'single', kind='rn'|'discr', pw='star'|'pow')"""
    if sp['k'] == 't':
        shape = tuple(sp['shape'])
        w = fq(sp['w'])
        if sp['cplx']:
            dt = 'complex64' if var.get('dtype') == 'single' else 'complex128'
        else:
            dt = 'float32' if var.get('dtype') == 'single' else 'float64'
        if var.get('kind') == 'discr' and len(shape) >= 1:
            # cell volume = w : first axis has length w * n0, the others n_i
            mx = [float(w) * shape[0]] + [float(n) for n in shape[1:]]
            return odl.uniform_discr([0.0] * len(shape), mx, shape, dtype=dt)
        if w == 1:
            return odl.tensor_space(shape, dtype=dt)
        return odl.tensor_space(shape, dtype=dt, weighting=float(w))
    parts = [mk_space(p, var) for p in sp['parts']]
    if var.get('pw') == 'pow' and all(p == parts[0] for p in parts):
        return odl.ProductSpace(parts[0], len(parts))
    return odl.ProductSpace(*parts)


def sp_size(sp):
    if sp['k'] == 't':
        return int(np.prod(sp['shape'], dtype=int))
    return sum(sp_size(p) for p in sp['parts'])


def elem_from_flat(space, sp, flat):
    """element of the real space from a flat list of complex numbers"""
    flat = list(flat)
    if sp['k'] == 't':
        arr = np.array(flat).reshape(tuple(sp['shape']))
        if not sp['cplx']:
            arr = arr.real
        return space.element(arr.astype(space.dtype))
    parts, off = [], 0
    for i, p in enumerate(sp['parts']):
        n = sp_size(p)
        parts.append(elem_from_flat(space[i], p, flat[off:off + n]))
        off += n
    return space.element(parts)


def flat_of(x):
    if isinstance(x.space, odl.ProductSpace):
        return np.concatenate([flat_of(p) for p in x]) if len(x.space) else np.zeros(0)
    return np.asarray(x.asarray()).ravel(order='C')


# ---------------------------------------------------------------------------------------------- expressions
def build_expr(e, var):
    t = e['t']
    if t in ('comp', 'sum', 'lscal', 'bcast', 'red', 'diag'):
        l = build_expr(e['l'], var)
        if t == 'lscal':
            a = fc(e['a'])
            return (a if e['a'][1][0] != 0 else a.real) * l
        r = build_expr(e['r'], var)
        if t == 'comp':
            return l * r
        if t == 'sum':
            return l + r
        blk = var.get('blk', 'named')
        # (a ProductSpaceOperator always maps between PRODUCT spaces, so only the diagonal block has a second spelling)
        if t == 'bcast':
            return odl.BroadcastOperator(l, r)
        if t == 'red':
            return odl.ReductionOperator(l, r)
        return odl.DiagonalOperator(l, r) if blk == 'named' else odl.ProductSpaceOperator([[l, None], [None, r]])
    sp = mk_space(e['sp'], var)
    if t == 'id':
        return odl.IdentityOperator(sp)
    if t == 'scale':
        a = fc(e['a'])
        return odl.ScalingOperator(sp, a if e['sp']['cplx'] else a.real)
    if t == 'mulvec':
        return odl.MultiplyOperator(elem_from_flat(sp, e['sp'], [fc(c) for c in e['v']]))
    if t == 'mataxis':
        m = np.array([[fc(c) for c in row] for row in e['m']])
        if not e['sp']['cplx']:
            m = m.real
        if var.get('mat') == 'int' and not e['sp']['cplx']:
            m = m.astype(int)
        else:
            m = m.astype(sp.dtype)
        return odl.MatrixOperator(m, domain=sp, axis=e['n'])
    if t == 'flatten':
        return odl.FlatteningOperator(sp, order='C' if e['n'] == 0 else 'F')
    if t == 'proj':
        return odl.ComponentProjection(sp, e['n'])
    if t == 'emb':
        return odl.ComponentProjection(sp, e['n']).adjoint
    if t == 'cembed':
        return odl.ComplexEmbedding(sp)
    if t == 'sq':
        return odl.ufunc_ops.square(sp)
    if t == 'zero':
        return odl.ZeroOperator(sp)
    raise MachineryError('unknown expression node ' + t)


def expr_kinds(e, acc=None):
    acc = acc if acc is not None else set()
    acc.add(e['t'])
    for k in ('l', 'r'):
        if e[k]:
            expr_kinds(e[k], acc)
    return acc


def expr_spaces(e):
    out = set()

    def walk(x):
        if x['t'] not in ('comp', 'sum', 'lscal', 'bcast', 'red', 'diag'):
            s = x['sp']
            out.add('pspace' if s['k'] == 'p' else ('tensor%d' % len(s['shape'])))
        for k in ('l', 'r'):
            if x[k]:
                walk(x[k])
    walk(e)
    return '+'.join(sorted(out))


def observe_expr(e, dom, ran, var, with_scipy=True):
    """event (kind expr) of one expression under one concretisation"""
    single = var.get('dtype') == 'single'
    try:
        op = build_expr(e, var)
    except Exception as ex:           # the construction is not the subject here
        return None, 'build:%s' % type(ex).__name__
    mr = {'status': 'ok', 'shape': [], 'cplx': False, 'flat': [], 'off': False}
    try:
        with warnings.catch_warnings():
            warnings.simplefilter('ignore')
            T = odl.matrix_representation(op)
            T2 = odl.matrix_representation(op)              # history: a second call on the same operator
            if not (isinstance(T2, np.ndarray) and T2.shape == T.shape and np.array_equal(T, T2)) or T2 is T:
                mr['off'] = True
        mr['shape'] = [int(n) for n in T.shape]
        mr['cplx'] = bool(np.iscomplexobj(T))
        mr['flat'], off = proj_vec(T, single)
        mr['off'] = mr['off'] or off or not isinstance(T, np.ndarray)
    except Exception as ex:
        mr['status'] = 'raises'
        mr['exc'] = type(ex).__name__
    sc = {'status': 'skipped', 'shape': [], 'cplx': False, 'mv': [], 'rmv': [], 'adj': [], 'off': False}
    if with_scipy:
        try:
            with warnings.catch_warnings():
                warnings.simplefilter('ignore')
                sop = odl.as_scipy_operator(op)
                sc['status'] = 'ok'
                sc['shape'] = [int(n) for n in sop.shape]
                sc['cplx'] = bool(np.issubdtype(np.dtype(sop.dtype), np.complexfloating))
                nd_, nr_ = sp_size(dom), sp_size(ran)
                dt = np.dtype(sop.dtype)
                kinds = var.get('vec', 'array')
                for j in range(nd_):
                    v = np.zeros(nd_, dtype=dt)
                    v[j] = 1
                    keep = v.copy()
                    y = sop.matvec(v if kinds == 'array' else v.reshape(-1, 1))
                    y2 = sop.matvec(v)                      # history: same input again
                    col, off = proj_vec(np.asarray(y).ravel(), single)
                    sc['mv'].append(col)
                    sc['off'] = sc['off'] or off or not np.array_equal(np.asarray(y).ravel(), np.asarray(y2).ravel()) \
                        or not np.array_equal(v, keep)
                for i in range(nr_):
                    v = np.zeros(nr_, dtype=dt)
                    v[i] = 1
                    y = sop.rmatvec(v)
                    col, off = proj_vec(np.asarray(y).ravel(), single)
                    sc['rmv'].append(col)
                    sc['off'] = sc['off'] or off
                    a = op.adjoint(v.reshape(op.range.shape))
                    col, off = proj_vec(flat_of(a), single)
                    sc['adj'].append(col)
                    sc['off'] = sc['off'] or off
        except Exception as ex:
            sc = {'status': 'raises', 'shape': [], 'cplx': False, 'mv': [], 'rmv': [], 'adj': [], 'off': False,
                  'exc': type(ex).__name__}
    return {'kind': 'expr', 'e': e, 'mr': mr, 'sc': sc}, ''


EXPR_VARIANTS = [
    {'name': 'rn-double', 'dtype': 'double', 'kind': 'rn', 'pw': 'star', 'blk': 'named'},
    {'name': 'rn-single-pso', 'dtype': 'single', 'kind': 'rn', 'pw': 'pow', 'blk': 'pso', 'vec': 'column'},
    {'name': 'discr-double-pso', 'dtype': 'double', 'kind': 'discr', 'pw': 'pow', 'blk': 'pso', 'mat': 'int'},
]


def expr_clauses_direct(line, ev):
    """spec -> code comparison with the exported expectation (the same clauses the trace specification derives)"""
    bad = []
    mr, sc = ev['mr'], ev['sc']
    o = line['mr_outcome']
    if o == 'raises':
        if mr['status'] != 'raises':
            bad.append('matrep-accepted')
    elif mr['status'] == 'raises':
        if o == 'ok':
            bad.append('matrep-raised')
    elif mr['shape'] != line['mr_shape']:
        bad.append('matrep-shape')
    else:
        if mr['off'] or mr['flat'] != line['mr_flat']:
            bad.append('matrep-value')
        if mr['cplx'] != line['mr_cplx']:
            bad.append('matrep-dtype')
    o = line['sc_outcome']
    if sc['status'] == 'skipped':
        return bad
    if o == 'raises':
        if sc['status'] != 'raises':
            bad.append('scipy-accepted')
    elif sc['status'] == 'raises':
        if o == 'ok':
            bad.append('scipy-raised')
    elif sc['shape'] != line['sc_shape']:
        bad.append('scipy-shape')
    else:
        M, N = line['M'], line['N']
        cols = [[M[i][j] for i in range(len(M))] for j in range(len(line['wd']))]
        ncols = [[N[i][j] for i in range(len(N))] for j in range(len(line['wr']))]
        if sc['off'] or sc['mv'] != cols:
            bad.append('scipy-matvec')
        if sc['rmv'] != sc['adj']:
            bad.append('scipy-rmatvec-is-not-adjoint-call')
        if sc['adj'] != ncols:
            bad.append('adjoint-value')
        if sc['cplx'] != line['dom']['cplx']:
            bad.append('scipy-dtype')
    return bad


# ---------------------------------------------------------------------------------------------- power method
class MatOp(odl.Operator):
    """user-defined linear operator given by a matrix; `selfadj`: its adjoint is the operator itself"""

    def __init__(self, M, dom, ran, selfadj, wratio=1.0):
        super(MatOp, self).__init__(dom, ran, linear=True)
        self.M, self.selfadj, self.wratio = M, selfadj, wratio

    def _call(self, x):
        return self.range.element(self.M.dot(x.asarray()))

    @property
    def adjoint(self):
        if self.selfadj:
            return self
        return MatOp(self.wratio * self.M.conj().T, self.range, self.domain, False, 1.0 / self.wratio)


class Counting(odl.Operator):
    """counts evaluations of an operator and of its adjoint; preserves `op.adjoint is op`"""

    def __init__(self, inner, counter=None, key='op'):
        super(Counting, self).__init__(inner.domain, inner.range, linear=inner.is_linear)
        self.inner, self.counter, self.key = inner, counter if counter is not None else {'op': 0, 'adj': 0}, key

    def _call(self, x):
        self.counter[self.key] += 1
        return self.inner(x)

    @property
    def adjoint(self):
        a = self.inner.adjoint
        if a is self.inner:
            return self
        return Counting(a, self.counter, 'adj' if self.key == 'op' else 'op')


class NoAdjoint(odl.Operator):
    """nonlinear user operator (no adjoint): x -> M |x|"""

    def __init__(self, M, dom, ran):
        super(NoAdjoint, self).__init__(dom, ran, linear=False)
        self.M = M

    def _call(self, x):
        return self.range.element(self.M.dot(np.abs(x.asarray())))


def pm_spaces(line, var):
    cplx = any(c[1][0] != 0 for row in line['M'] for c in row) or any(c[1][0] != 0 for c in line['x0'])
    n, m = len(line['wd']), len(line['wr'])
    wd, wr = fq(line['wd'][0]), fq(line['wr'][0])
    if var.get('dtype') == 'single':
        dt = 'complex64' if cplx else 'float32'
    else:
        dt = 'complex128' if cplx else 'float64'

    def mk(k, w):
        if var.get('kind') == 'discr':
            return odl.uniform_discr(0, float(w) * k, k, dtype=dt)
        return odl.tensor_space(k, dtype=dt) if w == 1 else odl.tensor_space(k, dtype=dt, weighting=float(w))
    dom = mk(n, wd)
    ran = dom if (n == m and wd == wr) else mk(m, wr)
    return dom, ran, cplx, float(wr / wd)


def pm_build(line, var):
    dom, ran, cplx, wratio = pm_spaces(line, var)
    M = np.array([[fc(c) for c in row] for row in line['M']])
    if not cplx:
        M = M.real
    M = M.astype(dom.dtype)
    how = var['op']
    if how == 'matrix':
        return odl.MatrixOperator(M, domain=dom, range=ran), dom
    if how == 'user':
        return MatOp(M, dom, ran, False, wratio), dom
    if how == 'selfadj':
        return MatOp(M, dom, ran, True), dom
    if how == 'diagonal':
        d = np.diag(M)
        if np.all(d == d[0]) and not cplx:
            return odl.ScalingOperator(dom, float(d[0])), dom
        return odl.MultiplyOperator(dom.element(d)), dom
    raise MachineryError(how)


def pm_run(op, xstart, maxiter, rtol, atol, want_cb=True, **kw):
    cnt = Counting(op)
    cbs = []
    res = {'status': 'ok'}
    try:
        with warnings.catch_warnings():
            warnings.simplefilter('ignore')
            with np.errstate(all='ignore'):
                est = odl.power_method_opnorm(cnt, xstart=xstart, maxiter=maxiter, rtol=rtol, atol=atol,
                                              callback=(lambda x: cbs.append(1)) if want_cb else None, **kw)
        res['est'] = float(est)
        if not np.isfinite(res['est']):
            res['status'] = 'nonfinite'
    except Exception as ex:
        res['status'] = 'raises'
        res['exc'] = type(ex).__name__
    res['nop'], res['nadj'], res['ncb'] = cnt.counter['op'], cnt.counter['adj'], len(cbs)
    return res


def xstart_kinds(dom, vals, kind):
    arr = np.array(vals)
    if not np.issubdtype(dom.dtype, np.complexfloating):
        arr = arr.real
    arr = arr.astype(dom.dtype)
    if kind == 'element':
        x = dom.element(arr)
        return x, (lambda: np.array_equal(x.asarray(), arr))
    if kind == 'ndarray':
        keep = arr.copy()
        return arr, (lambda: np.array_equal(arr, keep))
    lst = [complex(v) if np.iscomplexobj(arr) else float(v) for v in arr]
    keep = list(lst)
    return lst, (lambda: lst == keep)


def pm_event(line, var, k):
    """k iterations: which iteration the operator gets (plain: one evaluation each, on A*A: two) is OBSERVED first"""
    op, dom = pm_build(line, var)
    x0 = [fc(c) for c in line['x0']]
    probe = pm_run(op, xstart_kinds(dom, x0, 'ndarray')[0], 2, 0.0, 0.0, want_cb=False)
    maxiter = k * (2 if probe['nadj'] > 0 else 1)
    xs, frame = xstart_kinds(dom, x0, var.get('xkind', 'element'))
    r = pm_run(op, xs, maxiter, 0.0, 0.0)
    normal = r['nadj'] > 0
    per = 2 if normal else 1
    ev = {'kind': 'pm', 'M': line['M'], 'wd': line['wd'], 'wr': line['wr'], 'x0': line['x0'], 'maxiter': maxiter,
          'status': r['status'], 'normal': bool(normal), 'niter': r['nop'] if not normal else min(r['nop'], r['nadj']),
          'ncalls': r['nop'] + r['nadj'], 'ncb': r['ncb'], 'pow': [0, 1], 'off': False, 'frame': bool(frame()),
          'cid': line['id']}
    if r['status'] == 'ok':
        p = proj_q(r['est'] ** (2 * per), 1 << 20, 1e-4 if var.get('dtype') == 'single' else 1e-9)
        if p is None:
            ev['off'] = True
        else:
            ev['pow'] = jq(p)
    elif 'exc' in r:
        ev['exc'] = r['exc']
    return ev


def pm_variants(line):
    n, m = len(line['wd']), len(line['wr'])
    M = [[fc(c) for c in row] for row in line['M']]
    diag = n == m and all(M[i][j] == 0 for i in range(n) for j in range(m) if i != j)
    halfw = line['wd'][0] != [1, 1] and line['wd'] == line['wr']
    out = []
    if line['normal']:
        if line['wd'][0] == line['wr'][0]:
            # (MatrixOperator.adjoint between differently weighted spaces is the open finding KF-C05-5, not our subject)
            out.append({'name': 'matrix', 'op': 'matrix', 'xkind': 'element'})
        out.append({'name': 'user', 'op': 'user', 'xkind': 'ndarray'})
        if halfw:
            out.append({'name': 'matrix-discr', 'op': 'matrix', 'kind': 'discr', 'xkind': 'list'})
    else:
        out.append({'name': 'selfadj', 'op': 'selfadj', 'xkind': 'list'})
        if halfw:
            out.append({'name': 'selfadj-discr', 'op': 'selfadj', 'kind': 'discr', 'xkind': 'element'})
    if diag and line['wd'][0] == line['wr'][0] and all(abs(complex(M[i][i]).imag) == 0 for i in range(n)):
        out.append({'name': 'diagonal', 'op': 'diagonal', 'xkind': 'ndarray'})
    return out


# ---------------------------------------------------------------------------------------------- numerical derivatives
def poly_fn(fam, c, b, arr):
    if fam == 'lin':
        return float(np.sum(c * arr + b))
    if fam == 'fquad':
        return float(np.sum(c * arr * arr + b * arr))
    if fam == 'fcube':
        return float(np.sum(c * arr ** 3))
    raise MachineryError(fam)


class PolyFunctional(odl.solvers.Functional):
    def __init__(self, space, fam, c, b):
        super(PolyFunctional, self).__init__(space, linear=False)
        self.fam, self.c, self.b = fam, c, b

    def _call(self, x):
        return poly_fn(self.fam, self.c, self.b, x.asarray())

    @property
    def gradient(self):
        f = self

        class G(odl.Operator):
            def __init__(self):
                super(G, self).__init__(f.domain, f.domain)

            def _call(self, x):
                a = x.asarray()
                if f.fam == 'lin':
                    return f.domain.element(f.c + 0 * a)
                if f.fam == 'fquad':
                    return f.domain.element(2 * f.c * a + f.b)
                return f.domain.element(3 * f.c * a * a)
        return G()


class PolyOperator(odl.Operator):
    def __init__(self, space, fam, c, b):
        super(PolyOperator, self).__init__(space, space, linear=False)
        self.fam, self.c, self.b = fam, c, b

    def _call(self, x):
        a = x.asarray()
        if self.fam == 'sq':
            return self.range.element(a * a)
        if self.fam == 'cube':
            return self.range.element(a * a * a)
        if self.fam == 'aff':
            return self.range.element(self.c * a + self.b)
        return self.range.element(self.c * a * a + self.b * a)


def nd_space(n, w, var):
    shape = (n,) if (n < 4 or var.get('shape') == 'flat') else {4: (2, 2), 6: (2, 3), 8: (2, 2, 2)}[n]
    dt = 'float32' if var.get('dtype') == 'single' else 'float64'
    w = Fraction(w)
    if var.get('kind') == 'discr':
        mx = [float(w) * shape[0]] + [float(k) for k in shape[1:]]
        return odl.uniform_discr([0.0] * len(shape), mx, shape, dtype=dt)
    return odl.tensor_space(shape, dtype=dt) if w == 1 else odl.tensor_space(shape, dtype=dt, weighting=float(w))


def nd_event(case, var):
    """case: dict with kind2, fam, c, b, x, dx, nd, w, method, h, zero (layer-A vocabulary)"""
    n = len(case['x'])
    space = nd_space(n, fq(case['w']), var)
    shp = space.shape
    c = np.array([fc(z).real for z in case['c']], dtype=space.dtype)
    b = np.array([fc(z).real for z in case['b']], dtype=space.dtype).reshape(shp)
    x = np.array([fc(z).real for z in case['x']], dtype=space.dtype).reshape(shp)
    h = float(fq(case['h']))
    meth = case['method']
    mspell = var.get('mspell', 'kw')
    ev = dict(case)
    ev.update({'kind': 'nd', 'status': 'ok', 'val': [], 'off': False})
    single = var.get('dtype') == 'single'
    try:
        with warnings.catch_warnings():
            warnings.simplefilter('ignore')
            if case['kind2'] == 'hess':
                # derived object: NumericalGradient(f).derivative(x) (documented: same method, step sqrt(step))
                f = PolyFunctional(space, 'fcube', c.reshape(shp), b)
                g = odl.solvers.NumericalGradient(f, method=meth, step=h)
                dx = np.array([fc(z).real for z in case['dx']], dtype=space.dtype).reshape(shp)
                H = g.derivative(x if var.get('xkind') == 'ndarray' else space.element(x))
                y = H(space.element(dx))
                y2 = g.derivative(space.element(x))(dx)         # history: a second derived operator from the same gradient
                if not np.array_equal(y.asarray(), y2.asarray()) or not isinstance(H, odl.solvers.NumericalDerivative):
                    ev['off'] = True
            elif case['kind2'] == 'grad':
                if case['fam'] == 'l2sq':
                    f = odl.solvers.L2NormSquared(space)
                else:
                    f = PolyFunctional(space, case['fam'], c.reshape(shp), b)
                if mspell == 'pos':
                    g = odl.solvers.NumericalGradient(f, meth.upper() if var.get('upper') else meth, np.float64(h))
                else:
                    g = odl.solvers.NumericalGradient(f, method=meth, step=h)
                xin = x if var.get('xkind') == 'ndarray' else (x.tolist() if var.get('xkind') == 'list' else space.element(x))
                keep = x.copy()
                y = g(xin)
                y2 = g(xin)
                if not np.array_equal(x, keep) or not np.array_equal(y.asarray(), y2.asarray()):
                    ev['off'] = True
            else:
                if case['fam'] == 'sq' and var.get('real_sq'):
                    A = odl.ufunc_ops.square(space)
                else:
                    A = PolyOperator(space, case['fam'], c.reshape(shp), b)
                dx = np.array([fc(z).real for z in case['dx']], dtype=space.dtype).reshape(shp)
                if mspell == 'pos':
                    D = odl.solvers.NumericalDerivative(A, x, meth, h)
                else:
                    D = odl.solvers.NumericalDerivative(A, space.element(x), method=meth, step=np.float32(h) if single else h)
                y = D(dx if var.get('xkind') == 'ndarray' else space.element(dx))
            if y not in space:
                ev['off'] = True
            ev['val'], off = proj_vec(y.asarray(), single)
            ev['off'] = ev['off'] or off
    except Exception as ex:
        ev['status'] = 'raises'
        ev['exc'] = type(ex).__name__
    return ev


ND_VARIANTS = [
    {'name': 'rn-double', 'dtype': 'double', 'kind': 'rn', 'mspell': 'kw', 'xkind': 'element', 'real_sq': True},
    {'name': 'discr-double-pos', 'dtype': 'double', 'kind': 'discr', 'mspell': 'pos', 'upper': True, 'xkind': 'ndarray'},
    {'name': 'rn-single', 'dtype': 'single', 'kind': 'rn', 'mspell': 'kw', 'xkind': 'list', 'shape': 'flat'},
]


def nd_dyadic(case):
    """exactly representable in float32: dyadic step / norm and dyadic points"""
    def dy(q):
        d = q[1]
        return d & (d - 1) == 0
    return dy(case['h']) and dy(case['nd']) and case['nd'][0] in (1, 2, 4) and all(dy(z[0]) for z in case['x'])


# ---------------------------------------------------------------------------------------------- ufuncs
from odl.util.ufuncs import UFUNCS  # noqa: E402
UF_TABLE = {u[0]: (u[1], u[2]) for u in UFUNCS}
UF_EXACT = {'negative', 'square', 'absolute', 'sign', 'reciprocal', 'floor', 'ceil', 'trunc', 'rint', 'conj',
            'add', 'subtract', 'multiply', 'maximum', 'minimum', 'fmax', 'fmin', 'true_divide', 'divide'}
UF_RECIPES = {'sin': 'cos', 'cos': 'neg-sin', 'tan': 'one-plus-tan2', 'sqrt': 'half-over-sqrt', 'log': 'reciprocal',
              'exp': 'exp', 'sinh': 'cosh', 'cosh': 'sinh'}


def uf_space(n, cplx, var):
    dt = {('double', False): 'float64', ('double', True): 'complex128', ('single', False): 'float32',
          ('single', True): 'complex64'}[(var.get('dtype', 'double'), cplx)]
    shape = (n,) if var.get('shape', 'flat') == 'flat' or n % 2 else (n // 2, 2)
    if var.get('kind') == 'discr':
        return odl.uniform_discr([0.0] * len(shape), [1.0] * len(shape), shape, dtype=dt)
    if var.get('kind') == 'weighted':
        return odl.tensor_space(shape, dtype=dt, weighting=2.0)
    return odl.tensor_space(shape, dtype=dt)


def deriv_status(fn):
    try:
        with warnings.catch_warnings():
            warnings.simplefilter('ignore')
            with np.errstate(all='ignore'):
                return 'ok', fn()
    except odl.OpNotImplementedError:
        return 'raises', None
    except NotImplementedError:
        return 'raises', None
    except Exception as ex:
        return 'raises-other', type(ex).__name__


def uf_event(name, cplx, xs, ys, var):
    """one ufunc OPERATOR on a space (value, flags, derivative)"""
    nin = UF_TABLE[name][0]
    single = var.get('dtype') == 'single'
    n = len(xs)
    ev = {'kind': 'uf', 'name': name, 'nin': nin, 'x': xs, 'y': ys if nin == 2 else [], 'status': 'ok', 'val': [],
          'off': False, 'lin': False, 'dstatus': 'na', 'dval': [], 'd': [], 'exact': name in UF_EXACT, 'on': 'space'}
    try:
        space = uf_space(n, cplx, var)
        shp = space.shape
        op = getattr(odl.ufunc_ops, name)(space)
        ev['lin'] = bool(op.is_linear)
        xa = np.array([fc(z) for z in xs])
        ya = np.array([fc(z) for z in ys]) if nin == 2 else None
        if not cplx:
            xa = xa.real
            ya = ya.real if ya is not None else None
        xa = xa.astype(space.dtype).reshape(shp)
        keep = xa.copy()
        with warnings.catch_warnings():
            warnings.simplefilter('ignore')
            with np.errstate(all='ignore'):
                if nin == 1:
                    xin = xa if var.get('xkind') == 'ndarray' else space.element(xa)
                    y = op(xin)
                    out = op.range.element()
                    y2 = op(space.element(xa), out=out)
                    same = np.array_equal(np.asarray(y), np.asarray(out), equal_nan=True) and y2 is out
                else:
                    ya = ya.astype(space.dtype).reshape(shp)
                    y = op([xa, ya])
                    same = True
                if op.domain != (space if nin == 1 else odl.ProductSpace(space, 2)):
                    ev['off'] = True
                if y not in op.range or op.range.shape != shp:
                    ev['off'] = True
        if ev['exact']:
            ev['val'], off = proj_vec(np.asarray(y), single)
            ev['off'] = ev['off'] or off or not same or not np.array_equal(xa, keep)
        if nin == 1:
            d = np.arange(1, n + 1, dtype=float).reshape(shp).astype(space.dtype)
            st, res = deriv_status(lambda: op.derivative(space.element(xa))(space.element(d)))
            ev['dstatus'] = st
            if st == 'ok':
                ev['d'] = [jc(int(v)) for v in np.arange(1, n + 1)]
                if name in ('square', 'reciprocal', 'negative'):
                    ev['dval'], off = proj_vec(np.asarray(res), single)
                    if off:
                        ev['dval'] = []
                        ev['dstatus'] = 'raises-other'
            elif st == 'raises-other':
                ev['exc'] = res
    except Exception as ex:
        ev['status'] = 'raises'
        ev['exc'] = type(ex).__name__
    return ev


def recipe_eval(recipe, make, x):
    """the documented derivative multiplier assembled from OTHER real ufunc operators / functionals"""
    if recipe == 'cos':
        return make('cos')(x)
    if recipe == 'neg-sin':
        return -1 * make('sin')(x)
    if recipe == 'one-plus-tan2':
        t = make('tan')(x)
        return 1 + make('square')(t)
    if recipe == 'half-over-sqrt':
        return 0.5 * make('reciprocal')(make('sqrt')(x))
    if recipe == 'reciprocal':
        return make('reciprocal')(x)
    if recipe == 'exp':
        return make('exp')(x)
    if recipe == 'cosh':
        return make('cosh')(x)
    if recipe == 'sinh':
        return make('sinh')(x)
    raise MachineryError(recipe)


def quant(arr):
    a = np.asarray(arr)
    if np.iscomplexobj(a):
        a = np.concatenate([a.real.ravel(), a.imag.ravel()])
    return [int(round(float(v) * 65536)) for v in a.ravel()]


def ufrel_event(name, var, on):
    recipe = UF_RECIPES[name]
    ev = {'kind': 'ufrel', 'name': name, 'recipe': recipe, 'dq': [], 'rq': [], 'status': 'ok',
          'on': on if on == 'space' else 'field-' + var.get('what', 'gradient')}
    try:
        with warnings.catch_warnings():
            warnings.simplefilter('ignore')
            if on == 'space':
                cplx = var.get('cplx', False)
                pts = np.array([0.5, 1.25, 2.0, 0.75])
                if cplx:
                    pts = pts + 1j * np.array([0.25, -0.5, 0.0, 1.0])
                space = uf_space(4, cplx, var)
                x = space.element(pts.reshape(space.shape))
                d = space.element(np.array([1.0, -2.0, 0.5, 1.0]).reshape(space.shape))
                op = getattr(odl.ufunc_ops, name)(space)
                dv = op.derivative(x)(d)
                rv = recipe_eval(recipe, lambda nm: getattr(odl.ufunc_ops, nm)(space), x) * d
                ev['dq'], ev['rq'] = quant(dv.asarray()), quant(rv.asarray())
            else:
                fld = odl.RealNumbers()
                dq, rq = [], []
                for p in (0.5, 1.25, 2.0):
                    f = getattr(odl.ufunc_ops, name)(fld) if var.get('spell') == 'arg' else getattr(odl.ufunc_ops, name)()
                    r = recipe_eval(recipe, lambda nm: getattr(odl.ufunc_ops, nm)(fld), p)
                    if var.get('what') == 'derivative':
                        # Functional.derivative: "self.derivative(point)(x) == self.gradient(point).inner(x)", an Operator
                        dq += quant([f.derivative(p)(2.0)])
                        rq += quant([2.0 * float(r)])
                    else:
                        dq += quant([f.gradient(p)])
                        rq += quant([r])
                ev['dq'], ev['rq'] = dq, rq
    except Exception as ex:
        ev['status'] = 'raises'
        ev['exc'] = type(ex).__name__
    return ev


def uf_field_event(name, cplx, xs):
    """ufunc FUNCTIONAL on RealNumbers / ComplexNumbers: value at each point (one event, pointwise)"""
    ev = {'kind': 'uf', 'name': name, 'nin': 1, 'x': xs, 'y': [], 'status': 'ok', 'val': [], 'off': False,
          'lin': False, 'dstatus': 'na', 'dval': [], 'd': [], 'exact': name in UF_EXACT, 'on': 'field'}
    try:
        fld = odl.ComplexNumbers() if cplx else odl.RealNumbers()
        f = getattr(odl.ufunc_ops, name)(fld)
        ev['lin'] = bool(f.is_linear)
        if f.domain != fld or not isinstance(f, odl.solvers.Functional):
            ev['off'] = True
        vals = []
        with warnings.catch_warnings():
            warnings.simplefilter('ignore')
            with np.errstate(all='ignore'):
                for z in xs:
                    p = fc(z) if cplx else fc(z).real
                    vals.append(f(p))
        if ev['exact']:
            ev['val'], off = proj_vec(np.array(vals))
            ev['off'] = ev['off'] or off
        if name in ('square', 'reciprocal') and not cplx:
            # gradient of the functional: the multiplier itself (direction 1)
            st, res = deriv_status(lambda: [f.gradient(fc(z).real) for z in xs])
            ev['dstatus'] = st
            if st == 'ok':
                ev['d'] = [jc(1) for _ in xs]
                ev['dval'], off = proj_vec(np.array([float(v) for v in res]))
                if off:
                    ev['dstatus'] = 'raises-other'
                    ev['dval'] = []
    except Exception as ex:
        ev['status'] = 'raises'
        ev['exc'] = type(ex).__name__
    return ev


UF_VARIANTS = [
    {'name': 'rn-double', 'dtype': 'double', 'kind': 'rn', 'shape': 'flat', 'xkind': 'element'},
    {'name': 'rn-single-2axes', 'dtype': 'single', 'kind': 'rn', 'shape': 'two', 'xkind': 'ndarray'},
    {'name': 'discr-double', 'dtype': 'double', 'kind': 'discr', 'shape': 'flat', 'xkind': 'element'},
    {'name': 'weighted-2axes', 'dtype': 'double', 'kind': 'weighted', 'shape': 'two', 'xkind': 'ndarray'},
]


# ---------------------------------------------------------------------------------------------- scipy functional
def sf_event(fam, c, b, x, w, var):
    n = len(x)
    ev = {'kind': 'sf', 'fam': fam, 'c': c, 'b': b, 'x': x, 'status': 'ok', 'val': jc(0), 'grad': [], 'gndim': 1,
          'frame': True, 'off': False, 'gstatus': 'na',
          # "the wrapped gradient": ODL's gradient is the Riesz representative in the WEIGHTED space (partials / weight);
          # the user functional of this harness defines its gradient as the plain partials
          'gw': jq(w) if fam == 'l2sq' else [1, 1]}
    try:
        space = nd_space(n, w, var)
        shp = space.shape
        ca = np.array([fc(z).real for z in c])
        ba = np.array([fc(z).real for z in b]).reshape(shp) if fam != 'l2sq' else None
        xa = np.array([fc(z).real for z in x])
        if fam == 'l2sq':
            f = odl.solvers.L2NormSquared(space)
        else:
            f = PolyFunctional(space, fam, ca.reshape(shp), ba)
        with warnings.catch_warnings():
            warnings.simplefilter('ignore')
            if var.get('grad', True):
                fun, grad = odl.as_scipy_functional(f, return_gradient=True) if var.get('spell') == 'kw' \
                    else odl.as_scipy_functional(f, True)
            else:
                fun, grad = odl.as_scipy_functional(f), None
            xin = xa.copy() if var.get('xkind') != 'list' else xa.tolist()
            keep = xa.copy()
            v = fun(xin)
            v2 = fun(xin)
            p = proj_c(v)
            if p is None or v != v2:
                ev['off'] = True
            else:
                ev['val'] = jc(p[0], p[1])
            if grad is not None:
                try:
                    g = grad(xin)
                    ev['gstatus'] = 'ok'
                    ev['gndim'] = int(np.ndim(g))
                    ev['grad'], off = proj_vec(np.asarray(g))
                    ev['off'] = ev['off'] or off
                except Exception as ex:
                    ev['gstatus'] = 'raises'
                    ev['exc'] = type(ex).__name__
            ev['frame'] = bool(np.array_equal(np.asarray(xin), keep))
    except Exception as ex:
        ev['status'] = 'raises'
        ev['exc'] = type(ex).__name__
    return ev


# ---------------------------------------------------------------------------------------------- signatures
def sig_of(ev, clause, var=''):
    k = ev['kind']
    s = {'stage': STAGE, 'part': k, 'clause': clause}
    if k == 'expr':
        s['leaves'] = '+'.join(sorted(expr_kinds(ev['e'])))
        s['spaces'] = expr_spaces(ev['e'])
    elif k in ('pm', 'pmrel'):
        s['path'] = 'normal' if ev.get('normal') else 'plain'
    elif k == 'pmarg':
        s['args'] = 'maxiter=%s square=%s adjoint=%s zero-start=%s' % (
            'None' if ev['mnone'] else ('nonpositive' if ev['maxiter'] <= 0 else ('odd' if ev['maxiter'] % 2 else 'even')),
            ev['square'], ev['hasadj'], ev['x0zero'])
    elif k == 'nd':
        s['cls'] = {'grad': 'NumericalGradient', 'hess': 'NumericalGradient.derivative'}.get(ev['kind2'], 'NumericalDerivative')
        s['method'] = 'any' if ev.get('zero') else ev['method']
    elif k in ('uf', 'ufrel'):
        s['on'] = ev.get('on', 'space')
        s['ufunc'] = ev['name'] if not s['on'].startswith('field-') else 'any-with-documented-gradient'
    elif k == 'sf':
        s['axes'] = 'multi' if ev.get('multi') else 'one'
    return s


DRIFT_CLAUSES = {'adjoint-value'}       # op.adjoint itself is the subject of C05, not of the wrapper


class Recorder(object):
    def __init__(self, ctx):
        self.ctx, self.events, self.reported = ctx, [], set()

    def add(self, ev, var_name=''):
        ev['id'] = len(self.events) + 1
        ev['var'] = var_name
        self.events.append(ev)
        return ev

    def report(self, ev, clauses, origin):
        for cl in clauses:
            if cl in DRIFT_CLAUSES:
                self.ctx.drift_note('oputil: op.adjoint differs from the reference adjoint (C05 subject): %s' %
                                    json.dumps(sig_of(ev, cl)))
                continue
            key = (ev['id'], cl)
            if key in self.reported:
                continue
            self.reported.add(key)
            det = {'stage_module': STAGE, 'origin': origin, 'variant': ev.get('var', ''), 'event': ev}
            self.ctx.violation(sig_of(ev, cl), det)


# ---------------------------------------------------------------------------------------------- TLC jobs
PARTS = ['expr', 'pm', 'pmarg', 'nd', 'uf']
IMPL_PROPS = ['matrep', 'pm', 'uf']
# Layer C (spec/impl/OpUtilImpl.tla) transcribes the CURRENT code of power_method_opnorm.  Flip a flag when the repair of
# the corresponding proposal is committed to /repo (the stage writes a drift note while flag and code disagree):
FIXED = {
    'NONE': True,         # proposals/EXT/oputil-pm-maxiter-none-raises            (KF-EXT-OPUTIL-1, fixed in /repo)
    'NOADJOINT': True,    # proposals/EXT/oputil-pm-adjoint-demanded-...            (KF-EXT-OPUTIL-2, fixed in /repo aa11fe4)
    'FIRSTSTOP': True,    # proposals/EXT/oputil-pm-first-estimate-compared-...     (KF-EXT-OPUTIL-3, fixed in /repo)
}
# the statement "the code deviates nowhere from the documentation" stays refuted while the documented evenness
# condition (domain != range) differs from the implemented one (op.adjoint is not op): KF-EXT-OPUTIL-4
PM_FINDINGS_OPEN = True


def run_models(ctx, work):
    jobs = []
    for p in PARTS:
        # laws (invariants / action property) and the per-state export in ONE run (-workers 1: the export appends lines)
        jobs.append(('check-' + p, 'MC_OpUtil.tla', 'MC_OpUtil_check.cfg',
                     {'OU_PART': p, 'OUT_FILE': os.path.join(work, 'exp_%s.ndjson' % p)}, 1, 'ok'))
    jobs.append(('bogus-axes', 'MC_OpUtil.tla', 'MC_OpUtil_bogus.cfg', {'OU_PART': 'expr'}, 2, 'cex'))
    for prop in IMPL_PROPS:
        jobs.append(('impl-' + prop, 'MC_OpUtilImpl.tla', 'MC_OpUtilImpl_%s.cfg' % prop,
                     {'OUT_FILE': os.path.join(work, 'exp_impl_%s.ndjson' % prop)}, 1, 'ok'))
    # layer C transcribes the CURRENT code: the statement "the code deviates nowhere from the documentation" must be
    # refuted while the power-method findings are open (flip the Fixed* constants of the cfgs when they are repaired)
    jobs.append(('impl-strict', 'MC_OpUtilImpl.tla', 'MC_OpUtilImpl_strict.cfg', {}, 2, 'cex' if PM_FINDINGS_OPEN else 'ok'))

    def go(j):
        name, mod, cfg, env, workers, _ = j
        env = dict(env, **{'OU_FIXED_' + k: '1' if v else '0' for k, v in FIXED.items()})
        d = os.path.join(work, 'tlc-' + name)
        os.makedirs(d, exist_ok=True)
        out = env.get('OUT_FILE')
        if out and os.path.exists(out):
            os.remove(out)
        return run_tlc(mod, cfg, d, env=env, workers=workers, timeout=600)

    with ThreadPoolExecutor(max_workers=7) as ex:
        results = list(ex.map(go, jobs))
    for j, res in zip(jobs, results):
        if j[5] == 'cex':
            ctx.add_tlc('oputil-' + j[0], res, expect='any')
            if res.status != 'counterexample':
                raise MachineryError('oputil: bogus law %s was not refuted (%s)' % (j[0], res.status))
        else:
            ctx.add_tlc('oputil-' + j[0], res)


def load(work, part):
    path = os.path.join(work, 'exp_%s.ndjson' % part)
    seen, out = set(), []
    with open(path) as f:
        for line in f:
            line = line.strip()
            if line and line not in seen:
                seen.add(line)
                out.append(json.loads(line))
    return out


# ---------------------------------------------------------------------------------------------- replay of exports
def replay_expr(ctx, rec, lines):
    n = 0
    for line in lines:
        e = line['e']
        for var in EXPR_VARIANTS:
            if var['kind'] == 'discr' and has_pspace_weight_issue(e):
                continue
            ev, err = observe_expr(e, line['dom'], line['ran'], var)
            if ev is None:
                if var['name'] == 'rn-double':
                    raise MachineryError('oputil: exported expression cannot be built: %s %s' % (err, json.dumps(e)[:300]))
                ctx.extra.setdefault('oputil_unbuildable', []).append('%s:%s:%s' % (var['name'], err, '+'.join(sorted(expr_kinds(e)))))
                continue
            rec.add(ev, var['name'])
            n += 1
            ctx.count(['oputil-expr', e, var['name']], line['lin'])
            rec.report(ev, expr_clauses_direct(line, ev), 'export')
    return n


def has_pspace_weight_issue(e):
    """MatrixOperator on a discretised space maps into a plain weighted tensor space (documented): products of such a
    range with the discretised space itself are no power spaces - the concretisation would change the case"""
    k = expr_kinds(e)
    return 'mataxis' in k and bool(k & {'bcast', 'red', 'diag', 'comp', 'sum'})


def replay_pm(ctx, rec, lines):
    n = 0
    index = {(l['id'], l['normal'], l['k']): l for l in lines}
    for line in lines:
        for var in pm_variants(line):
            ev = pm_event(line, var, line['k'])
            rec.add(ev, var['name'])
            n += 1
            ctx.count(['oputil-pm', line['id'], line['normal'], line['k'], var['name']], line['k'] >= 2)
            bad = []
            if ev['status'] != 'ok':
                bad.append('pm-raised')
            else:
                exp = index.get((line['id'], ev['normal'], ev['niter']))
                if ev['normal'] == line['normal'] and ev['niter'] == line['k']:
                    if ev['off'] or ev['pow'] != line['est_pow']:
                        bad.append('pm-value')
                elif exp is not None and (ev['off'] or ev['pow'] != exp['est_pow']):
                    bad.append('pm-value')
                if not ev['frame']:
                    bad.append('pm-xstart-modified')
                if ev['ncalls'] > ev['maxiter']:
                    bad.append('pm-too-many-calls')
            rec.report(ev, bad, 'export')
    return n


def pmarg_event(line, var):
    sq, ha = line['square'], line['hasadj']
    dt = 'float32' if var.get('dtype') == 'single' else 'float64'
    dom = odl.rn(2, dtype=dt)
    ran = dom if sq else odl.rn(3, dtype=dt)
    M = np.array([[2.0, 1.0], [1.0, 3.0]]) if sq else np.array([[1.0, 0.0], [0.0, 2.0], [1.0, 1.0]])
    if ha:
        if var.get('op') == 'selfadj' and sq:
            op = MatOp(M.astype(dt), dom, ran, True)
        else:
            op = odl.MatrixOperator(M.astype(dt), domain=dom, range=ran) if var.get('op') == 'matrix' \
                else MatOp(M.astype(dt), dom, ran, False)
    else:
        op = NoAdjoint(M.astype(dt), dom, ran) if (var.get('op') != 'matrix' or not sq) else odl.ufunc_ops.square(dom)
    x0 = [0.0, 0.0] if line['x0zero'] else [1.0, 2.0]
    maxiter = None if line['mnone'] else line['maxiter']
    if maxiter is not None and var.get('mkind') == 'npint':
        maxiter = np.int64(maxiter)
    r = pm_run(op, x0, maxiter, 1e-2, 0.0, want_cb=False)
    ev = {'kind': 'pmarg', 'mnone': line['mnone'], 'maxiter': line['maxiter'], 'square': sq, 'hasadj': ha,
          'x0zero': line['x0zero'], 'status': {'ok': 'finite'}.get(r['status'], r['status']),
          'adj': 'none' if not ha else ('self' if (var.get('op') == 'selfadj' and sq) else 'other'),
          'path': 'normal' if r['nadj'] > 0 else 'plain'}
    if 'exc' in r:
        ev['exc'] = r['exc']
    return ev


def replay_pmarg(ctx, rec, lines, impl):
    n = 0
    for line in lines:
        for var in ({'name': 'matrix', 'op': 'matrix'}, {'name': 'user-npint-single', 'op': 'user', 'mkind': 'npint',
                                                         'dtype': 'single'}, {'name': 'selfadj', 'op': 'selfadj'}):
            if var['op'] == 'selfadj' and not (line['square'] and line['hasadj']):
                continue
            ev = pmarg_event(line, var)
            # conformance of the code-shaped model (layer C) with the real code: a difference is DRIFT, not a violation
            key = (line['mnone'], line['maxiter'], ev['adj'], line['square'], line['x0zero'])
            want = impl.get(key)
            got = ev.get('exc', ev['path']) if ev['status'] == 'raises' else ev['path']
            if want is not None and want.split(':')[0] != got:
                ctx.drift_note('oputil: layer C (OpUtilImpl!ImplPMOutcome) says %s, real power_method_opnorm did %s for %s'
                               % (want, got, json.dumps(key)))
            rec.add(ev, var['name'])
            n += 1
            ctx.count(['oputil-pmarg', line, var['name']], True)
            bad = []
            if ev['status'] == 'nonfinite':
                bad.append('pm-nonfinite-estimate')
            if line['outcome'] == 'raises' and ev['status'] != 'raises':
                bad.append('pmarg-accepted')
            if line['outcome'] == 'returns' and ev['status'] == 'raises':
                bad.append('pmarg-raised')
            rec.report(ev, bad, 'export')
    return n


def replay_nd(ctx, rec, lines, tier):
    n = 0
    for idx, line in enumerate(lines):
        case = {k: line[k] for k in ('fam', 'c', 'b', 'x', 'dx', 'nd', 'w', 'method', 'h', 'zero')}
        case['kind2'] = line['kind']
        for vi, var in enumerate(ND_VARIANTS):
            if var['dtype'] == 'single' and not nd_dyadic(case):
                continue
            if tier == 'quick' and (idx + vi) % 2 and not line['zero']:
                continue
            ev = nd_event(case, var)
            rec.add(ev, var['name'])
            n += 1
            ctx.count(['oputil-nd', case, var['name']], line['deg'] >= 2)
            bad = []
            if ev['status'] != 'ok':
                bad.append('nd-zero-direction-raised' if line['zero'] else 'nd-raised')
            elif ev['off'] or ev['val'] != line['val']:
                bad.append('nd-zero-direction-value' if line['zero'] else 'nd-value')
            rec.report(ev, bad, 'export')
        # documented default step ("according to the dtype of the space"): forward difference of the quadratic
        if line['kind'] == 'grad' and line['fam'] == 'fquad' and line['method'] == 'forward' and line['h'] == [1, 2] \
                and line['w'] == [1, 1]:
            for dt in ('float64', 'float32'):
                n_ = len(line['x'])
                space = odl.rn(n_, dtype=dt)
                c = np.array([fc(z).real for z in line['c']], dtype=dt)
                b = np.array([fc(z).real for z in line['b']], dtype=dt)
                x = np.array([fc(z).real for z in line['x']], dtype=dt)
                f = PolyFunctional(space, 'fquad', c, b)
                g = odl.solvers.NumericalGradient(f)(x).asarray()
                true = np.array([fc(z).real for z in line['true']])
                err = float(np.max(np.abs(g.astype(float) - true)))
                ev = {'kind': 'ndstep', 'dtype': dt, 'errq': int(min(round(err * 65536), 2 ** 30))}
                rec.add(ev, dt)
                n += 1
                ctx.count(['oputil-ndstep', dt, line['x']], True)
                if ev['errq'] > (2 if dt == 'float64' else 4096):
                    rec.report(ev, ['nd-default-step'], 'export')
    return n


def replay_uf(ctx, rec, lines):
    n = 0
    for line in lines:
        name = line['name']
        if name not in UF_TABLE:
            raise MachineryError('oputil: ufunc %s of the specification is not generated by ODL' % name)
        for var in UF_VARIANTS:
            ev = uf_event(name, line['cplx'], line['x'], line['y'], var)
            rec.add(ev, var['name'])
            n += 1
            ctx.count(['oputil-uf', name, line['cplx'], var['name']], True)
            bad = []
            if ev['status'] != 'ok':
                bad.append('uf-raised')
            elif ev['off'] or ev['val'] != line['val']:
                bad.append('uf-value')
            if ev['lin'] and not line['trulylinear']:
                bad.append('uf-linear-flag')
            if line['hasderiv'] and ev['dstatus'] in ('raises', 'raises-other'):
                bad.append('uf-deriv-raised')
            # (the derivative VALUE of the exact ufuncs is decided by the trace specification: complex rational product)
            rec.report(ev, bad, 'export')
        if line['nin'] == 1:
            ev = uf_field_event(name, line['cplx'], line['x'])
            rec.add(ev, 'field')
            n += 1
            ctx.count(['oputil-uf-field', name, line['cplx']], True)
            bad = []
            if ev['status'] != 'ok':
                bad.append('uf-raised')
            elif ev['off'] or ev['val'] != line['val']:
                bad.append('uf-value')
            if ev['lin'] and not line['trulylinear']:
                bad.append('uf-linear-flag')
            rec.report(ev, bad, 'export')
    return n


def uf_layer_c(ctx, rows):
    """conformance of the code-shaped ufunc factory model with the real generated classes (drift notes only)"""
    for l in rows:
        name = l['row']['name']
        if name not in UF_TABLE or UF_TABLE[name] != (l['row']['nin'], l['row']['nout']):
            ctx.drift_note('oputil: layer C ufunc table row %s differs from odl.util.ufuncs.UFUNCS' % name)
            continue
        try:
            f = getattr(odl.ufunc_ops, name)(odl.RealNumbers())
            got = 'functional' if isinstance(f, odl.solvers.Functional) else 'other'
        except ValueError:
            got = 'ValueError'
        except Exception as ex:
            got = type(ex).__name__
        if got != l['field']:
            ctx.drift_note('oputil: layer C says ufunc_ops.%s(RealNumbers()) -> %s, real: %s' % (name, l['field'], got))
        if l['field'] == 'functional' and got == 'functional':
            try:
                f.gradient
                g = 'defined'
            except Exception as ex:
                g = type(ex).__name__
            if g != l['grad']:
                ctx.drift_note('oputil: layer C says gradient of ufunc functional %s: %s, real: %s' % (name, l['grad'], g))
        if 'shift' in name or 'bitwise' in name or name == 'invert':
            continue
        try:
            op = getattr(odl.ufunc_ops, name)(odl.rn(2))
            if bool(op.is_linear) != l['linear']:
                ctx.drift_note('oputil: layer C linear flag of %s: %s, real: %s' % (name, l['linear'], op.is_linear))
        except Exception as ex:
            ctx.drift_note('oputil: ufunc operator %s on rn(2) cannot be created: %s' % (name, type(ex).__name__))
    if len(rows) != len(UF_TABLE):
        ctx.drift_note('oputil: layer C ufunc table has %d rows, ODL generates %d' % (len(rows), len(UF_TABLE)))


# ---------------------------------------------------------------------------------------------- OpSem programs
def export_opsem(ctx, tier):
    from .. import oputil as opm
    if tier == 'quick':
        # quick: TLC -simulate behaviours of the deep alphabet (seeded); thorough: all programs with <= 3 steps
        return {profile: opm.export_programs(ctx, profile, 'l', 'oputil', simulate='num=60', depth=7, seed=ctx.seed + 1)
                for profile in ('R', 'C')}
    return {profile: opm.export_programs(ctx, profile, 's', 'oputil') for profile in ('R', 'RW', 'C')}


def replay_opsem(ctx, rec, tier, exports):
    """matrix_representation of the operator EXPRESSIONS of OpMachine (C04-C06): the exact matrix `MatOf(expr)` exported
    by MC_OpMachine (layer A of operator arithmetic) must be what ODL's own matrix_representation returns for the real
    operator built through the Python overloads; nonlinear programs must be rejected."""
    from .. import oputil as opm
    n = 0
    for profile, (out, res) in exports.items():
        ctx.add_tlc('oputil-opsem-export-' + profile, res)
        sp = opm.Spaces(profile)
        for idx, line in enumerate(opm.load_lines(out)):
            if line['dom'] != 'V' or line['ran'] != 'V' or not line['supported']:
                continue        # a field is no TensorSpace: nothing is documented for it
            e = line['prog']
            try:
                op = opm.build(e, sp)
            except Exception:
                continue        # construction is the subject of C04
            if bool(op.is_linear) != bool(line['lin']):
                continue        # the linearity flag of expressions is the subject of C04
            ev = {'kind': 'opsem', 'profile': profile, 'prog': e, 'lin': line['lin']}
            bad = []
            try:
                with warnings.catch_warnings():
                    warnings.simplefilter('ignore')
                    T_ = odl.matrix_representation(op)
                flat, off = proj_vec(T_)
                ev['shape'], ev['flat'] = list(T_.shape), flat
                if not line['lin']:
                    bad.append('matrep-accepted')
                else:
                    exp = [c for row in line['mat'] for c in row]
                    if list(T_.shape) != [2, 2]:
                        bad.append('matrep-shape')
                    elif off or flat != exp:
                        bad.append('matrep-value')
                    if bool(np.iscomplexobj(T_)) != (profile == 'C'):
                        bad.append('matrep-dtype')
            except Exception as ex:
                ev['exc'] = type(ex).__name__
                if line['lin']:
                    bad.append('matrep-raised')
            n += 1
            ctx.count(['oputil-opsem', profile, e], bool(line['lin']))
            for cl in bad:
                ctx.violation({'stage': STAGE, 'part': 'opsem', 'clause': cl, 'profile': profile,
                               'top': e['t'], 'leaves': '+'.join(sorted(opm.leaf_kinds(e)))},
                              {'stage_module': STAGE, 'origin': 'export', 'event': ev, 'expected': line.get('mat')})
    return n


# ---------------------------------------------------------------------------------------------- wide drivers
def T(shape, w=1, cplx=False):
    return {'k': 't', 'shape': list(shape), 'w': jq(w), 'cplx': cplx, 'parts': []}


def P(*parts):
    return {'k': 'p', 'shape': [], 'w': [1, 1], 'cplx': parts[0]['cplx'], 'parts': list(parts)}


NOSP = T(())


def leaf(t, sp, a=None, v=None, m=None, n=0):
    return {'t': t, 'sp': sp, 'a': a or jc(0), 'v': v or [], 'm': m or [], 'n': n, 'l': [], 'r': []}


def node(t, l, r=None, a=None):
    return {'t': t, 'sp': NOSP, 'a': a or jc(0), 'v': [], 'm': [], 'n': 0, 'l': l, 'r': r or []}


def sp_after(e):
    """(dom, ran) descriptors, mirroring only the TYPING needed to generate well-typed wide cases"""
    t = e['t']
    if t == 'comp':
        return sp_after(e['r'])[0], sp_after(e['l'])[1]
    if t in ('sum', 'lscal'):
        return sp_after(e['l'])
    if t == 'bcast':
        return sp_after(e['l'])[0], P(sp_after(e['l'])[1], sp_after(e['r'])[1])
    if t == 'red':
        return P(sp_after(e['l'])[0], sp_after(e['r'])[0]), sp_after(e['l'])[1]
    if t == 'diag':
        return P(sp_after(e['l'])[0], sp_after(e['r'])[0]), P(sp_after(e['l'])[1], sp_after(e['r'])[1])
    sp = e['sp']
    if t == 'mataxis':
        sh = list(sp['shape'])
        sh[e['n']] = len(e['m'])
        return sp, T(sh, fq(sp['w']), sp['cplx'])
    if t == 'flatten':
        return sp, T((int(np.prod(sp['shape'])),), 1, sp['cplx'])
    if t == 'proj':
        return sp, sp['parts'][e['n']]
    if t == 'emb':
        return sp['parts'][e['n']], sp
    if t == 'cembed':
        return sp, T(sp['shape'], fq(sp['w']), True)
    return sp, sp


def wide_expr_cases(rng, tier):
    def imat(r, c, cplx=False):
        return [[jc(rng.randint(-3, 3), rng.randint(-2, 2) if cplx else 0) for _ in range(c)] for _ in range(r)]
    R322 = T((3, 2, 2))
    R32 = T((3, 2), Fraction(1, 4))
    C22 = T((2, 2), 1, True)
    R4 = T((4,), 2)
    cases = []
    for ax in (0, 1, 2):
        k = R322['shape'][ax]
        cases.append(leaf('mataxis', R322, m=imat(rng.choice([1, 2, 4]), k), n=ax))
    cases.append(leaf('mataxis', R32, m=imat(2, 3), n=0))
    cases.append(leaf('mataxis', R32, m=imat(4, 2), n=1))
    cases.append(leaf('mataxis', C22, m=imat(3, 2, True), n=rng.choice([0, 1])))
    cases.append(leaf('flatten', R322, n=1))
    cases.append(leaf('flatten', R32, n=rng.choice([0, 1])))
    cases.append(leaf('mulvec', R322, v=[jc(rng.randint(-4, 4)) for _ in range(12)]))
    cases.append(leaf('scale', C22, a=jc(rng.randint(1, 3), rng.randint(-2, 2))))
    P3 = P(R4, R4, R4)
    cases.append(leaf('proj', P3, n=rng.choice([0, 1, 2])))
    cases.append(leaf('emb', P3, n=rng.choice([0, 1, 2])))
    cases.append(leaf('id', P(R32, R32)))
    cases.append(leaf('id', P(R4, T((3,)), R4)))
    cases.append(leaf('sq', R322))
    a, b = leaf('mataxis', R4, m=imat(4, 4), n=0), leaf('mataxis', R4, m=imat(4, 4), n=0)
    cases.append(node('bcast', a, b))
    cases.append(node('red', a, b))
    cases.append(node('diag', a, leaf('id', R4)))
    cases.append(node('comp', node('red', a, leaf('id', R4)), node('bcast', b, a)))
    cases.append(node('sum', node('comp', a, b), node('lscal', b, a=jc(rng.randint(-3, 3)))))
    cases.append(node('comp', leaf('flatten', R32, n=1), leaf('mataxis', T((3, 3), Fraction(1, 4)), m=imat(2, 3), n=1)))
    cases.append(node('comp', leaf('mulvec', T((2,), 1, True), v=[jc(1, 1), jc(0, -2)]), leaf('cembed', T((2,)))))
    m3 = leaf('mataxis', R322, m=imat(2, 2), n=1)
    cases.append(node('bcast', m3, leaf('id', R322)))
    cases.append(node('sum', leaf('sq', R4), a))
    if tier == 'thorough':
        for _ in range(80):
            sh = rng.choice([(2, 2), (3, 2), (2, 3, 2), (4,), (1, 3), (2, 1, 2)])
            sp = T(sh, rng.choice([1, 2, Fraction(1, 2)]), rng.random() < 0.3)
            ax = rng.randrange(len(sh))
            cases.append(leaf('mataxis', sp, m=imat(rng.choice([1, 2, 3]), sh[ax], sp['cplx']), n=ax))
    return cases


def wide_pm(ctx, rec, rng, tier):
    """longer runs on diagonal / symmetric operators with tolerances: estimates as quanta, TLC checks the relations"""
    n = 0
    reps = 3 if tier == 'quick' else 40
    for r in range(reps):
        size = rng.choice([3, 4, 6])
        # diagonal with spectral gap >= 2: one dominant entry `top`, all others of modulus <= top / 2
        top = rng.randint(2, 8)
        d = [top] + [rng.choice([-1, 1]) * rng.randint(1, max(1, top // 2)) for _ in range(size - 1)]
        rng.shuffle(d)
        for how, dt in (('matrix', 'float64'), ('diagonal', 'float64'), ('selfadj', 'float32')):
            dom = odl.rn(size, dtype=dt)
            Mnp = np.diag(np.array(d, dtype=dt))
            if how == 'matrix':
                op = odl.MatrixOperator(Mnp, domain=dom, range=dom)
            elif how == 'diagonal':
                op = odl.MultiplyOperator(dom.element(np.array(d, dtype=dt)))
            else:
                op = MatOp(Mnp, dom, dom, True)
            x0 = np.array([1.0 + 0.25 * ((i * 7 + r) % 3) for i in range(size)], dtype=dt) * 64.0
            probe = pm_run(op, x0, 2, 0.0, 0.0)
            per = 2 if probe['nadj'] > 0 else 1
            N = 12
            ests, ok = [], True
            for k in range(1, N + 1):
                rr = pm_run(op, x0.copy(), k * per, 0.0, 0.0, want_cb=False)
                if rr['status'] != 'ok':
                    ok = False
                    break
                ests.append(int(round(rr['est'] * Q12)))
            if not ok:
                ev = {'kind': 'pm', 'status': 'raises', 'M': [], 'wd': [], 'wr': [], 'x0': [], 'maxiter': 0, 'normal': per == 2,
                      'niter': 0, 'ncalls': 0, 'ncb': 0, 'pow': [0, 1], 'off': False, 'frame': True}
                rec.add(ev, how)
                continue
            for (rn_, rd_, atol) in ((1, 10, 0.0), (1, 100, 0.0), (1, 1000, 0.01)):
                maxit = N
                rr = pm_run(op, x0.copy(), maxit * per, float(rn_) / rd_, atol)
                K = (rr['nop'] + rr['nadj']) // per
                ev = {'kind': 'pmrel', 'ests': ests, 'diag': [int(v) for v in d], 'rn': rn_, 'rd': rd_,
                      'atq': int(round(atol * Q12)), 'maxit': maxit, 'K': K,
                      'rq': int(round(rr.get('est', -1.0) * Q12)) if rr['status'] == 'ok' else -10 ** 6,
                      'ncb': rr['ncb'], 'conv': True, 'normal': per == 2, 'dtype': dt}
                # convergence within the quantum is only guaranteed when (1/2)^(2*per*N) << 2^-12 : N = 12 is enough
                rec.add(ev, how)
                n += 1
                ctx.count(['oputil-pmrel', d, how, rn_, rd_], True)
    return n


def wide_nd(ctx, rec, rng, tier):
    n = 0
    reps = 6 if tier == 'quick' else 200
    # derived object NumericalGradient(f).derivative(x), every method
    for hm in ('forward', 'backward', 'central'):
        for _ in range(2 if tier == 'quick' else 20):
            size = rng.choice([4, 6, 8])
            dxh = [jc(rng.choice([-1, 1])) if i < 4 else jc(0) for i in range(size)]
            rng.shuffle(dxh)
            hcase = {'kind2': 'hess', 'fam': 'fcube', 'c': [jc(rng.choice([-2, -1, 1, 2])) for _ in range(size)],
                     'b': [jc(0)] * size, 'x': [jc(Fraction(rng.randint(-4, 4), 2)) for _ in range(size)], 'dx': dxh,
                     'nd': [2, 1], 'w': [1, 1], 'method': hm, 'h': jq(rng.choice([Fraction(1, 4), Fraction(1)])),
                     'zero': False}
            hvar = rng.choice(ND_VARIANTS[:2])
            rec.add(nd_event(hcase, hvar), hvar['name'])
            ctx.count(['oputil-nd-hess', hm, size, hvar['name']], True)
            n += 1
    for _ in range(reps):
        size = rng.choice([3, 6, 8])
        c = [jc(rng.randint(-3, 3)) for _ in range(size)]
        b = [jc(rng.randint(-2, 2)) for _ in range(size)]
        x = [jc(Fraction(rng.randint(-6, 6), 2)) for _ in range(size)]
        meth = rng.choice(['forward', 'backward', 'central'])
        fam = rng.choice(['lin', 'fquad', 'fcube'])
        # (cubics with small steps leave the 32-bit rationals of TLC)
        h = rng.choice([Fraction(1, 2), Fraction(1)] if fam == 'fcube' else [Fraction(1, 2), Fraction(1, 8), Fraction(1)])
        case = {'kind2': 'grad', 'fam': fam, 'c': c, 'b': b, 'x': x, 'dx': [], 'nd': [1, 1], 'w': [1, 1], 'method': meth,
                'h': jq(h), 'zero': False}
        var = rng.choice(ND_VARIANTS)
        rec.add(nd_event(case, var), var['name'])
        ctx.count(['oputil-nd-wide', fam, meth, size, var['name']], True)
        # directions with |dx| = 2 (four entries +-1) padded with zeros
        dx = [jc(rng.choice([-1, 1])) if i < 4 else jc(0) for i in range(size)] if size >= 4 else [jc(2), jc(0), jc(0)]
        rng.shuffle(dx)
        fam = rng.choice(['sq', 'cube', 'aff', 'quad'])
        if fam == 'cube' and h < Fraction(1, 2):
            h = Fraction(1, 2)
        case = {'kind2': 'deriv', 'fam': fam, 'c': c, 'b': b, 'x': x, 'dx': dx, 'nd': [2, 1], 'w': [1, 1], 'method': meth,
                'h': jq(h), 'zero': False}
        rec.add(nd_event(case, var), var['name'])
        ctx.count(['oputil-nd-wide', fam, meth, size, var['name']], True)
        n += 2
    return n


def wide_uf(ctx, rec, rng, tier):
    n = 0
    for name in sorted(UF_TABLE) * (1 if tier == 'quick' else 4):
        nin, nout = UF_TABLE[name]
        if nout != 1 or 'shift' in name or 'bitwise' in name or name == 'invert':
            continue
        xs = [jc(Fraction(rng.randint(-9, 9), 4)) for _ in range(6)]
        ys = [jc(Fraction(rng.choice([-5, -3, -1, 1, 2, 6]), 2)) for _ in range(6)]
        if name == 'reciprocal':
            xs = [z if z[0][0] != 0 else jc(3) for z in xs]
        var = rng.choice(UF_VARIANTS)
        rec.add(uf_event(name, False, xs, ys, var), var['name'])
        ctx.count(['oputil-uf-wide', name, var['name']], True)
        n += 1
        if nin == 1:
            rec.add(uf_field_event(name, False, xs), 'field')
            n += 1
    for name in sorted(UF_RECIPES):
        for var in ({'name': 'rn', 'kind': 'rn'}, {'name': 'discr-2axes', 'kind': 'discr', 'shape': 'two'},
                    {'name': 'cn', 'kind': 'rn', 'cplx': True}):
            if var.get('cplx') and name in ('sqrt', 'log'):
                continue          # branch cuts: the relation is only exercised on the real axis
            rec.add(ufrel_event(name, var, 'space'), var['name'])
            n += 1
            ctx.count(['oputil-ufrel', name, var['name']], True)
        for var in ({'name': 'field-default', 'spell': 'default'}, {'name': 'field-arg', 'spell': 'arg'},
                    {'name': 'field-derivative', 'spell': 'arg', 'what': 'derivative'}):
            rec.add(ufrel_event(name, var, 'field'), var['name'])
            n += 1
            ctx.count(['oputil-ufrel-field', name, var['name']], True)
    return n


def wide_sf(ctx, rec, rng, tier):
    n = 0
    for size in (3, 4, 6):
        for fam in ('lin', 'fquad', 'fcube', 'l2sq'):
            for vi, var in enumerate(({'name': 'rn', 'kind': 'rn', 'spell': 'pos', 'xkind': 'array'},
                                      {'name': 'discr-list', 'kind': 'discr', 'spell': 'kw', 'xkind': 'list'},
                                      {'name': 'flat-nograd', 'kind': 'rn', 'shape': 'flat', 'grad': False})):
                w = Fraction(1, 2) if vi == 1 else 1
                c = [jc(w)] if fam == 'l2sq' else [jc(rng.randint(-3, 3)) for _ in range(size)]
                b = [jc(rng.randint(-2, 2)) for _ in range(size)]
                x = [jc(Fraction(rng.randint(-6, 6), 2)) for _ in range(size)]
                ev = sf_event(fam, c, b, x, w, var)
                ev['multi'] = size >= 4 and var.get('shape') != 'flat'
                rec.add(ev, var['name'])
                n += 1
                ctx.count(['oputil-sf', fam, size, var['name']], True)
    return n


# ---------------------------------------------------------------------------------------------- trace validation
TRACE_KEYS = {
    'expr': ('e', 'mr', 'sc'),
    'pm': ('M', 'wd', 'wr', 'x0', 'maxiter', 'status', 'normal', 'niter', 'ncalls', 'ncb', 'pow', 'off', 'frame'),
    'pmrel': ('ests', 'diag', 'rn', 'rd', 'atq', 'maxit', 'K', 'rq', 'ncb', 'conv'),
    'pmarg': ('mnone', 'maxiter', 'square', 'hasadj', 'x0zero', 'status'),
    'nd': ('kind2', 'fam', 'c', 'b', 'x', 'dx', 'nd', 'w', 'method', 'h', 'zero', 'status', 'val', 'off'),
    'ndstep': ('dtype', 'errq'),
    'uf': ('name', 'nin', 'x', 'y', 'status', 'val', 'off', 'lin', 'dstatus', 'dval', 'd', 'exact'),
    'ufrel': ('name', 'recipe', 'dq', 'rq', 'status'),
    'sf': ('fam', 'c', 'b', 'x', 'status', 'val', 'grad', 'gndim', 'frame', 'off', 'gstatus', 'gw'),
}


def slim(ev):
    out = {'id': ev['id'], 'kind': ev['kind']}
    for k in TRACE_KEYS[ev['kind']]:
        v = ev[k]
        if k in ('mr', 'sc'):
            v = {kk: vv for kk, vv in v.items() if kk != 'exc'}
        out[k] = v
    return out


def validate(ctx, rec, work, events, tag, expect_fail=None):
    chunks, cur, cost = [], [], 0
    for ev in events:
        c = 20 if ev['kind'] == 'expr' else 1
        if cur and cost + c > 2000:
            chunks.append(cur)
            cur, cost = [], 0
        cur.append(ev)
        cost += c
    if cur:
        chunks.append(cur)

    def go(i):
        d = os.path.join(work, 'trace-%s-%d' % (tag, i))
        os.makedirs(d, exist_ok=True)
        path = os.path.join(d, 'trace.ndjson')
        with open(path, 'w') as f:
            for ev in chunks[i]:
                f.write(json.dumps(slim(ev)) + '\n')
        return run_tlc('Trace_OpUtil.tla', 'Trace_OpUtil.cfg', d, env={'TRACE_FILE': path}, workers=1, timeout=900)

    with ThreadPoolExecutor(max_workers=6) as ex:
        results = list(ex.map(go, range(len(chunks))))
    fails = []
    import re
    for i, res in enumerate(results):
        ctx.add_tlc('oputil-trace-%s-%d' % (tag, i), res)
        for (ln, eid, text) in parse_fails(res.output):
            cls = re.findall(r'"([\w-]+)"', text)
            fails.append((eid, cls))
    return fails


def tamper_check(ctx, rec, work):
    """a corrupted event must be rejected by the trace specification (the validation is not vacuous)"""
    import copy
    picked = []
    for kind, mut in (('expr', 'shape'), ('pm', 'pow'), ('nd', 'val'), ('uf', 'val'), ('sf', 'grad'), ('pmrel', 'ests')):
        for ev in rec.events:
            if ev['kind'] != kind:
                continue
            if kind == 'expr' and (ev['mr']['status'] != 'ok' or len(ev['mr']['shape']) < 3):
                continue
            if kind == 'pm' and (ev['status'] != 'ok' or ev['off']):
                continue
            if kind in ('nd', 'uf') and (ev['status'] != 'ok' or not ev['val'] or ev['off'] or not ev.get('exact', True)):
                continue
            if kind == 'sf' and (ev['gstatus'] != 'ok' or ev['gndim'] != 1 or ev['off']):
                continue
            t = copy.deepcopy(ev)
            if kind == 'expr':
                t['mr']['shape'] = list(reversed(t['mr']['shape']))     # domain axes first
                if t['mr']['shape'] == ev['mr']['shape']:
                    continue
            elif kind == 'pm':
                t['pow'] = [t['pow'][0] + t['pow'][1], t['pow'][1]]
            elif kind in ('nd', 'uf'):
                t['val'][0] = [[t['val'][0][0][0] + t['val'][0][0][1], t['val'][0][0][1]], t['val'][0][1]]
            elif kind == 'sf':
                t['grad'] = list(reversed(t['grad']))
                if t['grad'] == ev['grad']:
                    continue
            else:
                t['ests'] = list(reversed(t['ests']))
                if t['ests'] == ev['ests'] or abs(t['ests'][0] - t['ests'][-1]) < 8:
                    continue
            picked.append(t)
            break
    if len(picked) < 4:
        raise MachineryError('oputil: tamper check found too few events to corrupt')
    for i, t in enumerate(picked):
        t['id'] = i + 1
    d = os.path.join(work, 'tamper')
    os.makedirs(d, exist_ok=True)
    path = os.path.join(d, 'trace.ndjson')
    with open(path, 'w') as f:
        for ev in picked:
            f.write(json.dumps(slim(ev)) + '\n')
    res = run_tlc('Trace_OpUtil.tla', 'Trace_OpUtil.cfg', d, env={'TRACE_FILE': path}, workers=1, timeout=300)
    ctx.add_tlc('oputil-trace-tampered', res)
    rejected = {eid for (ln, eid, text) in parse_fails(res.output)}
    if len(rejected) != len(picked):
        raise MachineryError('oputil: trace specification accepted a corrupted event (%d of %d rejected)' %
                             (len(rejected), len(picked)))
    ctx.extra['oputil_tampered_events_rejected'] = len(picked)


# ---------------------------------------------------------------------------------------------- stage
def run_stage(ctx):
    work = os.path.join(ctx.work, 'oputil')
    os.makedirs(work, exist_ok=True)
    rng = random.Random(1000 + ctx.seed)
    import time
    tt = [time.time()]
    walls = {}

    def lap(name):
        tt.append(time.time())
        walls[name] = round(tt[-1] - tt[-2], 1)
    with ThreadPoolExecutor(max_workers=1) as side:
        fut = side.submit(export_opsem, ctx, ctx.tier)
        run_models(ctx, work)
        opsem_exports = fut.result()
    lap('tlc-models')
    rec = Recorder(ctx)
    counts = {}
    counts['expr'] = replay_expr(ctx, rec, load(work, 'expr'))
    counts['pm'] = replay_pm(ctx, rec, load(work, 'pm'))
    impl_pm = {(l['call']['mnone'], l['call']['maxiter'], l['call']['adj'], l['call']['square'], l['call']['x0zero']):
               l['impl'] for l in load(work, 'impl_pm') if 'call' in l}
    counts['pmarg'] = replay_pmarg(ctx, rec, load(work, 'pmarg'), impl_pm)
    uf_layer_c(ctx, load(work, 'impl_uf'))
    counts['nd'] = replay_nd(ctx, rec, load(work, 'nd'), ctx.tier)
    counts['uf'] = replay_uf(ctx, rec, load(work, 'uf'))
    counts['opsem'] = replay_opsem(ctx, rec, ctx.tier, opsem_exports)
    n_export = len(rec.events) + counts['opsem']
    lap('replay-exports')
    # wide drivers (beyond the TLC constants): only the trace specification decides
    for e in wide_expr_cases(rng, ctx.tier):
        dom, ran = sp_after(e)
        var = rng.choice(EXPR_VARIANTS)
        if var['kind'] == 'discr' and has_pspace_weight_issue(e):
            var = EXPR_VARIANTS[0]      # (this concretisation would change the case, see has_pspace_weight_issue)
        ev, err = observe_expr(e, dom, ran, var)
        if ev is None:
            ctx.extra.setdefault('oputil_unbuildable', []).append('%s:%s' % (var['name'], err))
            continue
        rec.add(ev, var['name'])
        ctx.count(['oputil-expr-wide', e, var['name']], True)
    counts['pmrel'] = wide_pm(ctx, rec, rng, ctx.tier)
    counts['nd-wide'] = wide_nd(ctx, rec, rng, ctx.tier)
    counts['uf-wide'] = wide_uf(ctx, rec, rng, ctx.tier)
    counts['sf'] = wide_sf(ctx, rec, rng, ctx.tier)
    lap('wide-drivers')
    fails = validate(ctx, rec, work, rec.events, 'all')
    lap('trace-validation')
    byid = {ev['id']: ev for ev in rec.events}
    for eid, clauses in fails:
        rec.report(byid[eid], clauses, 'trace')
    tamper_check(ctx, rec, work)
    ctx.traces += len(rec.events)
    ctx.extra['oputil_replayed_export_cases'] = n_export
    ctx.extra['oputil_events_validated'] = len(rec.events)
    ctx.extra['oputil_counts'] = counts
    lap('tamper-check')
    ctx.extra['oputil_walls'] = walls
    ctx.assumptions += [
        'oputil: matrix_representation axis order follows the doctest (range axes first); the sentence "shape will be '
        'op.domain.shape + op.range.shape" of the same docstring contradicts it and is not used',
        'oputil: a power space whose base is itself a product space is neither promised nor excluded by '
        'matrix_representation ("must be a power-space"): raising and a correct tensor are both accepted',
        'oputil: power_method_opnorm with a zero start vector / an iterate that becomes zero is undocumented: only '
        '"a returned estimate is a finite number" is demanded',
        'oputil: which of two consecutive estimates is `b` in the documented stopping rule is not said: both readings '
        'are accepted (3 quanta of 1/4096 slack)',
        'oputil: is_linear of a ufunc operator is only required to be sound (flagged => mathematically linear)',
        'oputil: NumericalGradient on a weighted space: the Notes give the plain difference quotients; the gradient as '
        'Riesz representative of the weighted inner product divides them by the weight (code since /repo 2f5eccc); layer A '
        'follows the Riesz reading, which coincides with the Notes on unweighted spaces',
        'oputil: as_scipy_operator on spaces other than tensor / power-of-tensor spaces and with mixed real / complex '
        'domain and range is not documented: raising and a correct wrapper are both accepted',
    ]
    return len(rec.events)

"""EXT stage `fom`: figures of merit (odl.contrib.fom supervised / unsupervised / util), odl.util.zscore and
odl.contrib.param_opt.optimal_parameters.

Specification: spec/sem/FomSem.tla (layer A, from the docstrings), spec/mach/FomMachine.tla (case machine + laws),
spec/impl/FomImpl.tla (option decision trees as written), spec/cfg/MC_Fom*.{tla,cfg}, spec/trace/Trace_Fom.tla.

 1. TLC: one process per function group checks the laws and C [= A on the bounded instance and exports every case
    with its documented outcomes; a deliberately false law (normalisation over the ROI volume) must be refuted; the
    displayed BLUR formulas alone are refuted by the code model (documentation inconsistency, reported as info).
 2. spec -> code: every exported case is executed on real ODL under several concretisations (space kind, dtype,
    spellings of data / ground truth / mask / options) and compared with the exported outcomes.
 3. code -> spec: Python drivers widen beyond the TLC constants (sizes 1..36 by tiling, weighted rn,
    bool / int / list masks, index arrays, non-square images and both back-ends for filter_image_sep2d, 8x8+ images
    for the HaarPSI weight map, HISTORIES of different FOM calls on one set of caller-owned objects, relational
    observations of ssim / haarpsi / blurring / noise_power_spectrum / estimate_noise_std / optimal_parameters);
    every call is an NDJSON event validated by Trace_Fom (TLC decides).
Python only builds objects, projects floats onto rationals (simplest rational within rounding distance) and moves
JSON."""
import json
import math
import os
import random
import re
import warnings
from concurrent.futures import ThreadPoolExecutor
from fractions import Fraction

import numpy as np

from ..common import MachineryError
from ..tlc import run_tlc, parse_fails

STANDALONE = True
STAGE = 'fom'
CORRUPT_ID = 999999
QD = 16384
GROUPS = ['mse', 'mae', 'mvd', 'sdd', 'rd', 'blur', 'psnr', 'ssim', 'misc']
NORMFN = {'mse': 'mean_squared_error', 'mae': 'mean_absolute_error', 'mvd': 'mean_value_difference',
          'sdd': 'standard_deviation_difference', 'rd': 'range_difference'}
LIM = 2 ** 31 - 1


# ------------------------------------------------------------------ exact carriers
def fq(q):
    return Fraction(q[0], q[1])


def tq(fr):
    fr = Fraction(fr)
    if abs(fr.numerator) > LIM or fr.denominator > LIM:
        raise OverflowError(fr)
    return [int(fr.numerator), int(fr.denominator)]


LATTICE = [None]      # float32 runs: denominators of the exported expectation (house rule: snap with the scenario's D)


def ratsnap(v, f32=False):
    """Projection of a float onto an exact rational: float64 -> the simplest rational within rounding distance
    (denominator <= 10^6, unique at double precision); float32 -> the nearest point of the lattice 1/D of the exported
    expectation (tolerance 2^-10/D).  Returns Fraction, a float token (nan / inf) or None (off the lattice)."""
    v = float(v)
    if math.isnan(v) or math.isinf(v):
        return v
    if f32:
        for D in LATTICE[0] or ():
            q = Fraction(int(round(v * D)), D)
            if abs(float(q) - v) <= 2.0 ** -10 / D * max(1.0, abs(v)):
                return q
        return None
    q = Fraction(v).limit_denominator(1000000)
    if abs(float(q) - v) <= 1e-9 * max(1.0, abs(v)) and abs(q.numerator) < LIM // 4:
        return q
    return None


def lattice_of(al):
    """denominators occurring in the documented outcomes (per candidate the lcm of its entries)"""
    out = []
    for a in al:
        if a['k'] in ('q',):
            ds = [a['v'][1]]
        elif a['k'] in ('arr', 'tarr', 'sph'):
            ds = [q[1] for q in a['v']]
        else:
            continue
        D = 1
        for d in ds:
            if d > 0:
                D = D * d // math.gcd(D, d)
        if D not in out:
            out.append(D)
    return out


def oq(v, f32=False):
    """outcome record of a scalar observation"""
    r = ratsnap(v, f32)
    if r is None:
        return {'k': 'off', 'v': [0, 0]}
    if isinstance(r, float):
        return {'k': 'q', 'v': [0, 0] if math.isnan(r) else ([1, 0] if r > 0 else [-1, 0])}
    return {'k': 'q', 'v': tq(r)}


def oarr(arr, kind='arr', f32=False):
    out = []
    for v in np.asarray(arr, dtype=float).ravel(order='C'):
        r = ratsnap(v, f32)
        if r is None or isinstance(r, float):
            return {'k': 'off', 'v': [0, 0]}
        out.append(tq(r))
    return {'k': kind, 'v': out}


def oerr(ex):
    return {'k': 'err', 'v': type(ex).__name__}


def quant(v):
    """quantised observation (multiples of 1/QD, clipped to +-1000; NaN -> token)"""
    v = float(v)
    if math.isnan(v):
        return [0, 0]
    v = max(-1000.0, min(1000.0, v))
    return tq(Fraction(int(round(v * QD)), QD))


def member(o, al):
    return any(a['k'] == o['k'] and a['v'] == o['v'] for a in al)


def silent(al):
    return any(a['k'] in ('any', 'irr') for a in al)


# ------------------------------------------------------------------ concretisation
def odl_mods():
    """filter_image_sep2d asks pyfftw for multiprocessing.cpu_count() threads per plan (4 plans per call): on a loaded
    box one call takes seconds.  The harness process reports ONE cpu (test environment only, like OMP_NUM_THREADS;
    the ODL code is untouched and takes the same branches)."""
    import multiprocessing
    multiprocessing.cpu_count = lambda: 1
    import odl
    from odl.contrib import fom
    from odl.contrib.fom import util as fomutil
    return odl, fom, fomutil


def cell_sides(c):
    return [fq(q) for q in c['cs']]


def all_one(c):
    return all(s == 1 for s in cell_sides(c))


def make_space(c, kind, dtype, off=0.0):
    odl = odl_mods()[0]
    shape = tuple(c['shape'])
    cs = [float(s) for s in cell_sides(c)]
    if kind == 'discr':
        mn = [off] * len(shape)
        mx = [off + s * n for s, n in zip(cs, shape)]
        return odl.uniform_discr(mn, mx, shape, dtype=dtype)
    cv = float(np.prod(cs))
    if kind == 'rn_w' and cv != 1.0:
        return odl.rn(shape, dtype=dtype, weighting=cv)
    return odl.rn(shape, dtype=dtype)


def nparr(qs, shape, dtype='float64'):
    return np.array([float(fq(q)) for q in qs], dtype=dtype).reshape(tuple(shape))


def spell(arr, kind, space):
    if kind == 'elem':
        return space.element(arr)
    if kind == 'ndarray':
        return arr.copy()
    if kind == 'fortran':
        return np.asfortranarray(arr)
    if kind == 'list':
        return arr.tolist()
    if kind == 'bool':
        return arr.astype(bool)
    if kind == 'int':
        return arr.astype(int)
    raise ValueError(kind)


def is_binary(qs):
    return all(fq(q) in (0, 1) for q in qs)


def is_integral(qs):
    return all(fq(q).denominator == 1 for q in qs)


def flag(b, rng):
    return rng.choice([bool(b), np.bool_(bool(b)), int(b)])


def variants(c, rng, tier_all=False):
    """concretisations admissible for the abstract case (the abstract space must stay the documented one)"""
    fn = c['fn']
    spaces = ['discr'] + (['rn_w'] if fn != 'fsm' else []) + (['array'] if all_one(c) else [])
    if fn in ('rd', 'rdidx', 'ssim1', 'zscore'):
        spaces = ['discr', 'rn_w', 'array']
    if fn in ('sep2d',):
        spaces = ['array']
    out = []
    for sp in spaces:
        dks = (['ndarray', 'list'] + (['int'] if is_integral(c['f']) else [])
               + (['fortran'] if len(c['shape']) == 2 else [])) if sp == 'array' else ['elem']
        for dk in dks:
            out.append((sp, dk))
    return out


def mask_kinds(c, dk):
    if not c['m']:
        return ['none']
    ks = ['ndarray', 'list']
    if dk == 'elem':
        ks.append('elem')
    if is_binary(c['m']) or c['fn'] == 'rd':
        ks.append('bool')
    if is_integral(c['m']):
        ks.append('int')
    return ks


class Snapshot(object):
    """caller-owned inputs must not be changed by a figure of merit"""

    def __init__(self, objs):
        self.objs = [o for o in objs if isinstance(o, np.ndarray) or hasattr(o, 'space')]
        self.before = [np.array(o, copy=True) for o in self.objs]

    def mutated(self):
        return int(any(not np.array_equal(np.asarray(o), b, equal_nan=True) for o, b in zip(self.objs, self.before)))


def execute(c, var, rng, objs=None):
    """run the real function for the abstract case c under concretisation var; returns (o, mut, descr)"""
    odl, fom, fomutil = odl_mods()
    fn = c['fn']
    sp_kind, dk, gk, mk, dtype, pos = var['space'], var['data'], var['gt'], var['mask'], var['dtype'], var['pos']
    if dk != 'elem' and gk == 'elem':
        gk = 'ndarray'            # an element ground truth must live in the space of the data
    f32 = dtype == 'float32'
    shape = tuple(c['shape'])
    space = make_space(c, 'discr' if sp_kind == 'array' else sp_kind, dtype, var.get('off', 0.0))
    fa = nparr(c['f'], shape, dtype)
    data = spell(fa, dk, space) if objs is None else objs['data']
    owned = [data]
    with warnings.catch_warnings():
        warnings.simplefilter('ignore')
        np_err = np.seterr(all='ignore')
        try:
            if fn in NORMFN or fn in ('blur', 'rdidx'):
                gt = spell(nparr(c['g'], shape, dtype), gk, space) if objs is None else objs['gt']
                if objs is not None:
                    mask = objs['mask'] if c['m'] else None
                elif fn == 'rdidx':
                    mask = [int(fq(q)) for q in c['m']]
                    mask = mask if mk == 'list' else np.array(mask)
                elif mk == 'none':
                    mask = None
                else:
                    mask = spell(nparr(c['m'], shape, dtype), mk, space)
                owned += [gt, mask]
                snap = Snapshot(owned)
                norm, flb = flag(c['norm'], rng), flag(c['flb'], rng)
                if fn == 'blur':
                    if pos:
                        v = fom.blurring(data, gt, mask, norm, 1e-3)
                    else:
                        v = fom.blurring(data, gt, mask=mask, normalized=norm, smoothness_factor=1e-3)
                else:
                    func = getattr(fom, NORMFN['rd' if fn == 'rdidx' else fn])
                    if pos:
                        v = func(data, gt, mask, norm, flb)
                    else:
                        v = func(data, gt, mask=mask, normalized=norm, force_lower_is_better=flb)
                if np.ndim(v) != 0:
                    return {'k': 'off', 'v': [0, 0]}, snap.mutated()
                return oq(v, f32), snap.mutated()
            if fn == 'psnr':
                gt = spell(nparr(c['g'], shape, dtype), gk, space) if objs is None else objs['gt']
                snap = Snapshot([data, gt])
                uz, flb = flag(c['norm'], rng), flag(c['flb'], rng)
                v = fom.psnr(data, gt, uz, flb) if pos else fom.psnr(data, gt, use_zscore=uz, force_lower_is_better=flb)
                v = float(v)
                # observed through R = 10^(psnr/10); beyond the relative precision of a double the ratio is
                # numerically infinite / zero (z-scored inputs are equal only up to rounding)
                if math.isnan(v):
                    o = {'k': 'q', 'v': [0, 0]}
                elif v > (40 if f32 else 140):
                    o = {'k': 'q', 'v': [1, 0]}
                elif v < -(40 if f32 else 140):
                    o = {'k': 'q', 'v': [0, 1]}
                else:
                    o = oq(10.0 ** (v / 10.0), f32)
                return o, snap.mutated()
            if fn == 'ssim1':
                gt = spell(nparr(c['g'], shape, dtype), gk, space)
                snap = Snapshot([data, gt])
                K1, K2, L = [fq(q) for q in c['x']]
                kw = dict(size=1, K1=float(K1), K2=float(K2), normalized=flag(c['norm'], rng),
                          force_lower_is_better=flag(c['flb'], rng))
                if L != -1:
                    kw['dynamic_range'] = float(L)
                elif rng.random() < 0.5:
                    kw['dynamic_range'] = None
                v = fom.ssim(data, gt, **kw)
                return oq(v, f32), snap.mutated()
            if fn == 'zscore':
                snap = Snapshot([data])
                r = odl.util.zscore(data)
                return oarr(r, 'arr', f32), snap.mutated()
            if fn == 'fsm':
                snap = Snapshot([data])
                r = fom.false_structures_mask(data)
                kind = 'tarr' if hasattr(r, 'space') else ('arr' if isinstance(r, np.ndarray) else 'other')
                return oarr(np.asarray(r, dtype=float) ** 2, kind, f32), snap.mutated()
            if fn == 'sep2d':
                fh = spell(nparr(c['g'], (len(c['g']),), dtype), gk, None)
                fv = spell(nparr(c['m'], (len(c['m']),), dtype), 'ndarray' if mk in ('none', 'elem', 'bool') else mk, None)
                snap = Snapshot([data, fh, fv])
                if 'dtdoc' in c:
                    # the documented expression, literally: np.result_type(image, fh, fv)
                    c['dtdoc'] = (str(np.result_type(data, fh, fv))
                                  if all(isinstance(a, np.ndarray) for a in (data, fh, fv)) else 'n/a')
                pad = c['norm']
                kw = {'impl': var.get('impl', 'numpy')}
                if pad >= 0:
                    kw['padding'] = rng.choice([pad, np.int64(pad)])
                elif rng.random() < 0.5:
                    kw['padding'] = None
                r = fomutil.filter_image_sep2d(data, fh, fv, **kw)
                if np.shape(r) != shape:
                    return {'k': 'off', 'v': [0, 0]}, snap.mutated()
                o = oarr(r, 'arr', f32)
                if all(isinstance(a, np.ndarray) for a in (data, fh, fv)) and 'dtdoc' in c:
                    o['dt'] = str(np.asarray(r).dtype)
                return o, snap.mutated()
            if fn == 'wmap':
                gt = spell(nparr(c['g'], shape, dtype), gk, space)
                snap = Snapshot([data, gt])
                r = fomutil.haarpsi_weight_map(data, gt, c['norm'])
                return oarr(r, 'arr', f32), snap.mutated()
            if fn == 'sph':
                snap = Snapshot([data])
                r = fomutil.spherical_sum(data, binning_factor=float(fq(c['x'][0])))
                tot = ratsnap(float(np.sum(np.asarray(r))), f32)
                if tot is None or isinstance(tot, float) or np.ndim(r) != 1:
                    return {'k': 'off', 'v': [0, 0]}, snap.mutated()
                return {'k': 'sph', 'v': [[int(r.shape[0]), 1], tq(tot)]}, snap.mutated()
            if fn == 'nbins':
                gt = spell(nparr(c['g'], shape, dtype), gk, space)
                snap = Snapshot([data, gt])
                r = fom.noise_power_spectrum(data, gt, radial=True, radial_binning_factor=float(fq(c['x'][0])))
                return {'k': 'q', 'v': [int(np.shape(r)[0]), 1]}, snap.mutated()
            raise ValueError(fn)
        except MachineryError:
            raise
        except Exception as ex:      # the real function raised: an observation
            return oerr(ex), 0
        finally:
            np.seterr(**np_err)


def pick_var(c, rng, force=None, allow_f32=False):
    sp, dk = rng.choice(variants(c, rng))
    fn = c['fn']
    gks = ['elem', 'ndarray', 'list'] if dk == 'elem' else ['ndarray', 'list']
    if fn in ('sep2d',):
        gks = ['ndarray', 'list'] + (['int'] if is_integral(c['g']) else [])
    var = {'space': sp, 'data': dk, 'gt': rng.choice(gks), 'mask': rng.choice(mask_kinds(c, dk)),
           'dtype': 'float32' if allow_f32 and rng.random() < 0.25 and dk != 'int' else 'float64', 'pos': rng.random() < 0.3,
           'off': rng.choice([0.0, -1.0, 2.5])}
    if fn == 'sep2d':
        var['mask'] = rng.choice(['ndarray', 'list'])
        var['impl'] = rng.choice(['numpy', 'pyfftw', 'NumPy'])
        var['dtype'] = 'float64' if dk == 'int' else var['dtype']
    if dk == 'int':
        var['dtype'] = 'float64'
    if fn == 'fsm' and sp != 'array':
        var['data'] = 'elem'
    if force:
        var.update(force)
    return var


def sig_of(c, var, clause, o):
    """family-level signature: function, clause, and only the option / spelling axes that can matter"""
    s = {'stage': STAGE, 'fn': c['fn'], 'clause': clause}
    intdata = (var.get('data') == 'int' and c['fn'] not in ('fsm', 'zscore', 'sep2d', 'rd', 'rdidx')
               and not (c['fn'] == 'blur' and clause == 'raised' and var.get('mask') == 'list'))
    if intdata:
        s['data'] = 'int-array'
    elif c['fn'] in NORMFN or c['fn'] in ('blur', 'rdidx'):
        s['mask'] = var['mask'] if c['fn'] != 'rdidx' else 'index-array'
        if clause in ('value', 'value-off-lattice'):
            s['normalized'] = str(c['norm'])
    if c['fn'] in ('fsm', 'zscore') or (c['fn'] == 'sep2d' and clause not in ('raised', 'dtype')):
        s['input'] = var['data']
    if o.get('k') == 'err':
        s['exc'] = str(o['v'])
    return s


# ------------------------------------------------------------------ spec -> code
def replay_export(args):
    """worker (own process): executes every exported case under per_case concretisations; returns plain data"""
    path, seed, per_case = args
    rng = random.Random(seed)
    nexec = 0
    ncases = 0
    seen = set()
    drift = {}
    events = []
    viols = []
    counts = {}
    with open(path) as fh:
        for line in fh:
            if not line.strip() or line in seen:
                continue
            seen.add(line)
            rec = json.loads(line)
            c, al, im = rec['c'], rec['al'], rec['im']
            ncases += 1
            tried = set()
            LATTICE[0] = lattice_of(al)
            for k in range(per_case):
                var = pick_var(c, rng, allow_f32=not silent(al) and bool(LATTICE[0]))
                if c['fn'] == 'fsm':
                    # the abstract case says whether the foreground is a Tensor
                    if c['norm'] == 1:
                        var['space'], var['data'] = 'discr', 'elem'
                    elif all_one(c):
                        var['space'], var['data'] = 'array', rng.choice(
                            (['ndarray', 'list', 'int'] + (['bool'] if is_binary(c['f']) else []))
                            if is_integral(c['f']) else ['ndarray', 'list'])
                    else:
                        continue
                key = json.dumps(var, sort_keys=True, default=str)
                if key in tried:
                    continue
                tried.add(key)
                o, mut = execute(c, var, rng)
                nexec += 1
                ck = (STAGE, c['fn'], var['space'], var['data'], var['mask'], c['norm'], c['flb'],
                      'silent' if silent(al) else 'decided')
                counts[ck] = counts.get(ck, 0) + 1
                if mut:
                    viols.append((sig_of(c, var, 'input-mutated', o), {'stage_module': STAGE, 'case': c, 'var': var}))
                if silent(al):
                    if im and not silent(im) and not member(o, im):
                        drift[c['fn']] = drift.get(c['fn'], 0) + 1
                    continue
                if not member(o, al):
                    clause = ('raised' if o['k'] == 'err' else
                              'no-error' if any(a['k'] == 'err' for a in al) else
                              'value-off-lattice' if o['k'] == 'off' else 'value')
                    viols.append((sig_of(c, var, clause, o),
                                  {'stage_module': STAGE, 'source': 'export', 'case': c, 'var': var, 'observed': o,
                                   'documented': al}))
                elif len(events) < 60 and (rng.random() < 0.02 or (not events and c['fn'] in NORMFN and o['k'] == 'q' and o['v'][1] != 0)):
                    events.append({'c': c, 'o': o, 'mut': mut, 'var': var, 'src': 'export'})
    return ncases, nexec, drift, events, viols, counts


# ------------------------------------------------------------------ code -> spec: drivers
def Q(x):
    return tq(Fraction(x))


def case(fn, cs, shape, f, g, m, norm=0, flb=0, x=()):
    return {'fn': fn, 'cs': [Q(s) for s in cs], 'shape': list(shape), 'f': [Q(v) for v in f], 'g': [Q(v) for v in g],
            'm': [Q(v) for v in m], 'norm': int(norm), 'flb': int(flb), 'x': [Q(v) for v in x]}


BASE4 = [(0, 0, 0, 0), (3, 4, 0, 0), (1, 1, 1, 1), (1, -1, 1, -1), (1, 1, 3, 3), (1, 2, 2, 4), (0, 4, 3, 0),
         (2, 0, 0, 0), (-3, -3, 1, 1), (6, 8, 0, 0)]
BASE2 = [(0, 0), (1, 1), (1, 7), (3, 4), (1, -1), (6, 8), (0, 2), (-7, -1)]
MASK4 = [(), (1, 1, 1, 1), (1, 1, 0, 0), (0, 1, 1, 0), (2, 1, 0, 1), (0, 0, 0, 1)]


def tile(v, k2):
    """k2 = t*t copies: norms scale by t (rational roots stay rational)"""
    return tuple(v) * k2


def wide_norm_cases(rng, n):
    """sizes beyond the TLC constants: tiles of the rational-root designs (t^2 copies keep the roots rational),
    scaled by small rationals, on 1-d / 2-d spaces with assorted cell sides"""
    out = []
    for _ in range(n):
        fn = rng.choice(list(NORMFN) + ['blur', 'psnr'])
        base, masks = (BASE4, MASK4) if rng.random() < 0.7 else (BASE2, [(), (1, 1), (1, 0)])
        k2 = rng.choice([1, 1, 4, 9])
        sc = rng.choice([1, 1, 2, Fraction(1, 2)])
        f = [sc * v for v in tile(rng.choice(base), k2)]
        gb = rng.choice(base)
        g = [sc * v for v in tile(gb, k2)] if rng.random() < 0.85 else list(f)
        m = tile(rng.choice(masks), k2)
        n_ = len(f)
        if rng.random() < 0.5 or n_ < 4:
            shape = (n_,)
            cs = [rng.choice([1, 2, Fraction(1, 2), Fraction(1, 4), 4])]
        else:
            a = rng.choice([d for d in (2, 4, 3, 6, 8) if n_ % d == 0])
            shape = (a, n_ // a)
            cs = [rng.choice([1, Fraction(1, 2), 2]), rng.choice([1, Fraction(1, 2), 4])]
        if fn == 'blur':
            m = tuple(1 if v else 0 for v in m)
        if fn == 'psnr':
            out.append(case(fn, cs, shape, f, g, (), rng.randint(0, 1), rng.randint(0, 1)))
        else:
            out.append(case(fn, cs, shape, f, g, m, rng.randint(0, 1), rng.randint(0, 1)))
    # sizes 1 and 2 (size 0: ODL spaces of size 0 have no norm to speak of - not documented)
    for fn in NORMFN:
        for f, g in (((3,), (0,)), ((2,), (2,)), ((0,), (0,)), ((-1,), (4,))):
            for nm in (0, 1):
                out.append(case(fn, [Fraction(1, 2)], (1,), f, g, (), nm, 0))
                out.append(case(fn, [1], (1,), f, g, (1,), nm, 1))
    return out


def wide_misc_cases(rng, n, tier):
    out = []
    # ssim with window size 1 on larger images; values in {-1, 0, 1} and c1 = 1 keep the per-pixel denominators in
    # {1, 2, 3} (the exact mean must stay a small-denominator rational for TLC's 32-bit integers)
    for _ in range(n // 4):
        k = rng.choice([2, 3, 4, 5])
        f = [rng.randint(-1, 1) for _ in range(k * k)]
        g = [rng.randint(-1, 1) for _ in range(k * k)]
        xs = [(Fraction(1, 2), Fraction(1, 2), 2), (1, Fraction(1, 2), 1), (1, 1, 1)]
        if max(g) - min(g) == 2:
            xs.append((Fraction(1, 2), Fraction(1, 2), -1))
        x = rng.choice(xs)
        shape = rng.choice([(k * k,), (k, k)])
        out.append(case('ssim1', [1] * len(shape), shape, f, g, (), rng.randint(0, 1), rng.randint(0, 1), x))
    # zscore: rational standard deviations
    for _ in range(n // 8):
        a, b = rng.randint(-4, 4), rng.randint(-4, 4)
        t = rng.choice([1, 2, 3])
        f = (a,) * t + (b,) * t
        shape = (2 * t,) if rng.random() < 0.6 or t == 1 else (2, t)
        out.append(case('zscore', [rng.choice([1, Fraction(1, 2)])] * len(shape), shape, f, f, ()))
    # false_structures_mask on larger grids with anisotropic cells
    for _ in range(n // 6):
        shape = rng.choice([(5,), (7,), (3, 3), (3, 4), (4, 2)])
        nn = int(np.prod(shape))
        fg = [1 if rng.random() < 0.35 else 0 for _ in range(nn)]
        if rng.random() < 0.15:
            fg[rng.randrange(nn)] = rng.choice([2, Fraction(1, 2), -1])
        cs = [rng.choice([1, Fraction(1, 2), Fraction(1, 3), 2]) for _ in shape]
        tens = rng.randint(0, 1)
        if not tens:
            cs = [1] * len(shape)
        out.append(case('fsm', cs, shape, fg, fg, (), tens))
    # filter_image_sep2d: non-square images, filters up to the image size, paddings below / at / above len - 1
    for _ in range(n // 4):
        shape = rng.choice([(3, 4), (2, 5), (5, 2), (4, 4), (1, 3), (6, 3), (3, 6)])
        img = [rng.randint(-3, 4) for _ in range(shape[0] * shape[1])]
        fh = [rng.randint(-2, 2) for _ in range(rng.randint(1, shape[0]))]
        fv = [rng.randint(-2, 2) for _ in range(rng.randint(1, shape[1]))]
        pad = rng.choice([-1, -1, 0, 1, 2, 5])
        out.append(case('sep2d', [1, 1], shape, img, fh, fv, pad))
        out[-1]['dtdoc'] = 'ask'          # filled with the documented np.result_type(image, fh, fv) at execution
    # spherical_sum / radial noise power spectrum: number of bins and conservation of the total
    for _ in range(n // 8):
        shape = rng.choice([(4, 4), (3, 5), (6, 2), (5,), (8,)])
        img = [rng.randint(0, 5) for _ in range(int(np.prod(shape)))]
        bf = rng.choice([1, 2, Fraction(1, 2), Fraction(3, 2)])
        cs = [rng.choice([1, Fraction(1, 2), 2]) for _ in shape]
        out.append(case('sph', cs, shape, img, img, (), 0, 0, (bf,)))
        if len(shape) == 2:
            g = [rng.randint(0, 5) for _ in img]
            out.append(case('nbins', cs, shape, img, g, (), 0, 0, (bf,)))
    # index-array masks of range_difference
    for _ in range(n // 8):
        f, g = rng.choice(BASE4), rng.choice(BASE4)
        ix = [rng.randrange(4) for _ in range(rng.choice([1, 2, 3, 5]))]
        out.append(case('rdidx', [1], (4,), f, g, ix, rng.randint(0, 1)))
    # HaarPSI weight map (level-3 filters need >= 8 pixels per axis)
    for _ in range(2 if tier == 'quick' else 6):
        shape = rng.choice([(8, 8), (8, 9), (9, 8)])
        nn = shape[0] * shape[1]
        f = [rng.randint(0, 3) for _ in range(nn)]
        g = [rng.randint(0, 3) for _ in range(nn)]
        out.append(case('wmap', [1, 1], shape, f, g, (), rng.randint(0, 1)))
    return out


def rel_events(rng, n, tier):
    """irrational FOMs: quantised observations, the documented identities are checked by Trace_Fom with slack"""
    odl, fom, fomutil = odl_mods()
    import odl.contrib.param_opt as po
    evs = []

    def rel(rule, vals, **extra):
        c = {'fn': 'rel', 'rule': rule, 'x': [quant(v) for v in vals]}
        c.update(extra)
        evs.append({'c': c, 'o': {'k': 'rel', 'v': [0, 0]}, 'mut': 0, 'var': {}, 'src': 'rel'})

    nprng = np.random.RandomState(rng.randrange(2 ** 31))
    with warnings.catch_warnings():
        warnings.simplefilter('ignore')
        for i in range(n):
            # --- ssim, default 11-window
            shape = rng.choice([(16,), (12, 13), (11, 11), (24,)])
            dtype = rng.choice(['float64', 'float64', 'float32'])
            f = nprng.randint(0, 6, size=shape).astype(dtype) + nprng.rand(*shape).astype(dtype)
            g = nprng.randint(0, 6, size=shape).astype(dtype)
            if rng.random() < 0.5:
                sp = odl.uniform_discr([0] * len(shape), [2] * len(shape), shape, dtype=dtype)
                f_, g_ = sp.element(f), sp.element(g)
            else:
                f_, g_ = f, g.tolist() if rng.random() < 0.3 else g
            s = fom.ssim(f_, g_)
            rel('ssim', [s, fom.ssim(f_, g_, normalized=True), fom.ssim(f_, g_, force_lower_is_better=True),
                         fom.ssim(f_, g_, normalized=True, force_lower_is_better=True),
                         fom.ssim(f_, g_, dynamic_range=float(np.max(g) - np.min(g))), fom.ssim(g_, g_)])
            # --- haarpsi and its maps
            shape = rng.choice([(8, 8), (16, 16), (9, 12)])
            f = nprng.randint(0, 5, size=shape).astype(float)
            g = nprng.randint(0, 5, size=shape).astype(float)
            g[0, 0] = 4.0
            cc = 3.0
            rel('haarpsi', [fom.haarpsi(f, g, c=cc), fom.haarpsi(g, f, c=cc), fom.haarpsi(g, g),
                            fom.haarpsi(f, g), fom.haarpsi(f, g, c=3 * np.sqrt(np.max(np.abs(g))))])
            ax = rng.randint(0, 1)
            hs = fomutil.haarpsi_similarity_map(f, g, ax, cc, 4.2)
            hs2 = fomutil.haarpsi_similarity_map(g, f, ax, cc, 4.2)
            w = fomutil.haarpsi_weight_map(f, g, ax)
            w2 = fomutil.haarpsi_weight_map(g, f, ax)
            rel('hsmap', [np.min(hs), np.max(hs), np.max(np.abs(hs - hs2)), np.min(w), np.max(np.abs(w - w2))])
            # --- blurring with a moderate smoothness factor against mean_squared_error with the documented weight
            #     alpha = exp(-beta_m / k), beta_m = Euclidean distance transform of the binary mask (both sides real ODL)
            from scipy.ndimage import distance_transform_edt
            shape = rng.choice([(6,), (4, 5), (5, 5)])
            sp = odl.uniform_discr([0] * len(shape), [2] * len(shape), shape) if rng.random() < 0.6 else odl.rn(shape)
            f = nprng.randint(0, 4, size=shape).astype(float)
            g = nprng.randint(0, 4, size=shape).astype(float)
            mk = (nprng.rand(*shape) < 0.4).astype(float)
            mk.flat[0] = 1.0
            kk = rng.choice([0.5, 1.0, 2.0])
            alpha = np.exp(-distance_transform_edt(1 - mk) / kk)
            mk_ = rng.choice([mk, mk.astype(bool), mk.astype(int), sp.element(mk)])
            rel('blurk', [fom.blurring(sp.element(f), g, mk_, False, kk),
                          fom.mean_squared_error(sp.element(f), g, mask=alpha),
                          fom.blurring(sp.element(f), g, mask=mk_, normalized=True, smoothness_factor=kk),
                          fom.mean_squared_error(sp.element(f), g, mask=alpha, normalized=True),
                          (sp.element(alpha * (f - g))).norm() ** 2,
                          (sp.element(alpha * (f - g))).norm() ** 2
                          / max(sp.element(alpha * f).norm() ** 2 + sp.element(alpha * g).norm() ** 2, 1e-300)])
            # --- noise power spectrum
            shape = rng.choice([(4, 4), (6, 5), (8,)])
            sp = odl.uniform_discr([0] * len(shape), [1] * len(shape), shape)
            f = nprng.randint(0, 4, size=shape).astype(float)
            g = nprng.randint(0, 4, size=shape).astype(float)
            f_ = sp.element(f) if rng.random() < 0.6 else f
            nps = np.asarray(fom.noise_power_spectrum(f_, g))
            npsb = np.asarray(fom.noise_power_spectrum(sp.element(g) if hasattr(f_, 'space') else g, f))
            rel('nps', [np.max(np.abs(np.asarray(fom.noise_power_spectrum(f_, f)))), np.min(nps),
                        np.max(np.abs(nps - npsb))])
            # --- estimate_noise_std
            shape = rng.choice([(6,), (5, 5), (4, 6), (3, 3, 4)])
            img = nprng.randint(0, 4, size=shape).astype(float)
            lin = sum(np.arange(s).reshape([-1 if a == k else 1 for a in range(len(shape))]) * (k + 1)
                      for k, s in enumerate(shape)) + np.zeros(shape)
            rel('noise', [fom.estimate_noise_std(np.full(shape, 2.5)), fom.estimate_noise_std(lin),
                          fom.estimate_noise_std(img), fom.estimate_noise_std((3 * img).tolist() if rng.random() < 0.5 else 3 * img),
                          # docstring example: "img = np.random.randn(10, 10) ... should be about 1" - on 40000 / 64000
                          # samples the estimator's own spread is below 1 %
                          fom.estimate_noise_std(nprng.randn(*rng.choice([(200, 200), (40000,), (40, 40, 40)])))])
            # --- optimal_parameters on the exactly solvable toy  R_theta(y) = theta * y
            nn = rng.choice([2, 3, 4])
            sp = rng.choice([odl.rn(nn), odl.uniform_discr(0, 1, nn), odl.rn(nn, dtype='float32')])
            k = rng.choice([1, 2])
            xs = [[rng.randint(-3, 3) for _ in range(nn)] for _ in range(k)]
            ys = [[rng.randint(1, 3) for _ in range(nn)] for _ in range(k)]
            which = rng.choice(['mse', 'dist2'])
            figure = fom.mean_squared_error if which == 'mse' else (lambda a, b: float((a - b).norm() ** 2))
            uni = rng.random() < 0.5
            th = po.optimal_parameters(lambda y, lam: float(np.ravel(lam)[0]) * y, figure,
                                       [sp.element(x) for x in xs], [sp.element(y) for y in ys],
                                       initial=(None if rng.random() < 0.5 else (0.0, 1.0)) if uni else [rng.choice([0.0, 2.0])],
                                       univariate=uni)
            rel('optpar', [float(np.ravel(th)[0])], xs=[[Q(v) for v in x] for x in xs], ys=[[Q(v) for v in y] for y in ys])
    return evs


def history_events(rng, n):
    """HISTORIES on one set of caller-owned objects: the same data / ground truth / mask objects go through a
    sequence of different FOM calls (and the same call twice); every call is an event of its own, and the objects
    must come out unchanged."""
    evs = []
    for _ in range(n):
        base = rng.choice(BASE4)
        gb = rng.choice(BASE4)
        m = rng.choice(MASK4[1:])
        cs = [rng.choice([1, 2, Fraction(1, 2)])]
        c0 = case('mse', cs, (4,), base, gb, m)
        var = pick_var(c0, rng)
        var['dtype'] = 'float64'
        if var['data'] == 'int':
            var['data'] = 'ndarray'
        space = make_space(c0, 'discr' if var['space'] == 'array' else var['space'], 'float64', var['off'])
        objs = {'data': spell(nparr(c0['f'], (4,)), var['data'], space),
                'gt': spell(nparr(c0['g'], (4,)), 'ndarray' if var['data'] != 'elem' and var['gt'] == 'elem' else var['gt'], space),
                'mask': spell(nparr(c0['m'], (4,)), var['mask'] if var['mask'] not in ('none', 'list') else 'ndarray', space)}
        if var['mask'] in ('none', 'list'):
            var['mask'] = 'ndarray'
        seq = [rng.choice(list(NORMFN) + ['psnr', 'blur']) for _ in range(5)]
        seq.append(seq[0])
        for fn in seq:
            mm = m if fn != 'psnr' and rng.random() < 0.7 else ()
            if fn == 'blur':
                mm = tuple(1 if v else 0 for v in mm)
                if mm != tuple(m):
                    mm = ()
            c = case(fn, cs, (4,), base, gb, mm, rng.randint(0, 1), rng.randint(0, 1))
            v2 = dict(var)
            if not mm:
                v2['mask'] = 'none'
            o, mut = execute(c, v2, rng, objs=objs)
            evs.append({'c': c, 'o': o, 'mut': mut, 'var': v2, 'src': 'history'})
    return evs


def driver_events(seed, tier):
    rng = random.Random(1000 + seed)
    nwide = 500 if tier == 'quick' else 4000
    evs = []
    for c in wide_norm_cases(rng, nwide) + wide_misc_cases(rng, nwide // 2, tier):
        reps = 1 if c['fn'] in ('wmap',) else 2
        for _ in range(reps):
            var = pick_var(c, rng)
            if c['fn'] == 'fsm':
                if c['norm'] == 1:
                    var['space'], var['data'] = 'discr', 'elem'
                else:
                    var['space'], var['data'] = 'array', rng.choice(['ndarray', 'list'] + (['bool'] if is_binary(c['f']) else []))
            if c['fn'] in ('sph', 'nbins'):
                var['space'], var['data'] = 'discr', 'elem'
                if c['fn'] == 'nbins' and all_one(c) and rng.random() < 0.5:
                    var['data'] = 'ndarray'
            if c['fn'] == 'wmap':
                var['space'], var['data'], var['dtype'] = 'array', rng.choice(['ndarray', 'list']), 'float64'
            if c['fn'] == 'rdidx':
                var['mask'] = rng.choice(['list', 'ndarray'])
            o, mut = execute(c, var, rng)
            evs.append({'c': c, 'o': o, 'mut': mut, 'var': var, 'src': 'driver'})
    evs += history_events(rng, 40 if tier == 'quick' else 300)
    evs += rel_events(rng, 6 if tier == 'quick' else 40, tier)
    return evs


# ------------------------------------------------------------------ trace validation
def validate(ctx, events, label, nchunk=1500):
    for i, ev in enumerate(events):
        if ev.get('id') != CORRUPT_ID:
            ev['id'] = i + 1
    heavy = lambda e: e['c']['fn'] in ('wmap', 'sep2d')
    order = sorted(range(len(events)), key=lambda i: (heavy(events[i]), i))
    nch = max(1, (len(events) + nchunk - 1) // nchunk)
    paths = []
    for k in range(nch):
        p = os.path.join(ctx.work, 'fom_%s_%d.ndjson' % (label, k))
        with open(p, 'w') as f:
            for i in order[k::nch]:
                ev = events[i]
                f.write(json.dumps({'id': ev['id'], 'c': ev['c'], 'o': ev['o'], 'mut': ev['mut']}) + '\n')
        paths.append(p)

    def go(p):
        return run_tlc('Trace_Fom.tla', 'Trace_Fom.cfg', os.path.dirname(p) + '/t_' + os.path.basename(p),
                       env={'TRACE_FILE': p}, workers=1, timeout=1500)
    for p in paths:
        os.makedirs(os.path.dirname(p) + '/t_' + os.path.basename(p), exist_ok=True)
    with ThreadPoolExecutor(max_workers=8) as ex:
        results = list(ex.map(go, paths))
    rejected, drift = {}, {}
    for k, res in enumerate(results):
        ctx.add_tlc('fom-trace-%s-%d' % (label, k), res)
        for line_no, ev_id, clauses in parse_fails(res.output):
            rejected[ev_id] = clauses
        for m in re.finditer(r'<<\s*"DRIFT"\s*,\s*\d+\s*,\s*(\d+)\s*,\s*"(\w+)"\s*>>', res.output):
            drift[m.group(2)] = drift.get(m.group(2), 0) + 1
    return rejected, drift


def clauses_of(text):
    return re.findall(r'<<\s*"([\w-]+)"\s*,\s*"([\w-]+)"\s*>>', text)


# ------------------------------------------------------------------ the stage
def run_stage(ctx):
    import time
    t0 = time.time()
    tier = ctx.tier
    rng = random.Random(77 + ctx.seed)
    outs = {g: os.path.join(ctx.work, 'fom_%s.ndjson' % g) for g in GROUPS}

    def tlc_group(g):
        wd = os.path.join(ctx.work, 'fom_tlc_' + g)
        os.makedirs(wd, exist_ok=True)
        return run_tlc('MC_Fom.tla', 'MC_Fom_laws.cfg', wd,
                       env={'OUT_FILE': outs[g], 'FOM_GROUP': g, 'FOM_TIER': tier}, workers=1, timeout=1500)

    def tlc_other(args):
        name, cfg, g = args
        wd = os.path.join(ctx.work, 'fom_tlc_' + name)
        os.makedirs(wd, exist_ok=True)
        return run_tlc('MC_Fom.tla', cfg, wd, env={'OUT_FILE': os.path.join(wd, 'unused'), 'FOM_GROUP': g,
                                                   'FOM_TIER': 'quick'}, workers=1, timeout=1500)

    pool = ThreadPoolExecutor(max_workers=11)
    futs = {g: pool.submit(tlc_group, g) for g in GROUPS}
    fbogus = pool.submit(tlc_other, ('bogus', 'MC_Fom_bogus.cfg', 'mse'))
    fstrict = pool.submit(tlc_other, ('blurstrict', 'MC_Fom_blurstrict.cfg', 'blur'))

    # code -> spec drivers run while TLC explores
    events = driver_events(ctx.seed, tier)
    ndriver = len(events)

    ncases = nexec = 0
    drift_total = {}
    per_case = 2 if tier == 'quick' else 3
    for g in GROUPS:
        ctx.add_tlc('fom-laws-' + g, futs[g].result())
    import multiprocessing as mp
    with mp.get_context('fork').Pool(min(9, len(GROUPS))) as mpool:
        results = mpool.map(replay_export, [(outs[g], 77 + ctx.seed * 100 + i, per_case) for i, g in enumerate(GROUPS)])
    for g, (nc, ne, drift, evs, viols, counts) in zip(GROUPS, results):
        if nc < 20:
            raise MachineryError('fom export %s too small: %d' % (g, nc))
        ncases += nc
        nexec += ne
        events += evs
        for sig, detail in viols:
            ctx.violation(sig, detail)
        for ck, n in counts.items():
            ctx.count(list(ck), ck[-1] == 'decided', n=n)
        for k, v in drift.items():
            drift_total[k] = drift_total.get(k, 0) + v
    bog = fbogus.result()
    ctx.add_tlc('fom-bogus-mask-volume', bog, expect='any')
    if bog.status == 'ok':
        raise MachineryError('fom: the deliberately false law BogusMaskVolume was not refuted')
    strict = fstrict.result()
    ctx.add_tlc('fom-blur-displayed-formula-vs-code', strict, expect='any')
    ctx.extra['fom_blurring_displayed_formulas_alone'] = (
        'refuted by the code model (code = mean_squared_error with the weight as mask, as the docstring note says)'
        if strict.status != 'ok' else 'hold')
    pool.shutdown()

    # corrupt one recorded event: the trace spec must reject it
    # (the donor is an exported case that layer A decides and real ODL matched)
    donor = next((e for e in events if e['src'] == 'export' and e['o']['k'] == 'q' and e['o']['v'][1] != 0
                  and e['c']['fn'] in NORMFN), None)
    if donor is not None:
        bad = json.loads(json.dumps({k: donor[k] for k in ('c', 'o', 'mut', 'var', 'src')}))
        bad['o']['v'] = tq(fq(bad['o']['v']) + Fraction(1, 7))
        bad['id'] = CORRUPT_ID
        bad['src'] = 'corrupt'
        events.append(bad)
    rejected, tdrift = validate(ctx, events, 'all')
    for k, v in tdrift.items():
        drift_total[k] = drift_total.get(k, 0) + v
    if donor is not None:
        if CORRUPT_ID not in rejected:
            raise MachineryError('fom: the corrupted event was accepted by Trace_Fom')
        del rejected[CORRUPT_ID]
    byid = {e['id']: e for e in events}
    for ev_id, text in rejected.items():
        ev = byid.get(ev_id)
        if ev is None:
            raise MachineryError('fom: unknown rejected id %r' % ev_id)
        for clause, fn in clauses_of(text) or [('unparsed', ev['c']['fn'])]:
            if ev['c']['fn'] == 'rel':
                sig = {'stage': STAGE, 'fn': ev['c']['rule'], 'clause': clause}
            else:
                sig = sig_of(ev['c'], ev['var'], clause, ev['o'])
            ctx.violation(sig, {'stage_module': STAGE, 'source': ev['src'], 'event': {k: ev[k] for k in ('c', 'o', 'mut')},
                                'var': ev['var'], 'clauses': text})
    for ev in events:
        ctx.count([STAGE, 'trace', ev['c']['fn'], ev['c'].get('rule', ''), ev['o']['k'],
                   ev['var'].get('data', ''), ev['var'].get('mask', ''), ev['var'].get('dtype', '')], True, n=0)
    ctx.count(None, False, n=len(events))
    ctx.traces += ncases + len(events)
    if drift_total:
        ctx.drift_note('fom: where the documentation is silent (0/0 in a normalized FOM, empty ROI) real ODL differs from '
                       'the code model FomImpl on %r' % drift_total)
    ctx.extra['fom_cases_exported'] = ncases
    ctx.extra['fom_replay_executions'] = nexec
    ctx.extra['fom_driver_events'] = ndriver
    ctx.extra['fom_events_validated_by_tlc'] = len(events)
    ctx.extra['fom_events_rejected'] = len(rejected)
    ctx.extra['fom_wall_s'] = round(time.time() - t0, 1)
    ctx.extra['fom_rule'] = (
        'abstract case = (function, cell sides, shape, exact images f/g, mask, option record); concretisations = space '
        'kind (uniform_discr / constant-weighted rn / plain arrays), dtype, spelling of data / ground truth / mask / '
        'flags; non-trivial = layer A decides the outcome (not a silent degenerate or irrational case)')
    ctx.assumptions += [
        'fom: a zero denominator of a normalized FOM (0/0) and an empty ROI are not documented: any outcome accepted '
        '(compared with the code model as drift only)',
        'fom: blurring - the displayed formulas and the note "equivalent to the mean squared error" disagree (division '
        'by the volume; (|af|+|ag|)^2 vs |af|^2+|ag|^2): both readings accepted; alpha is made exact (0/1) by a tiny '
        'smoothness factor',
        'fom: filter_image_sep2d - convolution vs correlation and the centre tap of even filters are not documented: '
        'the four combinations are accepted',
        'fom: psnr is observed through 10^(psnr/10) = MAX^2/MSE; beyond 140 dB (40 dB float32) the ratio counts as '
        'infinite (z-scored inputs are equal only up to rounding)',
        'fom: the figures of merit are documented as functions that RETURN a value: changing a caller-owned input is '
        'reported (input-mutated)',
        'fom: estimate_noise_std has no formula in its docstring: only noise-free (constant / affine) images -> 0, '
        'non-negativity, positive homogeneity and the documented "about 1" on a large standard-normal image (0.9..1.1) are checked; ssim / haarpsi / noise_power_spectrum are relational; '
        'blurring with a moderate smoothness factor is compared with mean_squared_error under the documented weight '
        'exp(-EDT(mask)/k) in pixel units (both sides real ODL) '
        '(documented identities with +-3/16384 slack); optimal_parameters within 16/16384 of the exact argmin',
    ]


def replay(body):
    d = body.get('detail', {})
    rng = random.Random(0)
    if 'case' in d:
        LATTICE[0] = lattice_of(d.get('documented', []))
        o, mut = execute(d['case'], d['var'], rng)
        print('case     :', json.dumps(d['case']))
        print('variant  :', json.dumps(d['var'], default=str))
        print('observed :', o, 'mutated' if mut else '')
        print('documented:', d.get('documented'))
        return 1 if not member(o, d.get('documented', [])) else 0
    if 'event' in d and d['event']['c']['fn'] != 'rel':
        o, mut = execute(d['event']['c'], d['var'], rng)
        print('case     :', json.dumps(d['event']['c']))
        print('observed :', o, ' recorded:', d['event']['o'])
        print('rejected by Trace_Fom with', d.get('clauses'))
        return 1
    print('relational event (re-run ./vcheck EXT with VERIF_EXT=fom):', json.dumps(d.get('event')))
    return 1

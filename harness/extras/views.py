"""EXT/views - element indexing, views and aliasing histories of tensors, discretised elements and product-space
elements (odl/space/npy_tensors.py, base_tensors.py, pspace.py, odl/discr/discr_space.py).

Specification: spec/sem/ViewSem.tla (heap model + documentation table), spec/mach/ViewMachine.tla (histories + laws),
spec/impl/ViewImpl.tla (the identity-based dispatch of _lincomb_impl on shared memory), spec/trace/Trace_View.tla.

  1. TLC checks the laws (frame, object frame, view law, documentation table, read-back, returns-out) on every
     bounded profile and exports every complete behaviour with the expected observation after EVERY call.
  2. Each behaviour is replayed on real ODL objects under several concretisations (dtype, "other" dtype, weighting,
     space flavour, option spellings, operand kinds, row length for the arithmetic profile); after every call the
     value of every live object, the sharing relation between all live arrays and the returned object are compared
     with the exported expectation.
  3. Seeded random histories (longer, more objects, other sizes / shapes / nestings) are run on real ODL, recorded as
     NDJSON events and validated by Trace_View (same Step function, total).

Python never decides a value or a sharing relation: it builds objects, performs the named call, reads the arrays
back as exact integers and moves JSON.
"""
import copy as _copy
import json
import operator
import os
import random
import time
from concurrent.futures import ThreadPoolExecutor

import numpy as np
import odl

from ..tlc import run_tlc, parse_fails
from ..common import MachineryError, dumps

STANDALONE = True
NONE = 99
NANC = [[0, 0], [0, 0]]
PROFILES = ['T1', 'T2', 'SI', 'CX', 'DS', 'PS', 'PN', 'LC', 'Z0']
# real / imaginary parts and discretisations are not defined for integer dtypes (real_space raises)
INT_UNDEFINED = {'real', 'imag', 'setreal', 'setimag', 'conj', 'conj_out'}


# ----------------------------------------------------------------------------------------------------------------
# concretisations
# ----------------------------------------------------------------------------------------------------------------
class Concr(object):
    """How the abstract scenario is realised: dtypes, weighting, space flavour, row multiplier."""

    def __init__(self, real='float64', weight=None, flavour='rn', mult=1, exponent=2.0):
        self.real = np.dtype(real)
        self.isint = np.issubdtype(self.real, np.integer)
        self.cplx = None if self.isint else np.dtype('complex128' if self.real == np.dtype('float64') else 'complex64')
        self.other_real = np.dtype({'float64': 'float32', 'float32': 'float64', 'int64': 'float64',
                                    'int32': 'float64'}[self.real.name])
        self.other_cplx = None if self.isint else np.dtype('complex64' if self.real == np.dtype('float64')
                                                           else 'complex128')
        self.weight, self.flavour, self.mult, self.exponent = weight, flavour, int(mult), exponent
        self._sp = {}

    def key(self):
        return {'dtype': self.real.name, 'weight': self.weight, 'flavour': self.flavour, 'mult': self.mult,
                'exponent': self.exponent}

    def dtype(self, cx, dt='same'):
        if dt == 'same':
            return self.cplx if cx else self.real
        return self.other_cplx if cx else self.other_real

    def cshape(self, shp):
        shp = tuple(int(s) for s in shp)
        if self.mult > 1 and shp:
            return shp[:-1] + (shp[-1] * self.mult,)
        return shp

    def tspace(self, shp, cx, dt='same'):
        k = ('t', tuple(shp), cx, dt)
        if k not in self._sp:
            dtype = self.dtype(cx, dt)
            kw = {}
            shape = self.cshape(shp)
            if self.weight == 'array':
                n = int(np.prod(shape)) if shape != () else 1
                kw['weighting'] = np.arange(1, n + 1, dtype=float).reshape(shape)
            elif self.weight is not None:
                kw['weighting'] = self.weight
            if self.exponent != 2.0:
                kw['exponent'] = self.exponent
            if self.flavour == 'rn' and not self.isint:
                self._sp[k] = (odl.cn if cx else odl.rn)(shape, dtype=dtype, **kw)
            else:
                self._sp[k] = odl.tensor_space(shape, dtype=dtype, **kw)
        return self._sp[k]

    def dspace(self, shp, cx, dt='same'):
        k = ('d', tuple(shp), cx, dt)
        if k not in self._sp:
            shape = self.cshape(shp)
            lo = [0.0] * len(shape) if self.flavour == 'rn' else [-1.0] * len(shape)
            hi = [1.0] * len(shape) if self.flavour == 'rn' else [float(2 + i) for i in range(len(shape))]
            kw = {}
            if self.flavour != 'rn':
                kw['nodes_on_bdry'] = True
            self._sp[k] = odl.uniform_discr(lo, hi, shape, dtype=self.dtype(cx, dt), **kw)
        return self._sp[k]


def concretisations(profile, tier):
    """Concretisation list per profile (the first ones are always used, the rest rotate with the seed)."""
    base = [Concr('float64'), Concr('float32', weight=2.0, flavour='ts'), Concr('float64', flavour='ts', exponent=1.0),
            Concr('float32')]
    if profile in ('T1', 'T2', 'SI', 'PS', 'LC'):
        base.append(Concr('int64', flavour='ts'))
    if profile != 'LC':
        base.append(Concr('float64', weight='array'))
    if profile == 'LC':
        # rows of 3 * mult entries straddle _lincomb_impl's thresholds (100, 50000); the long one is expensive and
        # therefore appears once in the rotation
        base = [Concr('float64', mult=1), Concr('float64', mult=34), Concr('float32', mult=40, weight=2.0),
                Concr('int64', mult=34, flavour='ts'), Concr('float32', mult=1), Concr('float64', mult=33, flavour='ts',
                                                                                      exponent=1.0),
                Concr('float64', mult=16667), Concr('float32', mult=33), Concr('float64', mult=2, weight=2.0),
                Concr('int32', mult=35, flavour='ts'), Concr('float64', mult=35, flavour='ts')]
    return base


# ----------------------------------------------------------------------------------------------------------------
# exact projection
# ----------------------------------------------------------------------------------------------------------------
def cnum(c):
    """JSON C number -> python scalar (int when possible)."""
    re, im = c[0], c[1]
    if re[1] != 1 or im[1] != 1:
        raise MachineryError('non-integer value in views scenario: %r' % (c,))
    if im[0] == 0:
        return int(re[0])
    return complex(re[0], im[0])


def proj_array(arr, mult):
    """ndarray -> flat list of JSON C numbers of the ABSTRACT object (tiles along the last axis verified)."""
    a = np.asarray(arr)
    if mult > 1 and a.ndim >= 1:
        L = a.shape[-1]
        if L % mult:
            return None
        t = a.reshape(a.shape[:-1] + (mult, L // mult))
        first = t[..., :1, :]
        if not bool(np.all(t == first)):
            return [NANC] * (a.size // mult)
        a = t[..., 0, :]
    flat = a.ravel(order='C')
    out = []
    if np.issubdtype(flat.dtype, np.complexfloating):
        for z in flat:
            re, im = float(z.real), float(z.imag)
            if re != round(re) or im != round(im) or abs(re) > 2 ** 30 or abs(im) > 2 ** 30:
                out.append(NANC)
            else:
                out.append([[int(round(re)), 1], [int(round(im)), 1]])
    else:
        for z in flat:
            v = float(z)
            if v != round(v) or abs(v) > 2 ** 30:
                out.append(NANC)
            else:
                out.append([[int(round(v)), 1], [0, 1]])
    return out


def _shares(a, b):
    try:
        return bool(np.shares_memory(a, b))
    except Exception:                       # exact test too hard (never seen on these strides): bounds test
        return bool(np.may_share_memory(a, b))


def is_elem(o):
    return isinstance(o, odl.set.space.LinearSpaceElement)


def is_prod(o):
    return isinstance(o, odl.space.pspace.ProductSpaceElement)


def raw(o):
    """The ndarray behind a leaf object (observation only)."""
    if isinstance(o, np.ndarray):
        return o
    return o.data


def proj_obj(o, mult):
    if is_prod(o):
        out = []
        for p in o.parts:
            v = proj_obj(p, mult)
            if v is None:
                return None
            out.extend(v)
        return out
    if isinstance(o, np.ndarray):
        return proj_array(o, mult)
    if is_elem(o):
        return proj_array(o.asarray(), mult)
    return proj_array(np.asarray(o), mult)


# ----------------------------------------------------------------------------------------------------------------
# the world: real objects + public calls
# ----------------------------------------------------------------------------------------------------------------
class World(object):
    def __init__(self, init, concr, rng):
        self.c, self.rng = concr, rng
        self.objs = []
        self.info = []            # light type registry (what the DRIVER knows: kinds and shapes, never memory)
        for o in init['objs']:
            b = init['bufs'][o['b'] - 1]
            cx = bool(o['cx'])
            dtype = concr.dtype(cx, o['dt'])
            vals = np.array([cnum(v) for v in b['v']]).astype(dtype).reshape(tuple(b['shp']))
            if concr.mult > 1:
                vals = np.tile(vals, (1,) * (vals.ndim - 1) + (concr.mult,))
            arr = np.asfortranarray(vals) if b['lay'] == 'F' else np.ascontiguousarray(vals)
            if o['ty'] == 'arr':
                self.objs.append(arr)
            else:
                sp = self.space_for(o['sk'], o['shp'], cx, o['dt'])
                self.objs.append(sp.element(arr))
            self.info.append({'k': 'leaf', 'ty': o['ty'], 'sk': o['sk'], 'cx': cx, 'shp': list(o['shp']), 'dt': o['dt']})

    # ---- spaces -----------------------------------------------------------------------------------------------
    def space_for(self, sk, shp, cx, dt='same'):
        if sk == 'discr':
            return self.c.dspace(shp, cx, dt)
        if sk == 'dtensor':
            return self.c.dspace(shp, cx, dt).tspace
        return self.c.tspace(shp, cx, dt)

    # ---- spellings --------------------------------------------------------------------------------------------
    def py_index(self, idx, no_one_tuple=False, target=None):
        """The Python index expression of an abstract index.  target: the indexed leaf object (shape of whole-object
        masks; an ODL element as target allows index TENSORS for a single-entry index)."""
        rng = self.rng
        ents = []
        odl_ok = len(idx) == 1 and target is not None and is_elem(target) and not is_prod(target)
        for e in idx:
            if e['k'] == 'int':
                ents.append(int(e['a']) if rng.random() < 0.7 else np.int64(e['a']))
            elif e['k'] == 'sl':
                a = None if e['a'] == NONE else int(e['a'])
                b = None if e['b'] == NONE else int(e['b'])
                s = int(e['s'])
                if s == 1 and rng.random() < 0.5:
                    s = None
                ents.append(slice(a, b, s))
            elif e['k'] == 'list':
                ents.append([int(t) for t in e['l']])
            elif e['k'] == 'arr':
                a = np.array([int(t) for t in e['l']], dtype=rng.choice(['int64', 'int32', 'intp']))
                if odl_ok and rng.random() < 0.4:
                    a = odl.tensor_space(a.shape, dtype=a.dtype).element(a)
                ents.append(a)
            elif e['k'] in ('mask', 'maskall'):
                a = np.array([bool(t) for t in e['l']], dtype=bool)
                if e['k'] == 'maskall':
                    a = a.reshape(np.shape(raw(target)))
                if odl_ok and rng.random() < 0.4:
                    a = odl.tensor_space(a.shape, dtype=bool).element(a)
                ents.append(a)
            else:
                raise MachineryError('views: unknown index entry %r' % (e,))
        if len(ents) == 1:
            # x[(e,)] is x[e] for arrays; for product elements only the plain spelling is used (the 1-tuple form of
            # __setitem__ is not described anywhere); lists and index arrays are never wrapped
            plain = no_one_tuple or rng.random() < 0.7 or not isinstance(ents[0], (int, np.integer, slice))
            return ents[0] if plain else (ents[0],)
        return tuple(ents)

    def scalar(self, c, cx):
        v = cnum(c)
        if isinstance(v, complex):
            return v if self.rng.random() < 0.6 else self.c.cplx.type(v)
        if self.c.isint:
            return v if self.rng.random() < 0.6 else self.c.real.type(v)
        r = self.rng.random()
        if r < 0.35:
            return v
        if r < 0.7:
            return float(v)
        if r < 0.85:
            return self.c.real.type(v)
        return np.array(float(v))

    def seq_value(self, vals, shape, cx, spell=None):
        """A value with the given (concrete) shape in one of the documented operand kinds."""
        flat = [cnum(v) for v in vals]
        shape = tuple(int(t) for t in shape)
        arr = np.array(flat, dtype=complex if any(isinstance(t, complex) for t in flat) else int).reshape(shape)
        if self.c.mult > 1:
            arr = np.tile(arr, (1,) * (arr.ndim - 1) + (self.c.mult,))
        kinds = ['list', 'ndarray', 'ndarray_other', 'element', 'tuple', 'element_other']
        k = spell or self.rng.choice(kinds)
        if arr.size == 0 and k in ('list', 'tuple'):
            k = 'ndarray'              # the nested list of an empty 2-d array no longer has its shape
        is_c = np.iscomplexobj(arr)
        if k == 'list':
            return arr.tolist()
        if k == 'tuple':
            return tuple(arr.tolist()) if arr.ndim == 1 else arr.tolist()
        if k == 'ndarray':
            return arr.astype(self.c.dtype(is_c))
        if k == 'ndarray_other':
            return arr.astype(self.c.dtype(is_c, 'other'))
        sp = odl.tensor_space(arr.shape, dtype=self.c.dtype(is_c, 'same' if k == 'element' else 'other'))
        return sp.element(arr)

    # ---- the calls --------------------------------------------------------------------------------------------
    def prepare(self, A):
        """Build the operands of action A (spellings chosen here) and return the call as a thunk, so that an exception
        of the harness can never be mistaken for one of the call.  The thunk returns (kind, payload):
        ('none', None) | ('obj', python object)."""
        op = A['op']
        X = self.objs[A['x'] - 1] if A['x'] else None
        xi = self.info[A['x'] - 1] if A['x'] else None
        rng = self.rng
        if op == 'getitem':
            if A['how'] == 'parts' and len(A['idx']) == 1 and A['idx'][0]['k'] == 'int':
                i = int(A['idx'][0]['a'])
                return lambda: ('obj', X.parts[i])
            ix = self.py_index(A['idx'], is_prod(X), self.descend(X, A['idx'])[0])
            return lambda: ('obj', X[ix])
        if op == 'setitem':
            ix = self.py_index(A['idx'], is_prod(X), self.descend(X, A['idx'])[0])
            v = self.value(A, X, xi)

            def f():
                X[ix] = v
                return 'none', None
            return f
        if op == 'copy':
            how = A['how']
            if how == 'copy':
                return lambda: ('obj', X.copy())
            if how == 'copy.copy':
                return lambda: ('obj', _copy.copy(X))
            dt = self.c.dtype(xi['cx'], xi['dt'] if how == 'astype' else ('other' if xi['dt'] == 'same' else 'same'))
            spell = rng.choice([dt, dt.name, dt.type])
            return lambda: ('obj', X.astype(spell))
        if op == 'asarray':
            how = A['how']
            if is_prod(X):
                return (lambda: ('obj', X.asarray())) if rng.random() < 0.5 else (lambda: ('obj', np.asarray(X)))
            if how.startswith('np.asarray(dtype='):
                dt = self.c.dtype(xi['cx'], xi['dt'] if how.endswith('same)') else ('other' if xi['dt'] == 'same' else 'same'))
                spell = rng.choice([dt, dt.name, dt.type])
                k = rng.randrange(3)
                if k == 0:
                    return lambda: ('obj', np.asarray(X, dtype=spell))
                if k == 1:
                    return lambda: ('obj', X.__array__(dt))
                return lambda: ('obj', np.array(X, dtype=spell, copy=False))
            if how == 'asarray':
                return lambda: ('obj', X.asarray())
            if how == 'np.asarray':
                return lambda: ('obj', np.asarray(X))
            if how == 'data':
                return lambda: ('obj', X.data)
            return lambda: ('obj', X.__array__())
        if op == 'asarray_out':
            Y = self.objs[A['y'] - 1]
            return (lambda: ('obj', X.asarray(out=Y))) if rng.random() < 0.5 else (lambda: ('obj', X.asarray(Y)))
        if op == 'wrap':
            order = None if A['ord'] == 'N' else A['ord']
            if order is not None and rng.random() < 0.3:
                order = order.lower()
            if A['how'] == 'data_ptr':
                sp = self.space_for('tensor', xi['shp'], xi['cx'])
                ptr = X.data_ptr if hasattr(X, 'data_ptr') else raw(X).ctypes.data
                if isinstance(ptr, np.integer) or rng.random() < 0.5:
                    ptr = int(ptr)
                return lambda: ('obj', sp.element(data_ptr=ptr, order=order))
            if A['how'] == 'array_wrap':
                e0 = self.space_for('tensor', xi['shp'], xi['cx']).element()
                return lambda: ('obj', e0.__array_wrap__(X))
            sp = self.space_for(A['how'], xi['shp'], xi['cx'])
            if order is None and rng.random() < 0.5:
                return lambda: ('obj', sp.element(X))
            return lambda: ('obj', sp.element(X, order=order))
        if op == 'tensor':
            return lambda: ('obj', X.tensor)
        if op == 'sample':
            cval = cnum(A['v']['c'])
            nd = len(xi['shp'])
            k = rng.randrange(3)
            if k == 0:
                f = (lambda x: cval + 0 * x) if nd == 1 else (lambda x: cval + 0 * x[0] + 0 * x[1])
            elif k == 1:
                f = lambda x: cval                          # broadcast by the sampling wrapper
            else:
                def f(x, c=0):
                    return c + 0 * (x if nd == 1 else x[0] * x[1])
                return lambda: ('obj', X.space.element(f, c=cval))
            return lambda: ('obj', X.space.element(f))
        if op == 'real':
            return lambda: ('obj', X.real)
        if op == 'imag':
            return lambda: ('obj', X.imag)
        if op == 'conj':
            return lambda: ('obj', X.conj())
        if op in ('setreal', 'setimag'):
            v = self.part_value(A, X, xi)

            def f():
                if op == 'setreal':
                    X.real = v
                else:
                    X.imag = v
                return 'none', None
            return f
        if op == 'conj_out':
            Y = self.objs[A['y'] - 1]
            return (lambda: ('obj', X.conj(out=Y))) if rng.random() < 0.5 else (lambda: ('obj', X.conj(Y)))
        if op == 'assign':
            Y = self.objs[A['y'] - 1]

            def f():
                X.assign(Y)
                return 'none', None
            return f
        if op == 'set_zero':
            def f():
                X.set_zero()
                return 'none', None
            return f
        if op == 'lincomb':
            a = self.scalar(A['a'], xi['cx'])
            b = self.scalar(A['b'], xi['cx'])
            Y, Z = self.objs[A['y'] - 1], self.objs[A['z'] - 1]
            if isinstance(a, np.ndarray):
                a = a.item()
            if isinstance(b, np.ndarray):
                b = b.item()
            if rng.random() < 0.5:
                return lambda: ('obj', X.space.lincomb(a, Y, b, Z, out=X))
            return lambda: ('obj', X.lincomb(a, Y, b, Z))
        if op == 'ibin':
            f = {'add': operator.iadd, 'sub': operator.isub, 'mul': operator.imul}[A['how']]
            Y = self.objs[A['y'] - 1]
            return lambda: ('obj', f(X, Y))
        if op == 'pelement':
            parts = [self.objs[p - 1] for p in A['ps']]
            spaces = [p.space for p in parts]
            # product spaces are left unweighted with exponent 2: slicing a product SPACE (z[0:2].space) is C20's subject
            if all(s == spaces[0] for s in spaces) and rng.random() < 0.5:
                P = odl.ProductSpace(spaces[0], len(spaces))
            else:
                P = odl.ProductSpace(*spaces)
            arg = parts if rng.random() < 0.6 else tuple(parts)
            return lambda: ('obj', P.element(arg))
        raise MachineryError('views: unknown op %r' % op)

    def descend(self, X, idx):
        i = 0
        while is_prod(X) and len(idx) - i > 1 and idx[i]['k'] == 'int':
            X = X.parts[int(idx[i]['a'])]
            i += 1
        return X, idx[i:]

    def sel_shape(self, T, idx):
        """Concrete shape of a selection (NumPy on a dummy of the same shape; used only to shape operands)."""
        dummy = np.empty(np.shape(raw(T)), dtype=bool)
        saved, self.rng = self.rng, random.Random(0)
        try:
            return dummy[self.py_index(idx, False, dummy)].shape
        finally:
            self.rng = saved

    def value(self, A, X, xi):
        V = A['v']
        cx = xi['cx']
        if V['k'] == 'scalar':
            return self.scalar(V['c'], cx)
        if V['k'] == 'obj':
            return self.objs[V['o'] - 1]
        if V['k'] == 'perpart':
            return [self.scalar(v, cx) for v in V['vals']] if self.rng.random() < 0.7 else \
                tuple(self.scalar(v, cx) for v in V['vals'])
        T, rest = self.descend(X, A['idx'])
        if is_prod(T):
            shp = np.shape(raw(T.parts[int(rest[0]['a'])]))      # integer index into a product: one (leaf) part
        else:
            shp = self.sel_shape(T, rest)
        if V['k'] == 'row':
            return self.seq_value(V['vals'], (shp[-1] // self.c.mult,), cx)
        ashp = tuple(shp[:-1]) + (shp[-1] // self.c.mult,) if shp else ()
        return self.seq_value(V['vals'], ashp, cx)

    def part_value(self, A, X, xi):
        V = A['v']
        if V['k'] == 'scalar':
            return self.scalar(V['c'], False)
        if V['k'] == 'obj':
            return self.objs[V['o'] - 1]
        shp = np.shape(raw(X))
        ashp = tuple(shp[:-1]) + (shp[-1] // self.c.mult,) if shp else ()
        return self.seq_value(V['vals'], ashp, False)

    # ---- observation ------------------------------------------------------------------------------------------
    def observe(self):
        vals = []
        for o in self.objs:
            v = proj_obj(o, self.c.mult)
            vals.append(v if v is not None else [NANC])
        sh = []
        arrs = [[raw(l) for l in leaves_of(o)] for o in self.objs]
        arrs = [[a for a in ls if a.size] for ls in arrs]
        for i in range(len(arrs)):
            for j in range(i + 1, len(arrs)):
                if any(_shares(a, b) for a in arrs[i] for b in arrs[j]):
                    sh.append([i + 1, j + 1])
        return vals, sh

    def describe_ret(self, kind, payload, expect_kind=None, expect_obj=0):
        """Observed return descriptor in the format of ViewSem (identity against the registry, scalars exact)."""
        if kind == 'none':
            return {'k': 'none', 'o': 0, 'v': [], 'e': ''}
        if kind == 'raises':
            return {'k': 'raises', 'o': 0, 'v': [], 'e': payload}
        r = payload
        if is_elem(r) or (isinstance(r, np.ndarray) and r.ndim > 0):
            if expect_kind == 'same' and 0 < expect_obj <= len(self.objs) and self.objs[expect_obj - 1] is r:
                return {'k': 'same', 'o': expect_obj, 'v': [], 'e': ''}
            return {'k': 'objret', 'o': 0, 'v': [], 'e': ''}
        v = proj_array(np.asarray(r), 1)
        return {'k': 'scalar', 'o': 0, 'v': v, 'e': ''}


def idx_class(idx):
    ks = [e['k'] for e in idx]
    if not ks:
        return 'none'
    if len(ks) == 1:
        return ks[0]
    return 'tuple:' + '+'.join(ks)


def alias_class(w, A):
    """For arithmetic calls: how the operands relate to `out` on the REAL objects (descriptive part of a signature)."""
    if A['op'] not in ('lincomb', 'ibin', 'assign', 'conj_out'):
        return ''
    out = w.objs[(A['y'] if A['op'] == 'conj_out' else A['x']) - 1]
    others = [w.objs[A[k] - 1] for k in (('x',) if A['op'] == 'conj_out' else ('y', 'z')) if A[k]]
    cls = 'disjoint'
    for o in others:
        if o is out:
            cls = 'identical' if cls == 'disjoint' else cls
        elif not disjoint(o, out):
            return 'shared-not-identical'
    return cls


def sig_for(profile, A, clause, w):
    xi = w.info[A['x'] - 1] if A['x'] and A['x'] <= len(w.info) else {'k': '-', 'sk': '-', 'ty': '-'}
    sig = {'stage': 'views', 'op': A['op'], 'clause': clause,
           'target': 'prod' if (xi['k'] == 'prod' or A['op'] == 'pelement') else (xi['sk'] if xi['ty'] == 'elem' else 'ndarray'),
           'idx': idx_class(A['idx']), 'value': A['v']['k'], 'how': A['how']}
    if A['op'] == 'wrap':
        sig['order'] = A['ord']
    if A['op'] in ('lincomb', 'ibin', 'assign', 'conj_out'):
        sig['alias'] = alias_class(w, A)
        n = max(int(np.size(raw(l))) for l in leaves_of(w.objs[A['x'] - 1]))
        sig['size'] = 'small' if n < 100 else ('medium' if n < 50000 else 'large')
    if A['op'] == 'setitem' and xi['k'] == 'prod':
        T, rest = w.descend(w.objs[A['x'] - 1], A['idx'])
        if is_prod(T) and rest and len(A['idx']) > 1:
            e = rest[0]
            sel = [T.parts[int(e['a'])]] if e['k'] == 'int' else (
                list(T.parts[slice(None if e['a'] == NONE else e['a'], None if e['b'] == NONE else e['b'], e['s'])])
                if e['k'] == 'sl' else [])
            if any(is_prod(p) for p in sel):
                sig['part'] = 'product'
    return sig


# ----------------------------------------------------------------------------------------------------------------
# replay of exported behaviours
# ----------------------------------------------------------------------------------------------------------------
def register(w, A, payload):
    """Track a new object; the parts of a deep-copied product are tracked first (the order of ViewSem!DeepCopy)."""
    if A['op'] == 'copy' and is_prod(payload):
        def deep(o):
            if is_prod(o):
                for p in o.parts:
                    deep(p)
            w.objs.append(o)
            w.info.append(new_info(w, A, o))
        deep(payload)
    else:
        w.objs.append(payload)
        w.info.append(new_info(w, A, payload))


def run_step(w, A, exp_ret_kind, exp_obj=0):
    """Perform one call; register what it hands out according to the EXPECTED kind (spec decides what is tracked).
    Returns the observed ret descriptor (and the transient object for 'val' results)."""
    call = w.prepare(A)
    try:
        kind, payload = call()
    except Exception as ex:                                   # the call raised: an observation
        return {'k': 'raises', 'o': 0, 'v': [], 'e': type(ex).__name__}, None
    ret = w.describe_ret(kind, payload, exp_ret_kind, exp_obj)
    if ret['k'] in ('objret', 'same') and exp_ret_kind == 'new':
        register(w, A, payload)
        ret = {'k': 'new', 'o': len(w.objs), 'v': [], 'e': ''}
    elif ret['k'] in ('objret', 'same') and exp_ret_kind == 'val':
        v = proj_obj(payload, w.c.mult)
        ret = {'k': 'val', 'o': 0, 'v': v if v is not None else [NANC], 'e': ''}
    elif ret['k'] == 'objret' and exp_ret_kind == 'none':
        ret = {'k': 'none', 'o': 0, 'v': [], 'e': ''}
    elif ret['k'] == 'same' and exp_ret_kind == 'none':
        ret = {'k': 'none', 'o': 0, 'v': [], 'e': ''}
    return ret, payload


def new_info(w, A, payload):
    """Type registry entry of a newly tracked object (kinds and shapes as the real object reports them)."""
    if is_prod(payload):
        return {'k': 'prod', 'ty': 'elem', 'sk': 'pspace', 'cx': bool(payload.space.is_complex), 'shp': [], 'dt': 'same'}
    src = w.info[A['x'] - 1] if A['x'] else None
    ty = 'arr' if isinstance(payload, np.ndarray) else 'elem'
    if ty == 'arr':
        sk = 'tensor'
    elif isinstance(payload, odl.discr.discr_space.DiscretizedSpaceElement):
        sk = 'discr'
    elif A['op'] == 'tensor' or (src is not None and src['sk'] == 'dtensor' and A['op'] in ('getitem', 'copy')):
        sk = 'dtensor'
    else:
        sk = 'tensor'
    shp = list(np.shape(raw(payload)))
    if w.c.mult > 1 and shp:
        shp[-1] //= w.c.mult
    dt = src['dt'] if src is not None else 'same'
    if A['op'] == 'copy' and A['how'] == 'astype_other':
        dt = 'other' if dt == 'same' else 'same'
    if A['op'] == 'wrap':
        dt = 'same'
    return {'k': 'leaf', 'ty': ty, 'sk': sk, 'cx': bool(np.iscomplexobj(raw(payload))), 'shp': shp, 'dt': dt}


def compare(exp, vals, sh, ret):
    """Clauses in which the observation differs from the exported expectation."""
    bad = []
    if ret != exp['ret']:
        if ret['k'] != exp['ret']['k']:
            bad.append('raised' if ret['k'] == 'raises' else ('not-raised' if exp['ret']['k'] == 'raises' else 'ret-kind'))
        else:
            bad.append('ret-value' if ret['k'] in ('scalar', 'val') else
                       ('raised-type' if ret['k'] == 'raises' else 'ret-identity'))
        if bad and exp['ret']['k'] == 'same' and ret['k'] == 'objret':
            bad[-1] = 'ret-identity'
    if len(vals) != len(exp['vals']):
        bad.append('heap-size')
    else:
        for i, (a, b) in enumerate(zip(vals, exp['vals'])):
            if a != b:
                bad.append('value')
                break
    if sorted(map(tuple, sh)) != sorted(map(tuple, exp['sh'])):
        bad.append('sharing')
    return bad


def replay_behaviour(profile, beh, concr, seed, rec=None):
    """Replays one exported behaviour; returns (n_steps_compared, violation or None).  rec: list that receives the
    recorded events of this replay (for the trace validation)."""
    rng = random.Random(seed)
    w = World(beh['init'], concr, rng)
    if rec is not None:
        vals, sh = w.observe()
        rec.append({'act': act('init'), 'init': beh['init'], 'obs': {'vals': vals, 'sh': sh, 'ret': RET_NONE},
                    'meta': {'profile': profile, 'concr': concr.key(), 'seed': seed}})
    n = 0
    for step, h in enumerate(beh['hist']):
        A, exp = h['act'], h['obs']
        # the driver's memory-free mirror of the documentation table must agree with the specification on every step
        mk, mo = expected_kind(w, A)
        ek = exp['ret']['k']
        if not (mk == ek or (mk == 'none' and ek == 'raises') or (mk == 'same' and ek == 'same' and mo == exp['ret']['o'])):
            raise MachineryError('views: driver mirror says %r, specification says %r for %s' % (mk, ek, dumps(A)))
        presig = sig_for(profile, A, '?', w) if rec is not None else None
        ret, payload = run_step(w, A, exp['ret']['k'], exp['ret']['o'])
        vals, sh = w.observe()
        n += 1
        if rec is not None:
            rec.append({'act': A, 'init': EMPTY_INIT, 'obs': {'vals': vals, 'sh': sh, 'ret': ret},
                        'meta': {'profile': profile, 'sig': presig}})
        bad = compare(exp, vals, sh, ret)
        if bad:
            detail = {'stage_module': 'views', 'profile': profile, 'concr': concr.key(), 'rng_seed': seed,
                      'init': beh['init'], 'hist': [x['act'] for x in beh['hist'][:step + 1]], 'failed_step': step + 1,
                      'clauses': bad, 'expected': exp, 'observed': {'vals': vals, 'sh': sh, 'ret': ret}}
            return n, (sig_for(profile, A, bad[0], w), detail)
    return n, None


def concr_ids(ln, ncon, nall, seed):
    """Which concretisations behaviour number ln is replayed under: the first one always rotates with the line number,
    so every concretisation sees every ncon-th..nall-th behaviour; the seed shifts the rotation."""
    return sorted({(ln + seed + k) % nall for k in range(min(ncon, nall))})


def dec_num(v):
    return [[v, 1], [0, 1]] if isinstance(v, int) else v


def dec_hist(hist):
    """Undo the compact encoding of MC_View!EncObs."""
    for h in hist:
        o = h['obs']
        o['vals'] = [[dec_num(v) for v in vs] for vs in o['vals']]
        o['ret']['v'] = [dec_num(v) for v in o['ret']['v']]
    return hist


def read_export(path):
    """(init, number of behaviour lines).  Line 0 of an export holds the initial heap."""
    with open(path) as f:
        first = json.loads(f.readline())
        n = sum(1 for line in f if line.strip())
    if 'init' not in first:
        raise MachineryError('views: export %s does not start with the initial heap' % path)
    return first['init'], n


def array_weight_ok(init, hist):
    """Array-weighted tensor spaces cannot hand out derived spaces (x[idx], astype(other)): C20's open finding.  True if
    the behaviour never asks a tensor ELEMENT for a non-scalar x[idx] or an astype to another dtype."""
    ty = [o['ty'] if o['k'] == 'leaf' else 'prod' for o in init['objs']]
    for h in hist:
        A, r = h['act'], h['obs']['ret']
        if A['op'] == 'getitem' and r['k'] in ('new', 'val') and ty[A['x'] - 1] != 'arr':
            if not (ty[A['x'] - 1] == 'prod' and len(A['idx']) == 1):
                return False
        if A['op'] == 'copy' and A['how'] == 'astype_other':
            return False
        if r['k'] == 'new':
            new = 'arr' if (A['op'] == 'asarray' or (A['op'] == 'getitem' and ty[A['x'] - 1] == 'arr')) else (
                'prod' if (A['op'] == 'pelement' or (A['op'] in ('copy', 'getitem') and ty[A['x'] - 1] == 'prod'
                                                      and A['idx'][-1]['k'] != 'int' if A['op'] == 'getitem' else
                                                      A['op'] == 'copy' and ty[A['x'] - 1] == 'prod')) else 'elem')
            while len(ty) < r['o'] - 1:
                ty.append('elem')          # parts registered by a deep copy of a product
            ty.append(new)
    return True


def _replay_chunk(args):
    profile, path, init, lo, hi, ncon, tier, seed, rec_every = args
    concs = concretisations(profile, tier)
    out = {'n': 0, 'steps': 0, 'viol': [], 'events': [], 'nontrivial': set(), 'ops': {}}
    with open(path) as f:
        f.readline()
        for ln, line in enumerate(f):
            if ln < lo:
                continue
            if ln >= hi:
                break
            if not line.strip():
                continue
            beh = {'init': init, 'hist': dec_hist(json.loads(line)['hist'])}
            ops = {h['act']['op'] for h in beh['hist']}
            for k, ci in enumerate(concr_ids(ln, ncon, len(concs), seed)):
                c = concs[ci]
                if c.isint and ops & INT_UNDEFINED:
                    c = concs[0]
                if c.weight == 'array' and not array_weight_ok(init, beh['hist']):
                    c = concs[0]
                if len(c._sp) > 200:
                    c._sp = {}
                rec = [] if (rec_every and k == 0 and ln % rec_every == 0) else None
                n, v = replay_behaviour(profile, beh, c, seed * 1000003 + ln * 31 + ci, rec)
                out['n'] += 1
                out['steps'] += n
                if rec:
                    out['events'].append(rec)
                if v is not None and len(out['viol']) < 300:
                    out['viol'].append(v)
            for h in beh['hist']:
                out['ops'][h['act']['op']] = out['ops'].get(h['act']['op'], 0) + 1
            out['nontrivial'].add(ln)
    out['nontrivial'] = len(out['nontrivial'])
    return out


# ----------------------------------------------------------------------------------------------------------------
# the driver's own (memory-free) knowledge: what a call hands out and which calls are type-correct
# ----------------------------------------------------------------------------------------------------------------
CZ = [[0, 1], [0, 1]]
RET_NONE = {'k': 'none', 'o': 0, 'v': [], 'e': ''}
EMPTY_INIT = {'bufs': [], 'objs': []}
NOV = {'k': 'none', 'c': CZ, 'vals': [], 'o': 0}


def act(op, **kw):
    A = {'op': op, 'x': 0, 'y': 0, 'z': 0, 'a': CZ, 'b': CZ, 'idx': [], 'v': NOV, 'how': '', 'ord': 'N', 'ps': []}
    A.update(kw)
    return A


def cj(v):
    if isinstance(v, complex):
        return [[int(v.real), 1], [int(v.imag), 1]]
    return [[int(v), 1], [0, 1]]


def I_int(i):
    return {'k': 'int', 'a': int(i), 'b': 0, 's': 0, 'l': []}


def I_sl(a, b, s):
    return {'k': 'sl', 'a': NONE if a is None else int(a), 'b': NONE if b is None else int(b), 's': int(s), 'l': []}


def I_list(l):
    return {'k': 'list', 'a': 0, 'b': 0, 's': 0, 'l': [int(t) for t in l]}


def leaf_info(o, w):
    for i, t in enumerate(w.objs):
        if t is o:
            return w.info[i]
    return None


def expected_kind(w, A):
    """What the call is expected to hand out, from kinds and shapes only (mirror of ViewSem!DocShare; the mirror is
    itself checked against every exported TLC step during the replay).  'new' | 'val' | 'scalar' | 'none' | 'same'."""
    op = A['op']
    if op in ('setitem', 'assign', 'set_zero', 'setreal', 'setimag'):
        return 'none', 0
    if op in ('asarray_out', 'conj_out'):
        return 'same', A['y']
    if op in ('lincomb', 'ibin'):
        return 'same', A['x']
    if op in ('copy', 'wrap', 'tensor', 'pelement', 'sample'):
        return 'new', 0
    X = w.objs[A['x'] - 1]
    xi = w.info[A['x'] - 1]
    if op == 'conj':
        return 'val', 0
    if op == 'asarray':
        return ('val' if (is_prod(X) or A['how'].startswith('np.asarray(dtype=')) else 'new'), 0
    if op == 'real':
        return ('new' if (not is_prod(X) and xi['sk'] == 'discr') else 'val'), 0
    if op == 'imag':
        return ('new' if (not is_prod(X) and xi['sk'] == 'discr' and xi['cx']) else 'val'), 0
    if op == 'getitem':
        T, rest = w.descend(X, A['idx'])
        if is_prod(T):
            return ('val' if rest[0]['k'] == 'list' else 'new'), 0
        nd = np.ndim(raw(T))
        if len(rest) == nd and all(e['k'] == 'int' for e in rest):
            return 'scalar', 0
        if isinstance(T, odl.discr.discr_space.DiscretizedSpaceElement):
            return 'val', 0
        if is_elem(T) and any(e['k'] in ('arr', 'mask', 'maskall') for e in rest):
            return 'val', 0
        return 'new', 0
    raise MachineryError('views: expected_kind: unknown op %r' % op)


def same_space(w, i, j):
    """Model-level space equality (kind, field, dtype class, shape; products part-wise) from the real objects' types."""
    def desc(o, inf):
        if is_prod(o):
            return ('prod', tuple(desc(p, None) for p in o.parts))
        if inf is None:
            inf = leaf_info(o, w)
        if inf is None:                      # a part that was never handed out: described from the object itself
            sk = 'discr' if isinstance(o, odl.discr.discr_space.DiscretizedSpaceElement) else 'tensor?'
            return ('leaf', sk, bool(o.space.is_complex), tuple(o.shape), str(o.dtype))
        return ('leaf', inf['sk'], inf['cx'], tuple(np.shape(raw(o))), str(raw(o).dtype))
    a, b = w.objs[i - 1], w.objs[j - 1]
    if not (is_elem(a) and is_elem(b)):
        return False
    da, db = desc(a, w.info[i - 1]), desc(b, w.info[j - 1])
    if 'tensor?' in repr(da) or 'tensor?' in repr(db):
        return a.space == b.space and repr(da).replace('tensor?', 'T') == repr(db).replace('tensor?', 'T')
    return da == db


def leaves_of(o):
    if is_prod(o):
        out = []
        for p in o.parts:
            out.extend(leaves_of(p))
        return out
    return [o]


def disjoint(a, b):
    return not any(np.shares_memory(raw(p), raw(q)) for p in leaves_of(a) for q in leaves_of(b)
                   if raw(p).size and raw(q).size)


def no_cross(out, src):
    lo, ls = leaves_of(out), leaves_of(src)
    for s_, p in enumerate(lo):
        for t_, q in enumerate(ls):
            if s_ != t_ and raw(p).size and raw(q).size and np.shares_memory(raw(p), raw(q)):
                return False
    return True


class Driver(object):
    """Seeded random histories on real ODL objects (longer, more objects, other shapes than the TLC instances)."""

    def __init__(self, rng, scen, concr):
        self.rng, self.scen, self.c = rng, scen, concr
        self.arith = 0
        self.mul = 0

    # ---- initial heaps ---------------------------------------------------------------------------------------
    def init_state(self):
        rng, sc = self.rng, self.scen
        bufs, objs = [], []
        cnt = [0]

        def buf(shp, cx=False, lay=None):
            n = int(np.prod(shp))
            vals = []
            for _ in range(n):
                cnt[0] += 1
                vals.append([[cnt[0], 1], [((-1) ** cnt[0]) * (cnt[0] % 4) if cx else 0, 1]])
            bufs.append({'v': vals, 'shp': list(shp), 'lay': lay or rng.choice(['C', 'F'])})
            return len(bufs)

        def whole(ty, sk, cx, b, shp, dt='same'):
            objs.append({'k': 'leaf', 'ty': ty, 'sk': sk, 'cx': cx, 'b': b, 'cells': list(range(1, int(np.prod(shp)) + 1)),
                         'shp': list(shp), 'comp': 'full', 'parts': [], 'dt': dt, 'src': 0, 'spos': []})
        shapes1 = [(1,), (2,), (3,), (5,), (6,)]
        shapes2 = [(2, 2), (3, 2), (1, 3), (2, 1), (3, 4), (2, 3)]
        if sc == 'T':
            shp = rng.choice(shapes1 + shapes2 + [(0,), (0, 2), (2, 0)])
            whole('elem', 'tensor', False, buf(shp), shp)
            whole('arr', 'tensor', False, buf(shp), shp)
            whole('arr', 'tensor', False, buf(shp), shp, 'other')
            shp2 = rng.choice(shapes1)
            whole('elem', 'tensor', False, buf(shp2), shp2)
        elif sc == 'C':
            shp = rng.choice(shapes1 + shapes2[:3])
            whole('elem', 'tensor', True, buf(shp, True), shp)
            whole('elem', 'discr', True, buf(shp, True), shp)
            whole('arr', 'tensor', False, buf(shp), shp)
            whole('arr', 'tensor', True, buf(shp, True), shp)
        elif sc == 'D':
            shp = rng.choice(shapes1 + shapes2)
            whole('arr', 'tensor', False, buf(shp), shp)
            whole('elem', 'discr', False, buf(shp), shp)
            whole('elem', 'tensor', False, buf(shp), shp)
        elif sc == 'P':
            s1, s2 = rng.choice(shapes1 + [(0,)]), rng.choice(shapes1 + shapes2[:2])
            for shp in (s1, s2, s1, s1):
                whole('elem', 'tensor', False, buf(shp), shp)
            whole('elem', 'discr', False, buf(s2), s2)
        elif sc == 'Q':                       # complex product spaces
            s1, s2 = rng.choice(shapes1), rng.choice(shapes1)
            for shp in (s1, s2, s1):
                whole('elem', 'tensor', True, buf(shp, True), shp)
            whole('elem', 'tensor', False, buf(s1), s1)
            whole('elem', 'tensor', False, buf(s2), s2)
        elif sc == 'L':
            r = rng.choice([2, 3])
            whole('elem', 'tensor', False, buf((r, 3), lay='C'), (r, 3))
            whole('elem', 'tensor', False, buf((3,)), (3,))
        else:
            raise MachineryError('views: unknown scenario %r' % sc)
        return {'bufs': bufs, 'objs': objs}

    # ---- random ingredients ----------------------------------------------------------------------------------
    def rand_axis(self, n, allow_list=True, distinct=False, allow_arr=True):
        rng = self.rng
        r = rng.random()
        if r < 0.25 and n > 0:
            return I_int(rng.randrange(-n, n))
        if r < 0.8 or not allow_list or n == 0:
            a = rng.choice([None, None, rng.randrange(-n - 2, n + 3)])
            b = rng.choice([None, None, rng.randrange(-n - 2, n + 3)])
            s = rng.choice([1, 1, 1, 2, -1, -1, -2, 3])
            return I_sl(a, b, s)
        if allow_arr and rng.random() < 0.3:
            flags = [rng.randrange(2) for _ in range(n)]
            return {'k': 'mask', 'a': 0, 'b': 0, 's': 0, 'l': flags}
        k = rng.randrange(1, min(n, 3) + 1)
        pos = rng.sample(range(n), k)
        ent = I_list([p - n if rng.random() < 0.3 else p for p in pos])
        if allow_arr and rng.random() < 0.4:
            ent['k'] = 'arr'
        return ent

    def rand_index(self, shape, for_set=False):
        rng = self.rng
        nd = len(shape)
        if self.c.mult > 1:                  # long rows: only axis 0 may be indexed
            return [self.rand_axis(shape[0])] if nd == 2 else [I_sl(None, None, 1)]
        if rng.random() < 0.08:
            n = int(np.prod(shape))
            return [{'k': 'maskall', 'a': 0, 'b': 0, 's': 0, 'l': [rng.randrange(2) for _ in range(n)]}]
        if nd == 1 or rng.random() < 0.35:
            return [self.rand_axis(shape[0])]
        e1, e2 = self.rand_axis(shape[0]), self.rand_axis(shape[1])
        adv = ('list', 'arr', 'mask')
        if e1['k'] in adv and e2['k'] in adv:
            # two advanced entries are paired point-wise: equal numbers of selected positions
            def npos(e):
                return sum(e['l']) if e['k'] == 'mask' else len(e['l'])
            if npos(e1) != npos(e2):
                m = min(npos(e1), npos(e2))
                if m == 0:
                    return [e1]
                def cut(e, n_):
                    if e['k'] == 'mask':
                        keep, fl = 0, []
                        for f in e['l']:
                            fl.append(1 if (f and keep < m) else 0)
                            keep += 1 if f else 0
                        return dict(e, l=fl)
                    return dict(e, l=e['l'][:m])
                e1, e2 = cut(e1, shape[0]), cut(e2, shape[1])
        return [e1, e2]

    def sel_info(self, T, idx):
        """(concrete shape, positions) of a selection: NumPy on an index dummy (used to shape operands / avoid duplicates)."""
        shp = np.shape(raw(T))
        dummy = np.arange(int(np.prod(shp))).reshape(shp)
        w = self.w
        saved, w.rng = w.rng, random.Random(0)
        try:
            sel = dummy[w.py_index(idx, False, dummy)]
        finally:
            w.rng = saved
        return np.shape(sel), np.ravel(sel)

    def rand_value(self, T, idx, cx, w):
        """A value record for T[idx] = v (None if the selection is not assignable in the vocabulary)."""
        rng = self.rng
        shp, pos = self.sel_info(T, idx)
        if len(set(pos.tolist())) != len(pos):
            return None
        mult = self.c.mult
        base = rng.randrange(20, 60)

        def num(k):
            if cx and rng.random() < 0.5:
                return cj(complex(base + k, -(k % 3) - 1))
            return cj(base + k)
        r = rng.random()
        if shp == () or r < 0.3:
            return {'k': 'scalar', 'c': num(0), 'vals': [], 'o': 0}
        m = int(np.prod(shp)) // mult
        if r < 0.6:
            return {'k': 'seq', 'c': CZ, 'vals': [num(k + 1) for k in range(m)], 'o': 0}
        if r < 0.7 and len(shp) == 2 and mult == 1:
            return {'k': 'row', 'c': CZ, 'vals': [num(10 * (k + 1)) for k in range(shp[1])], 'o': 0}
        adv = any(e['k'] in ('list', 'arr', 'mask', 'maskall') for e in idx)   # NumPy defines overlap for basic indices only
        cands = [i + 1 for i, o in enumerate(w.objs) if not is_prod(o) and np.shape(raw(o)) == shp and
                 (cx or not np.iscomplexobj(raw(o))) and
                 not (adv and raw(o).size and raw(T).size and np.shares_memory(raw(o), raw(T)))]
        if cands:
            return {'k': 'obj', 'c': CZ, 'vals': [], 'o': rng.choice(cands)}
        return {'k': 'scalar', 'c': num(0), 'vals': [], 'o': 0}

    # ---- one random legal action ------------------------------------------------------------------------------
    def propose(self, w):
        rng = self.rng
        self.w = w
        n = len(w.objs)
        ids = list(range(1, n + 1))
        elems = [i for i in ids if is_elem(w.objs[i - 1])]
        leaf_e = [i for i in elems if not is_prod(w.objs[i - 1])]
        prods = [i for i in elems if is_prod(w.objs[i - 1])]
        leaves = [i for i in ids if not is_prod(w.objs[i - 1])]
        isint = self.c.isint
        menu = ['getitem'] * 5 + ['setitem'] * 5 + ['copy', 'asarray', 'wrap', 'wrap', 'assign', 'set_zero', 'lincomb',
                                                   'ibin', 'asarray_out']
        if not isint:
            menu += ['real', 'imag', 'conj', 'setreal', 'setimag', 'conj_out', 'tensor', 'tensor']
        if self.scen in ('P', 'Q'):
            menu += ['pelement'] * 4 + ['pgetitem'] * 4 + ['psetitem'] * 5
        if self.scen == 'L':
            menu += ['lincomb'] * 6 + ['ibin'] * 3 + ['getitem'] * 4
        op = rng.choice(menu)
        if op == 'getitem':
            if self.c.weight == 'array':
                leaves = [i for i in leaves if w.info[i - 1]['ty'] == 'arr']     # x[idx] of array-weighted elements: C20
                if not leaves:
                    return None
            x = rng.choice(leaves)
            return act('getitem', x=x, idx=self.rand_index(np.shape(raw(w.objs[x - 1]))[:-1] + ((w.info[x - 1]['shp'][-1],) if w.info[x - 1]['shp'] else ())))
        if op == 'setitem':
            x = rng.choice(leaves)
            inf = w.info[x - 1]
            if inf['dt'] == 'other' and inf['ty'] == 'arr' and rng.random() < 0.5:
                return None
            idx = self.rand_index(tuple(inf['shp']))
            v = self.rand_value(w.objs[x - 1], idx, inf['cx'], w)
            if v is None:
                return None
            return act('setitem', x=x, idx=idx, v=v)
        if op == 'copy':
            x = rng.choice(elems)
            how = rng.choice(['copy', 'copy.copy'] if is_prod(w.objs[x - 1]) else
                             ['copy', 'copy.copy', 'astype', 'astype_other'])
            if how == 'astype_other' and self.c.weight == 'array':
                how = 'astype'
            return act('copy', x=x, how=how)
        if op == 'asarray':
            x = rng.choice(elems)
            X = w.objs[x - 1]
            if is_prod(X) and not X.space.is_power_space:
                return None
            if is_prod(X) and any(is_prod(p) for p in X.parts):
                return None
            hows = ['asarray', 'np.asarray', 'data', '__array__']
            if not is_prod(X):
                hows += ['np.asarray(dtype=same)', 'np.asarray(dtype=other)']
            return act('asarray', x=x, how=rng.choice(hows))
        if op == 'asarray_out':
            ys = [i for i in leaves if w.info[i - 1].get('whole') and w.info[i - 1]['ty'] == 'arr' and w.info[i - 1]['dt'] == 'same']
            xs = [i for i in leaf_e if w.info[i - 1]['dt'] == 'same']
            rng.shuffle(xs)
            for x in xs:
                for y in ys:
                    if w.info[y - 1]['shp'] == w.info[x - 1]['shp'] and w.info[y - 1]['cx'] == w.info[x - 1]['cx']:
                        return act('asarray_out', x=x, y=y)
            return None
        if op == 'wrap':
            x = rng.choice(leaves)
            inf = w.info[x - 1]
            how = rng.choice(['tensor', 'tensor', 'discr', 'array_wrap', 'data_ptr'])
            if (isint or 0 in inf['shp']) and how == 'discr':
                how = 'tensor'
            if how == 'data_ptr':
                # the pointer of a whole contiguous array of the right dtype; order as the memory is laid out
                if not (inf.get('whole') and inf['dt'] == 'same' and inf['shp'] and 0 not in inf['shp'] and self.c.mult == 1):
                    return None
                order = rng.choice(['C', 'F']) if len(inf['shp']) == 1 else inf['lay']
                return act('wrap', x=x, ord=order, how='data_ptr')
            order = 'N'
            if inf.get('laykn') and rng.random() < 0.5 and self.c.mult == 1:
                order = rng.choice(['C', 'F'])
            if how == 'array_wrap' and (inf['ty'] != 'arr' or inf['dt'] != 'same' or order != 'N'):
                how = 'tensor'
            if not inf['shp']:
                return None
            return act('wrap', x=x, ord=order, how=how)
        if op == 'tensor':
            c = [i for i in leaf_e if w.info[i - 1]['sk'] == 'discr']
            if c and rng.random() < 0.3:
                x = rng.choice([i for i in c])
                if w.info[x - 1]['dt'] != 'same':
                    return None
                v = complex(rng.randrange(2, 9), -rng.randrange(1, 4)) if (w.info[x - 1]['cx'] and rng.random() < 0.5) \
                    else rng.randrange(2, 9)
                return act('sample', x=x, v={'k': 'scalar', 'c': cj(v), 'vals': [], 'o': 0})
            return act('tensor', x=rng.choice(c)) if c else None
        if op in ('real', 'imag', 'conj'):
            return act(op, x=rng.choice(elems))
        if op in ('setreal', 'setimag'):
            x = rng.choice(elems)
            X = w.objs[x - 1]
            r = rng.random()
            base = rng.randrange(20, 60)
            if r < 0.4:
                v = {'k': 'scalar', 'c': cj(base), 'vals': [], 'o': 0}
            elif r < 0.7 and not is_prod(X):
                m = int(np.prod(w.info[x - 1]['shp']))
                v = {'k': 'seq', 'c': CZ, 'vals': [cj(base + k) for k in range(m)], 'o': 0}
            else:
                cands = []
                for o in elems:
                    O = w.objs[o - 1]
                    if bool(O.space.is_complex) or is_prod(O) != is_prod(X):
                        continue
                    if not is_prod(X) and np.shape(raw(O)) == np.shape(raw(X)):
                        cands.append(o)
                    if is_prod(X) and len(O.parts) == len(X.parts) and all(
                            (not is_prod(p)) and (not is_prod(q)) and p.shape == q.shape for p, q in zip(O.parts, X.parts)) \
                            and no_cross(X, O):
                        cands.append(o)
                if not cands:
                    return None
                v = {'k': 'obj', 'c': CZ, 'vals': [], 'o': rng.choice(cands)}
            return act(op, x=x, v=v)
        if op == 'conj_out':
            x = rng.choice(leaf_e)
            ys = [y for y in leaf_e if same_space(w, x, y)]
            return act('conj_out', x=x, y=rng.choice(ys))
        if op in ('assign', 'ibin', 'lincomb'):
            if op != 'assign':
                if self.arith >= 3:
                    return None
            x = rng.choice(elems)
            ys = [y for y in elems if same_space(w, x, y) and no_cross(w.objs[x - 1], w.objs[y - 1])]
            if op == 'assign':
                return act('assign', x=x, y=rng.choice(ys))
            if op == 'ibin':
                how = rng.choice(['add', 'sub', 'mul'])
                if how == 'mul':
                    if self.mul >= 1:
                        how = 'add'
                    else:
                        self.mul += 1
                self.arith += 1
                return act('ibin', x=x, y=rng.choice(ys), how=how)
            self.arith += 1
            sc = [-1, 0, 1, 2, 3]
            return act('lincomb', x=x, y=rng.choice(ys), z=rng.choice(ys), a=cj(rng.choice(sc)), b=cj(rng.choice(sc)))
        if op == 'set_zero':
            return act('set_zero', x=rng.choice(elems))
        if op == 'pelement':
            k = rng.choice([2, 2, 3])
            cx = rng.choice([True, False]) if self.scen == 'Q' else False
            pool = [i for i in elems if bool(w.objs[i - 1].space.is_complex) == cx and
                    (w.info[i - 1]['dt'] == 'same')]
            if len(pool) < k:
                return None
            ps = rng.sample(pool, k)
            for s_ in range(k):
                for t_ in range(s_ + 1, k):
                    if not disjoint(w.objs[ps[s_] - 1], w.objs[ps[t_] - 1]):
                        return None
            if sum(len(leaves_of(w.objs[p - 1])) for p in ps) > 6:
                return None
            return act('pelement', ps=ps)
        if op in ('pgetitem', 'psetitem'):
            if not prods:
                return None
            x = rng.choice(prods)
            X = w.objs[x - 1]
            idx = []
            T = X
            while is_prod(T) and rng.random() < 0.45:
                i = rng.randrange(-len(T.parts), len(T.parts))
                idx.append(I_int(i))
                T = T.parts[i]
            if is_prod(T):
                e = self.rand_axis(len(T.parts), distinct=True, allow_arr=False)
                if e['k'] == 'sl' and len(range(len(T.parts))[slice(None if e['a'] == NONE else e['a'],
                                                                     None if e['b'] == NONE else e['b'], e['s'])]) == 0:
                    return None
                idx.append(e)
            else:
                if rng.random() < 0.3 and idx:
                    pass                                      # z[i, j] addressing the whole leaf part z[i][j]
                else:
                    idx.extend(self.rand_index(np.shape(raw(T))))
                if not idx:
                    return None
            if op == 'pgetitem':
                if self.c.weight == 'array' and not is_prod(T):
                    return None
                how = 'parts' if (len(idx) == 1 and idx[0]['k'] == 'int' and rng.random() < 0.4) else ''
                return act('getitem', x=x, idx=idx, how=how)
            # value
            cx = bool(X.space.is_complex)
            T2, rest = w.descend(X, idx)
            base = rng.randrange(20, 60)
            if not is_prod(T2):
                if T2 is X:
                    return None
                v = self.rand_value(T2, rest, cx, w)
                if v is None:
                    return None
                return act('setitem', x=x, idx=idx, v=v)
            e = rest[0]
            if len(idx) > 1 and e['k'] == 'list':
                return None                # z[i, [..]] = v is not described anywhere
            if e['k'] == 'int':
                sel = [T2.parts[e['a']]]
            elif e['k'] == 'sl':
                sel = list(T2.parts[slice(None if e['a'] == NONE else e['a'], None if e['b'] == NONE else e['b'], e['s'])])
            else:
                sel = [T2.parts[i] for i in e['l']]
            r = rng.random()
            if r < 0.35:
                return act('setitem', x=x, idx=idx, v={'k': 'scalar', 'c': cj(base), 'vals': [], 'o': 0})
            if r < 0.55 and e['k'] != 'int' and len(idx) == 1:
                power = all((not is_prod(p)) and p.space == T2.parts[0].space for p in T2.parts)
                if power and np.shape(raw(T2.parts[0])) == (len(sel),):
                    return None
                return act('setitem', x=x, idx=idx, v={'k': 'perpart', 'c': CZ, 'vals': [cj(base + k) for k in range(len(sel))], 'o': 0})
            if r < 0.75 and e['k'] == 'int' and not is_prod(sel[0]):
                m = int(np.prod(np.shape(raw(sel[0]))))
                return act('setitem', x=x, idx=idx, v={'k': 'seq', 'c': CZ, 'vals': [cj(base + k) for k in range(m)], 'o': 0})
            # an element of the component space (broadcast over the indexed parts of a power space)
            power = all((not is_prod(p)) and p.space == T2.parts[0].space for p in T2.parts)
            if e['k'] != 'int' and not power:
                return None
            cands = []
            for o in elems:
                O = w.objs[o - 1]
                ok = True
                for p in sel:
                    pi = None
                    for t_, q in enumerate(w.objs):
                        if q is p:
                            pi = t_ + 1
                            break
                    if pi is None or not same_space(w, pi, o) or not no_cross(p, O):
                        ok = False
                        break
                if ok and (len(sel) == 1 or all(disjoint(p, O) for p in sel)):
                    cands.append(o)
            if not cands:
                return None
            return act('setitem', x=x, idx=idx, v={'k': 'obj', 'c': CZ, 'vals': [], 'o': rng.choice(cands)})
        return None


def run_episode(tid, seed, scen, concr, length, events, stats):
    """One random history; appends events (dicts).  Returns number of calls."""
    rng = random.Random(seed)
    drv = Driver(rng, scen, concr)
    init = drv.init_state()
    w = World(init, concr, rng)
    for inf, o in zip(w.info, init['objs']):
        inf['whole'] = True
        inf['laykn'] = True
        inf['lay'] = init['bufs'][o['b'] - 1]['lay']
    vals, sh = w.observe()
    events.append({'tid': tid, 'act': act('init'), 'init': init,
                   'obs': {'vals': vals, 'sh': sh, 'ret': {'k': 'none', 'o': 0, 'v': [], 'e': ''}},
                   'meta': {'scen': scen, 'concr': concr.key(), 'seed': seed}})
    ncalls = 0
    tries = 0
    while ncalls < length and tries < length * 12 and len(w.objs) < 10:
        tries += 1
        A = drv.propose(w)
        if A is None:
            continue
        kind, eo = expected_kind(w, A)
        src_inf = w.info[A['x'] - 1] if A['x'] else None
        presig = sig_for('driver:' + scen, A, '?', w)
        ret, payload = run_step(w, A, kind, eo)
        if ret['k'] == 'new':
            ni = w.info[-1]
            # layout knowledge survives documented views of objects whose layout is known
            if src_inf is not None and src_inf.get('laykn') and A['op'] in ('asarray', 'tensor') :
                ni['laykn'] = True
            if src_inf is not None and src_inf.get('laykn') and A['op'] == 'getitem' and \
                    all(e['k'] in ('int', 'sl') for e in A['idx']) and src_inf['k'] == 'leaf':
                ni['laykn'] = True
        vals, sh = w.observe()
        events.append({'tid': tid, 'act': A, 'init': {'bufs': [], 'objs': []}, 'obs': {'vals': vals, 'sh': sh, 'ret': ret},
                       'meta': {'scen': scen, 'sig': presig}})
        stats[A['op']] = stats.get(A['op'], 0) + 1
        ncalls += 1
        if ret['k'] == 'raises':
            break                                  # whatever the verdict, the rest would not be comparable
    return ncalls


def driver_concrs(scen):
    if scen in ('C', 'Q'):
        return [Concr('float64'), Concr('float32', flavour='ts'), Concr('float64', weight=2.0), Concr('float32'),
                Concr('float64', weight='array')]
    if scen == 'D':
        return [Concr('float64'), Concr('float32', flavour='ts'), Concr('float64', flavour='ts'), Concr('float32')]
    if scen == 'L':
        return [Concr('float64', mult=34), Concr('float32', mult=33), Concr('float64', mult=1), Concr('int64', mult=40, flavour='ts'),
                Concr('float64', mult=50, weight=2.0), Concr('float64', mult=16667)]
    return [Concr('float64'), Concr('float32', weight=2.0, flavour='ts'), Concr('int64', flavour='ts'),
            Concr('float64', flavour='ts', exponent=1.0), Concr('float32'), Concr('int32', flavour='ts'),
            Concr('float64', weight='array')]


# ----------------------------------------------------------------------------------------------------------------
# layer C: replay of the transcribed _lincomb_impl cells on real tensors (drift vs layer C, violation vs layer A)
# ----------------------------------------------------------------------------------------------------------------
IMPL_ROWS = {'direct': 1, 'fallback': 60, 'blas': 25000}        # tiles of the 2-entry rows: 2, 120, 50000 entries


def replay_impl_cases(ctx, path):
    seen, n, drift = set(), 0, 0
    with open(path) as f:
        for line in f:
            if not line.strip() or line in seen:
                continue
            seen.add(line)
            c = json.loads(line)
            cs = c['c']
            k = IMPL_ROWS[cs['regime']]
            if cs['regime'] == 'blas' and (n % 4) and not c['precopy'] and ctx.tier == 'quick':
                n += 1
                continue                                        # quick: a quarter of the (long) BLAS cells without pre-copy
            x = odl.rn((2, 2 * k)).element(np.tile(np.array([[1., 2.], [3., 4.]]), (1, k)))
            y = odl.rn(2 * k).element(np.tile(np.array([5., 6.]), k))
            wr = {1: x[0], 2: x[0], 3: x[1], 4: y}
            a, b = cnum(cs['a']), cnum(cs['b'])
            out, x1, x2 = wr[cs['out']['id']], wr[cs['x1']['id']], wr[cs['x2']['id']]
            try:
                out.space.lincomb(a, x1, b, x2, out=out)
                mem = proj_array(x.asarray(), k) + proj_array(y.asarray(), k)
            except Exception as ex:
                mem = 'raised:' + type(ex).__name__
            n += 1
            ctx.count(['views-impl', cs], c['impl'] != MEM0)
            if mem != c['ref']:
                sig = {'stage': 'views', 'op': 'lincomb', 'clause': 'value' if not isinstance(mem, str) else 'raised',
                       'target': 'tensor', 'idx': 'none', 'value': 'none', 'how': '',
                       'alias': 'shared-not-identical' if c['precopy'] else 'identity-or-disjoint',
                       'size': {'direct': 'small', 'fallback': 'medium', 'blas': 'large'}[cs['regime']]}
                ctx.violation(sig, {'stage_module': 'views', 'kind': 'impl-cell', 'case': cs, 'reference': c['ref'],
                                    'observed': mem, 'rows_of': 2 * k})
            if mem != c['impl']:
                drift += 1
                ctx.drift_note('views: _lincomb_impl cell %s (%s) real result differs from the transcription ViewImpl' % (
                    c['leaf'], cs['regime']))
    ctx.extra['views_impl_cells_replayed'] = n
    ctx.extra['views_impl_drift'] = drift
    return n


MEM0 = [[[i, 1], [0, 1]] for i in range(1, 7)]
ILLEGAL = []


def replay_setimpl_cases(ctx, path):
    """Cells of the transcribed ProductSpaceElement.__setitem__ on real elements: real vs reference (violation) and real
    vs transcription (drift)."""
    seen, n, drift = set(), 0, 0
    concs = [Concr('float64'), Concr('float32', flavour='ts'), Concr('int64', flavour='ts')]
    with open(path) as f:
        for line in f:
            if not line.strip() or line in seen:
                continue
            seen.add(line)
            c = json.loads(line)
            A = c['act']
            for ci, concr in enumerate(concs if ctx.tier != 'quick' else concs[:2]):
                w = World(c['init'], concr, random.Random(ctx.seed * 7919 + n))
                for pid in sorted(c['prods'], key=int):
                    ret, _ = run_step(w, act('pelement', ps=c['prods'][pid]), 'new', 0)
                    if ret['k'] != 'new' or len(w.objs) != int(pid):
                        raise MachineryError('views: could not build the product objects of a ViewSetImpl case')
                presig = sig_for('setimpl', A, 'value', w)
                ret, _ = run_step(w, A, 'none', 0)
                vals, _sh = w.observe()
                n += 1
                ctx.count(['views-setimpl', A, ci], True)
                if ret['k'] == 'raises' or vals != c['ref']:
                    presig['clause'] = 'raised' if ret['k'] == 'raises' else 'value'
                    ctx.violation(presig, {'stage_module': 'views', 'profile': 'setimpl', 'concr': concr.key(), 'rng_seed': 0,
                                           'init': c['init'],
                                           'hist': [act('pelement', ps=c['prods'][pid]) for pid in sorted(c['prods'], key=int)] + [A],
                                           'failed_step': len(c['prods']) + 1, 'clauses': [presig['clause']],
                                           'expected': {'vals': c['ref'], 'sh': [], 'ret': RET_NONE},
                                           'observed': {'vals': vals, 'sh': [], 'ret': ret}})
                real_raises = ret['k'] == 'raises'
                if real_raises != bool(c['impl_raises']) or (not real_raises and vals != c['impl']):
                    drift += 1
                    ctx.drift_note('views: ProductSpaceElement.__setitem__ cell idx=%s value=%s: real result differs from the '
                                   'transcription ViewSetImpl' % (idx_class(A['idx']), A['v']['k']))
    ctx.extra['views_setimpl_cells_replayed'] = n
    ctx.extra['views_setimpl_drift'] = drift
    return n


# ----------------------------------------------------------------------------------------------------------------
# trace validation
# ----------------------------------------------------------------------------------------------------------------
def validate_events(ctx, events, label):
    """Chunks at episode boundaries (<= 6000 events), TLC Trace_View on every chunk, FAIL lines -> violations."""
    chunks, cur = [], []
    for ep in events:
        if cur and len(cur) + len(ep) > 6000:
            chunks.append(cur)
            cur = []
        cur.extend(ep)
    if cur:
        chunks.append(cur)
    paths = []
    gid = 0
    tid = 0
    for ci, ch in enumerate(chunks):
        pth = os.path.join(ctx.work, 'views_trace_%s_%d.ndjson' % (label, ci))
        with open(pth, 'w') as f:
            for e in ch:
                gid += 1
                if e['act']['op'] == 'init':
                    tid += 1
                e['id'], e['tid'] = gid, tid
                f.write(json.dumps({k: v for k, v in e.items() if k != 'meta'}) + '\n')
        paths.append(pth)

    def job(pth):
        return run_tlc('Trace_View.tla', 'Trace_View.cfg', ctx.work, env={'TRACE_FILE': pth}, workers=1, timeout=1200)
    with ThreadPoolExecutor(max_workers=6) as ex:
        results = list(ex.map(job, paths))
    byid = {}
    for ch in chunks:
        for e in ch:
            byid[e['id']] = e
    nfail = 0
    for ci, res in enumerate(results):
        ctx.add_tlc('views-trace-%s-%d' % (label, ci), res)
        for ln, eid, cl in parse_fails(res.output):
            e = byid.get(eid)
            if e is None:
                raise MachineryError('views: trace FAIL for unknown event id %d' % eid)
            import re as _re
            clauses = _re.findall(r'<<\s*"([\w-]+)"', cl)
            if any(c.startswith('init-') for c in clauses):
                raise MachineryError('views: trace specification rejected the initial heap of the DRIVER (%s) at event %d' % (
                    clauses, eid))
            if 'illegal-action' in clauses:
                # the driver chose an action that the model does not admit: on a tree without violations a driver bug,
                # otherwise the consequence of an earlier divergence between the real heap and the model
                ILLEGAL.append('event %d: %s' % (eid, dumps(e['act'])[:300]))
                continue
            nfail += 1
            order = ['raised', 'not-raised', 'raised-type', 'ret-kind', 'ret-identity', 'ret-value', 'heap-size', 'value', 'sharing']
            first = sorted(clauses, key=lambda c: order.index(c) if c in order else 99)[0]
            sig = dict(e['meta'].get('sig') or {'stage': 'views', 'op': e['act']['op']})
            sig['clause'] = first
            episode = [x for x in byid.values() if x['tid'] == e['tid'] and x['id'] <= eid]
            episode.sort(key=lambda x: x['id'])
            ctx.violation(sig, {'stage_module': 'views', 'kind': 'trace', 'clauses': clauses,
                                'concr': episode[0]['meta'].get('concr'), 'scenario': episode[0]['meta'].get('scen') or
                                episode[0]['meta'].get('profile'), 'init': episode[0]['init'],
                                'hist': [x['act'] for x in episode[1:]], 'observed': e['obs']})
    n = sum(len(ch) for ch in chunks)
    ctx.traces += tid
    return n, nfail


def corrupted_event_selftest(ctx):
    """One short episode, once as recorded and once with one value of its first call changed: Trace_View has to reject
    the changed event (and not the recorded one)."""
    events, stats = [], {}
    run_episode(1, 12345, 'T', Concr('float64'), 4, events, stats)
    for i, e in enumerate(events):
        e['id'], e['tid'] = i + 1, 1
    tgt = events[1]
    bad = json.loads(json.dumps(tgt))
    bad['obs']['vals'][0][0] = [[bad['obs']['vals'][0][0][0][0] + 1, 1], [0, 1]]
    out = []
    for which, evs in (('clean', events), ('corrupt', [bad if e is tgt else e for e in events])):
        pth = os.path.join(ctx.work, 'views_selftest_%s.ndjson' % which)
        with open(pth, 'w') as f:
            for e in evs:
                f.write(json.dumps({k: v for k, v in e.items() if k != 'meta'}) + '\n')
        out.append((which, pth, tgt['id']))
    return out


# ----------------------------------------------------------------------------------------------------------------
# the stage
# ----------------------------------------------------------------------------------------------------------------
def run_stage(ctx):
    import multiprocessing as mp
    t0 = time.time()
    del ILLEGAL[:]
    quick = ctx.tier == 'quick'
    wide = '0' if quick else '1'
    exports = {p: os.path.join(ctx.work, 'views_%s.ndjson' % p) for p in PROFILES}
    impl_out = os.path.join(ctx.work, 'views_impl.ndjson')
    setimpl_out = os.path.join(ctx.work, 'views_setimpl.ndjson')
    selftest = corrupted_event_selftest(ctx)

    def tlc_job(job):
        kind = job[0]
        if kind == 'profile':
            p = job[1]
            return job, run_tlc('MC_View.tla', 'MC_View_export.cfg', ctx.work,
                                env={'OUT_FILE': exports[p], 'VW_PROFILE': p, 'VW_WIDE': wide}, workers=1, timeout=2400)
        if kind == 'laws':
            return job, run_tlc('MC_ViewLaws.tla', 'MC_ViewLaws.cfg', ctx.work, workers=2, timeout=600)
        if kind == 'impl':
            return job, run_tlc('MC_ViewImpl.tla', 'MC_ViewImpl.cfg', ctx.work, env={'OUT_FILE': impl_out, 'VW_PRECOPY': '1'},
                                workers=1, timeout=600)
        if kind == 'impl-without-precopy':          # the structure before 5a087e3: TLC has to find the counter-example
            return job, run_tlc('MC_ViewImpl.tla', 'MC_ViewImpl.cfg', ctx.work,
                                env={'OUT_FILE': os.path.join(ctx.work, 'views_unused1.ndjson'), 'VW_PRECOPY': '0'},
                                workers=1, timeout=600)
        if kind == 'setimpl':
            return job, run_tlc('MC_ViewSetImpl.tla', 'MC_ViewSetImpl.cfg', ctx.work,
                                env={'OUT_FILE': setimpl_out, 'VW_EMPTYWHOLE': '1'}, workers=1, timeout=600)
        if kind == 'setimpl-empty-index-returns':   # the structure before 728d232
            return job, run_tlc('MC_ViewSetImpl.tla', 'MC_ViewSetImpl.cfg', ctx.work,
                                env={'OUT_FILE': os.path.join(ctx.work, 'views_unused2.ndjson'), 'VW_EMPTYWHOLE': '0'},
                                workers=1, timeout=600)
        if kind == 'bogus':
            return job, run_tlc('MC_View.tla', 'MC_View_bogus.cfg', ctx.work,
                                env={'OUT_FILE': os.path.join(ctx.work, 'views_unused.ndjson'), 'VW_PROFILE': 'SI', 'VW_WIDE': '0'},
                                workers=1, timeout=600)
        if kind == 'selftest':
            return job, run_tlc('Trace_View.tla', 'Trace_View.cfg', ctx.work, env={'TRACE_FILE': job[2]}, workers=1, timeout=600)
        raise MachineryError('views: unknown TLC job %r' % (job,))

    # big profiles first so that the pool drains evenly
    order = ['T2', 'T1', 'PS', 'DS', 'CX', 'LC', 'Z0', 'SI', 'PN']
    jobs = [('profile', p) for p in order] + [('laws',), ('impl',), ('impl-without-precopy',), ('setimpl',), ('setimpl-empty-index-returns',), ('bogus',)] + \
           [('selftest', which, pth, tid) for which, pth, tid in selftest]
    pool = ThreadPoolExecutor(max_workers=8 if quick else 6)
    futs = [pool.submit(tlc_job, j) for j in jobs]

    # meanwhile: the random histories on real ODL (code -> spec)
    nep = 700 if quick else 7000
    scens = ['T', 'C', 'D', 'P', 'Q', 'L']
    episodes, stats = [], {}
    for k in range(nep):
        sc = scens[k % len(scens)]
        cs = driver_concrs(sc)
        c = cs[(k // len(scens) + ctx.seed) % len(cs)]
        if c.mult > 1000 and quick and (k // len(scens)) % 4:
            c = cs[0]
        if len(c._sp) > 200:
            c._sp = {}
        ev = []
        run_episode(k + 1, ctx.seed * 100003 + k, sc, c, 10 if quick else 12, ev, stats)
        episodes.append(ev)
    ctx.extra['views_driver_calls'] = dict(sorted(stats.items()))
    ctx.extra['views_driver_wall_s'] = round(time.time() - t0, 1)

    results = [f.result() for f in futs]
    pool.shutdown()
    selfres = {}
    for job, res in results:
        name = 'views-' + '-'.join(str(x) for x in job[:2] if not str(x).startswith('/'))
        if job[0] in ('impl-without-precopy', 'setimpl-empty-index-returns', 'bogus'):
            ctx.add_tlc(name, res, expect='any')
            if res.status != 'counterexample':
                raise MachineryError('views: %s should produce a counter-example (vacuity self-test), got %s' % (name, res.status))
        elif job[0] == 'selftest':
            ctx.add_tlc(name, res)
            selfres[job[1]] = [f[1] for f in parse_fails(res.output)]
        else:
            ctx.add_tlc(name, res)
    tgt_id = selftest[0][2]
    if tgt_id in selfres['clean']:
        ctx.skip('views: trace self-test not conclusive (the recorded event is rejected on this tree)')
    elif tgt_id not in selfres['corrupt']:
        raise MachineryError('views: corrupted event %d not rejected by Trace_View (FAIL ids: %r)' % (tgt_id, selfres['corrupt']))
    ctx.extra['views_tlc_wall_s'] = round(time.time() - t0, 1)

    # spec -> code: replay every exported behaviour
    ncon = 2 if quick else 3
    rec_every = 20 if quick else 100
    chunks = []
    nbeh = {}
    for p in PROFILES:
        init, n = read_export(exports[p])
        nbeh[p] = n
        if n < 50:
            raise MachineryError('views: export of profile %s too small (%d behaviours)' % (p, n))
        size = 1500 if p != 'LC' else 400
        for lo in range(0, n, size):
            chunks.append((p, exports[p], init, lo, min(lo + size, n), ncon, ctx.tier, ctx.seed, rec_every))
    chunks.sort(key=lambda c: (c[0] != 'LC', c[3]))
    nproc = min(12, max(2, (os.cpu_count() or 4) - 2))
    with mp.get_context('fork').Pool(nproc) as mpool:
        outs = mpool.map(_replay_chunk, chunks, chunksize=1)
    replayed = 0
    fam_count = {}
    rec_events = []
    ops = {}
    for ch, o in zip(chunks, outs):
        replayed += o['n']
        ctx.evaluations += o['steps']
        for k, v in o['ops'].items():
            ops[k] = ops.get(k, 0) + v
        for ln in range(ch[3], ch[4]):
            ctx.count(['views', ch[0], ln], True, n=0)
        rec_events.extend(o['events'])
        for sig, detail in o['viol']:
            key = dumps(sig, sort_keys=True)
            fam_count[key] = fam_count.get(key, 0) + 1
            if fam_count[key] <= 3:
                ctx.violation(sig, detail)
            else:
                ctx.violation(sig, {'stage_module': 'views', 'note': 'further case of this family', 'profile': detail['profile'],
                                    'concr': detail['concr'], 'init': detail['init'], 'hist': detail['hist'],
                                    'rng_seed': detail['rng_seed'], 'failed_step': detail['failed_step'],
                                    'expected': detail['expected'], 'observed': detail['observed']}) \
                    if fam_count[key] <= 12 else None
    ctx.traces += replayed
    ctx.extra['views_behaviours'] = nbeh
    ctx.extra['views_replays'] = replayed
    ctx.extra['views_replayed_calls_by_op'] = dict(sorted(ops.items()))
    ctx.extra['views_replay_wall_s'] = round(time.time() - t0, 1)
    ctx.sample({'profile': chunks[0][0], 'behaviour_0': 'see spec/cfg/MC_View.tla', 'concretisations': ncon})

    # layer C cells on real tensors
    replay_impl_cases(ctx, impl_out)
    replay_setimpl_cases(ctx, setimpl_out)

    # code -> spec: driver episodes and a sample of the replays, validated by Trace_View
    n1, f1 = validate_events(ctx, episodes, 'driver')
    n2, f2 = validate_events(ctx, rec_events, 'replay')
    if ILLEGAL:
        if not ctx.violations and not ctx.known_hits:
            raise MachineryError('views: trace specification rejected the DRIVER (illegal action): %s' % ILLEGAL[0])
        ctx.skip('views: %d driver actions were not admitted by the model after the real heap had diverged from it '
                 '(see the violations)' % len(ILLEGAL))
    ctx.evaluations += n1
    ctx.extra['views_trace_events'] = {'driver': n1, 'replay_sample': n2, 'rejected': f1 + f2}
    ctx.extra['views_wall_s'] = round(time.time() - t0, 1)
    if os.environ.get('VERIF_VIEWS_DEBUG'):
        with open(os.environ['VERIF_VIEWS_DEBUG'], 'w') as f:
            f.write(dumps({'extra': ctx.extra, 'tlc': ctx.tlc_runs, 'evaluations': ctx.evaluations, 'traces': ctx.traces,
                           'nontrivial': len(ctx.nontrivial), 'violations': [v[0] for v in ctx.violations],
                           'known': ctx.known_hits, 'drift': ctx.drift[:5]}, indent=1))
    ctx.assumptions += [
        'views: sharing is decided only where a docstring / guide / release note states it (ViewSem header); results of '
        'tensor real/imag getters, conj() without out, discretised x[idx], product z[[i, j]], product asarray/real/imag '
        'are checked by VALUE at the time of the call only',
        'views: ProductSpaceElement z[i] / z.parts[i] / z[a:b] hand out the components themselves (documented through '
        '`parts`, ProductSpace.element and the library-wide use of z[i] as an out= argument)',
        'views: operations are specified from the pre-state (NumPy: right-hand side first); overlapping source and '
        'target of an advanced-index assignment, crosswise overlap between product operands, per-part lists that could '
        'also be read as one component, lists / per-part lists at the end of a tuple index of a product, 1-tuple indices '
        'of products and BLAS on shifted overlaps are left unspecified and never generated',
        'views: product spaces are unweighted with exponent 2 (slicing a product SPACE is the subject of C20); integer dtypes '
        'skip real/imag/conj (real_space is undefined there)']
    return replayed


def replay(body):
    """./vcheck replay <file>: re-run the recorded history and show the failing step."""
    d = body['detail']
    if d.get('kind') == 'impl-cell':
        print('impl cell: re-run VERIF_EXT=views ./vcheck EXT --tier quick (case: %s)' % dumps(d['case'])[:300])
        return 0
    ck = d['concr']
    c = Concr(ck['dtype'], weight=ck['weight'], flavour=ck['flavour'], mult=ck['mult'], exponent=ck['exponent'])
    w = World(d['init'], c, random.Random(d.get('rng_seed', 0)))
    ret = None
    for i, A in enumerate(d['hist']):
        kind, eo = expected_kind(w, A)
        ret, _ = run_step(w, A, kind, eo)
    vals, sh = w.observe()
    print('history of %d calls re-executed; observed after the last call:' % len(d['hist']))
    print('  ret  ', dumps(ret))
    print('  vals ', dumps([[v[0][0] if v[1][0] == 0 else v for v in vs] for vs in vals]))
    print('  share', dumps(sh))
    if 'expected' in d:
        e = d['expected']
        print('expected by ViewSem:')
        print('  ret  ', dumps(e['ret']))
        print('  vals ', dumps([[v[0][0] if v[1][0] == 0 else v for v in vs] for vs in e['vals']]))
        print('  share', dumps(e['sh']))
        bad = compare(e, vals, sh, ret if e['ret']['k'] != 'new' else dict(ret, k='new', o=e['ret']['o']) if ret['k'] == 'new' else ret)
        print('differs in:', bad)
        return 1 if bad else 0
    print('observed at record time:', dumps(d.get('observed'))[:600])
    return 1

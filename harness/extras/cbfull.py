"""EXT stage "cbfull": the complete callback library odl/solvers/util/callback.py as a family of small state machines.

Specification: spec/sem/CbFullSem.tla (layer A: the documented observable of every callback class as a function of the
history of Call(v) / Reset), spec/mach/CbFullMachine.tla (layer B: incremental machine + laws), spec/impl/CbFullImpl.tla
(layer C: the `iter` counters / `step` tests / reset bodies as written), spec/trace/Trace_CbFull.tla (layer D).

  1. TLC: laws of the reference (MC_CbFull_laws), a deliberately wrong reading refuted (MC_CbFull_bogus), layer C refines
     layer A (MC_CbFullImpl_refines) and the pinned quirk of the code as written (MC_CbFullImpl_quirk).
  2. spec -> code: every state exported by MC_CbFull_export (3 parallel parts) is executed on ONE real callback object
     built through the public API (constructor spellings, & and *, iterate kinds are chosen per case) and everything
     observable is projected: counters, stored results (after the iterate object was overwritten - copies), the
     caller-owned list, printed lines / function calls / show calls on ONE shared channel (order!), files on disk.
     Observations that are not literally the exported expectation are handed to Trace_CbFull: TLC decides.
  3. code -> spec: drivers beyond the TLC constants (steps up to 7, histories up to 14, depth 3, other values, numpy
     scalar / positional spellings, print / save kwargs, element / ndarray / list / scalar iterates in float32 / complex /
     int / large sizes, weighted spaces, five kinds of composed operators, eval(repr(cb)) copies, ONE object shared by
     several compositions and addressed through all of them, real `show` with the Agg backend, naps and CallbackSleep
     leaves for the timing bounds) record events which Trace_CbFull validates; one corrupted copy of an accepted event
     must be rejected.
The iterate is ONE object overwritten in place before every call (as solvers do) and once more after the last call, so
that anything stored / saved / printed must have been copied / written at the time of the call.
"""
import contextlib
import copy
import io
import json
import os
import pickle
import random
import re
import shutil
import sys
import time
import warnings
from concurrent.futures import ThreadPoolExecutor

import numpy as np

import odl

from ..tlc import run_tlc, parse_fails
from ..common import MachineryError, dumps

STANDALONE = True
STAGE = 'cbfull'
OFF = -99
CORRUPT_ID = 999999

CLASS_OF = {'store': 'CallbackStore', 'apply': 'CallbackApply', 'raw': 'callable', 'printiter': 'CallbackPrintIteration',
            'print': 'CallbackPrint', 'printnorm': 'CallbackPrintNorm', 'timing': 'CallbackPrintTiming',
            'save': 'CallbackSaveToDisk', 'sleep': 'CallbackSleep', 'show': 'CallbackShow',
            'showconv': 'CallbackShowConvergence', 'progress': 'CallbackProgressBar'}
COUNTER_KINDS = {'store', 'apply', 'printiter', 'print', 'timing', 'save', 'show', 'showconv', 'progress'}

try:
    import tqdm as _tqdm                    # noqa: F401
    HAVE_TQDM = True
except Exception:
    HAVE_TQDM = False
try:
    import psutil as _psutil                # noqa: F401
    HAVE_PSUTIL = True
except Exception:
    HAVE_PSUTIL = False


# ------------------------------------------------------------------ expressions
def Lf(k, s=1, o=''):
    return {'k': k, 'step': s, 'opt': o, 'l': [], 'r': []}


def And(a, b):
    return {'k': 'and', 'step': 0, 'opt': '', 'l': a, 'r': b}


def Comp(a):
    return {'k': 'compose', 'step': 0, 'opt': '', 'l': a, 'r': []}


def leaves(e, scale=1):
    if e['k'] == 'and':
        return leaves(e['l'], scale) + leaves(e['r'], scale)
    if e['k'] == 'compose':
        return leaves(e['l'], scale * 10)
    return [(e, scale)]


def shape_ctx(e):
    if e['k'] not in ('and', 'compose'):
        return 'leaf'
    sub = [e['l']] + ([e['r']] if e['k'] == 'and' else [])
    if any(s['k'] in ('and', 'compose') for s in sub):
        return 'nested'
    return e['k']


# ------------------------------------------------------------------ iterates
class FakeX(object):
    """Duck-typed iterate for CallbackShow: has `space` and `show`; everything else a callback may touch as well."""
    space = 'fake-space'

    def __init__(self, v, chan=None):
        self.v = v
        self.chan = chan

    def show(self, title=None, **kwargs):
        self.chan.emit(('show', title, kwargs.get('saveto', None), self.v, sorted(k for k in kwargs)))
        return 'fig'

    def __rmul__(self, a):
        return FakeX(a * self.v, self.chan)

    __mul__ = __rmul__

    def norm(self):
        return float(abs(self.v))

    def copy(self):
        return FakeX(self.v, self.chan)

    def __array__(self, dtype=None, copy=None):
        return np.array([float(self.v), 0.0])

    def __repr__(self):
        return 'FakeX(%r)' % (self.v,)


class Conc(object):
    """Concretisation of the abstract iterate values: kind of object, size, dtype, weighting."""

    def __init__(self, kind, n=3, dtype='float64', weight=None):
        self.kind, self.n, self.dtype, self.weight = kind, n, dtype, weight
        self.space = None
        self.normfac = 1.0
        if kind in ('element', 'list'):
            kw = {} if weight is None else {'weighting': weight}
            if dtype.startswith('complex'):
                self.space = odl.cn(n, dtype=dtype, **kw)
            else:
                self.space = odl.tensor_space(n, dtype=dtype, **kw)
            if weight is not None:
                self.normfac = float(np.sqrt(weight))
        self.pattern = np.zeros(n, dtype='int64' if dtype == 'pyint' else dtype)
        if n:
            self.pattern[0] = 1

    def desc(self):
        return {'kind': self.kind, 'n': self.n, 'dtype': self.dtype, 'weight': self.weight}

    def make(self, v, chan=None):
        if self.kind == 'fake':
            return FakeX(v, chan)
        if self.kind == 'scalar':
            return np.dtype(self.dtype).type(v) if self.dtype != 'pyint' else int(v)
        arr = (self.pattern * v).astype(self.dtype)
        if self.kind == 'ndarray':
            return arr
        if self.kind == 'list':
            return arr.tolist()
        return self.space.element(arr)

    def forms(self, v, chan=None):
        """the objects a leaf may legitimately receive for the abstract value v (a list turns into an element / array
        when it has passed an operator / a numpy function)"""
        out = [self.make(v, chan)]
        if self.kind == 'list':
            arr = (self.pattern * v).astype(self.dtype)
            out += [self.space.element(arr), arr]
        return out

    def assign(self, x, v, chan=None):
        """overwrite the iterate object in place (as solvers do); scalars are immutable: a new one"""
        if self.kind == 'fake':
            x.v = v
            return x
        if self.kind == 'scalar':
            return self.make(v)
        x[:] = (self.pattern * v).astype(self.dtype).tolist() if self.kind == 'list' else (self.pattern * v).astype(self.dtype)
        return x

    def add1(self, x):
        if self.kind == 'fake':
            return FakeX(x.v + 1, x.chan)
        if self.kind == 'scalar':
            return x + 1
        if self.kind == 'ndarray':
            return x + self.pattern
        if self.kind == 'list':
            return (np.asarray(x) + self.pattern).tolist() if isinstance(x, list) else x + self.pattern
        return x + x.space.element(self.pattern)

    def proj(self, x):
        """abstract value of a concrete object, OFF when it is not of the expected form"""
        try:
            if isinstance(x, FakeX):
                return int(x.v)
            a = np.asarray(x)
            if self.kind == 'scalar':
                if a.shape != ():
                    return OFF
                z = complex(a)
            else:
                if a.shape != (self.n,):
                    return OFF
                if self.n > 1 and np.any(a[1:] != 0):
                    return OFF
                z = complex(a[0])
            if z.imag != 0 or z.real != round(z.real) or abs(z.real) > 10 ** 8:
                return OFF
            return int(round(z.real))
        except Exception:
            return OFF


def conc_pool(shape, rnd, thorough=False):
    """concretisations admissible for a shape"""
    kinds = set(lf['k'] for lf, _ in leaves(shape))
    opts = set(lf['opt'] for lf, _ in leaves(shape))
    if 'show' in kinds:
        return [Conc('fake', 2)]
    pool = [Conc('element', 3, 'float64'), Conc('element', 2, 'float32'), Conc('element', 1, 'float64'),
            Conc('element', 3, 'int64'), Conc('element', 120, 'float64'), Conc('element', 2, 'float64', 4.0)]
    if not any(o.startswith('txt') for o in opts):
        pool.append(Conc('element', 2, 'complex128'))
    if 'printnorm' not in kinds:
        pool += [Conc('ndarray', 3, 'float64'), Conc('ndarray', 2, 'int32'), Conc('list', 3, 'float64'), Conc('list', 2, 'int64')]
        if not any(o.startswith('txt') for o in opts):
            pool += [Conc('scalar', 0, 'float64'), Conc('scalar', 0, 'pyint')]
    return pool


# ------------------------------------------------------------------ the shared channel
class Channel(object):
    """Everything the callbacks emit (stdout lines, calls of user functions, show calls) in the order it happens."""

    def __init__(self):
        self.j = 0
        self.items = []
        self._buf = ''

    def emit(self, item):
        self.items.append((self.j, item))

    # file protocol (stdout redirection / print(file=...))
    def write(self, s):
        # print() writes the text and then `end` in separate calls: one item per print, inner line breaks are kept
        self._buf += s
        if s.endswith('\n'):
            self.items.append((self.j, ('line', self._buf[:-1])))
            self._buf = ''
        return len(s)

    def flush(self):
        pass


class Probe(object):
    """Builds the real callback for an expression (one spelling per leaf chosen by `rnd`) and observes it."""

    def __init__(self, shape, conc, rnd, workdir, via='direct'):
        self.shape, self.conc, self.rnd, self.dir, self.via = shape, conc, rnd, workdir, via
        self.chan = Channel()
        self.info = []                 # per leaf: dict(kind, opt, step, scale, cb, ...)
        kinds = [lf['k'] for lf, _ in leaves(shape)]
        self.unique = {k: kinds.count(k) == 1 for k in kinds}
        self.spell = []
        self.root = self._build(shape, 1)

    # -- leaves
    def _step(self, s):
        c = self.rnd.randrange(4)
        return [s, s, np.int64(s), np.int32(s)][c]

    def _leaf(self, e, scale):
        S = odl.solvers
        i = len(self.info) + 1
        k, s, o = e['k'], e['step'], e['opt']
        rec = {'i': i, 'k': k, 'opt': o, 'step': s, 'scale': scale, 'cb': None}
        self.info.append(rec)
        conc, chan, rnd = self.conc, self.chan, self.rnd
        st = self._step(s)
        how = rnd.randrange(3)
        rec['how'] = how
        if k == 'store':
            if o == 'own':
                cb = [lambda: S.CallbackStore(step=st), lambda: S.CallbackStore(None, None, st),
                      lambda: (S.CallbackStore() if s == 1 else S.CallbackStore(results=None, step=st))][how]()
            elif o == 'caller':
                rec['lst'] = lst = []
                cb = [lambda: S.CallbackStore(results=lst, step=st), lambda: S.CallbackStore(lst, None, st),
                      lambda: S.CallbackStore(lst, step=st)][how]()
            else:
                with warnings.catch_warnings():
                    warnings.simplefilter('ignore')
                    cb = [lambda: S.CallbackStore(function=conc.add1, step=st), lambda: S.CallbackStore(None, conc.add1, st),
                          lambda: S.CallbackStore([], conc.add1, step=st)][how]()
        elif k in ('apply', 'raw'):
            def fn(x, i=i):
                chan.emit(('fn', i, conc.proj(x)))
            if k == 'raw':
                rec['cb'] = None
                return fn
            cb = [lambda: S.CallbackApply(fn, step=st), lambda: S.CallbackApply(fn, st),
                  lambda: (S.CallbackApply(fn) if s == 1 else S.CallbackApply(function=fn, step=st))][how]()
        elif k == 'printiter':
            kw = {}
            rec['end'] = ''
            if how == 2 and self.via == 'direct':
                kw = {'end': ';\n'}
                rec['end'] = ';'
            if self.unique[k] and rnd.randrange(3) == 0:
                rec['fmt'] = 'iter = {}'
                cb = S.CallbackPrintIteration(step=st, **kw)
            else:
                rec['fmt'] = 'I%d|{}' % i
                cb = [lambda: S.CallbackPrintIteration(fmt=rec['fmt'], step=st, **kw),
                      lambda: S.CallbackPrintIteration(rec['fmt'], st, **kw),
                      lambda: S.CallbackPrintIteration(rec['fmt'], step=st, **kw)][how]()
        elif k == 'print':
            kw = {}
            rec['end'] = ''
            if how == 1 and self.via == 'direct':
                kw = [{'file': chan}, {'end': ';\n'}, {'file': chan, 'end': ';\n'}][rnd.randrange(3)]
                rec['end'] = ';' if 'end' in kw else ''
            rec['fmt'] = ['P%d|{}' % i, 'P%d|{!r}' % i, 'P%d|{0}' % i][rnd.randrange(3)]
            with warnings.catch_warnings():
                warnings.simplefilter('ignore')
                if o == 'func':
                    cb = [lambda: S.CallbackPrint(func=conc.add1, fmt=rec['fmt'], step=st, **kw),
                          lambda: S.CallbackPrint(conc.add1, rec['fmt'], st, **kw),
                          lambda: S.CallbackPrint(conc.add1, fmt=rec['fmt'], step=st, **kw)][how]()
                elif self.unique[k] and rnd.randrange(4) == 0:
                    rec['fmt'] = '{!r}'
                    cb = S.CallbackPrint(step=st, **kw)
                else:
                    cb = [lambda: S.CallbackPrint(fmt=rec['fmt'], step=st, **kw), lambda: S.CallbackPrint(None, rec['fmt'], st, **kw),
                          lambda: S.CallbackPrint(None, rec['fmt'], step=st, **kw)][how]()
        elif k == 'printnorm':
            cb = S.CallbackPrintNorm()
        elif k == 'timing':
            cum = (o == 'cum')
            kw = {}
            rec['end'] = ''
            if self.via == 'direct' and rnd.randrange(3) == 0:
                kw = [{'end': ';\n'}, {'file': chan}, {'end': ';\n', 'file': chan}][rnd.randrange(3)]
                rec['end'] = ';' if 'end' in kw else ''
            if self.unique[k] and rnd.randrange(3) == 0:
                rec['fmt'] = 'Time elapsed = {:<5.03f} s'
                cb = S.CallbackPrintTiming(step=st, cumulative=cum, **kw)
            else:
                rec['fmt'] = 'T%d|{:.6f}' % i
                cb = [lambda: S.CallbackPrintTiming(fmt=rec['fmt'], step=st, cumulative=cum, **kw),
                      lambda: S.CallbackPrintTiming(rec['fmt'], st, cum, **kw),
                      lambda: (S.CallbackPrintTiming(rec['fmt'], step=st, cumulative=True, **kw) if cum
                               else S.CallbackPrintTiming(rec['fmt'], step=st, **kw))][how]()
        elif k == 'save':
            impl, pat = o.split(':')
            impl = {'pickle': 'pickle', 'numpy': 'numpy', 'txt': 'numpy_txt'}[impl]
            sub = self.dir if how != 2 else os.path.join(self.dir, 'sub%d' % i)      # how 2: directory does not exist yet
            rec['dir'] = sub
            rec['pat'] = os.path.join(sub, ('L%d_{}' % i) if pat == 'idx' else ('L%d_fix' % i))
            kw = {}
            if how == 1 and self.via == 'direct':
                kw = {'pickle': {'protocol': 2}, 'numpy': {'allow_pickle': False},
                      'numpy_txt': {'delimiter': ',', 'header': 'hdr%d' % i}}[impl]
            rec['kw'] = kw
            rec['impl'] = impl
            if impl == 'pickle' and how == 0 and s == 1:
                cb = S.CallbackSaveToDisk(rec['pat'])
            else:
                cb = [lambda: S.CallbackSaveToDisk(saveto=rec['pat'], step=st, impl=impl, **kw),
                      lambda: S.CallbackSaveToDisk(rec['pat'], st, impl, **kw),
                      lambda: S.CallbackSaveToDisk(rec['pat'], step=st, impl=impl, **kw)][how]()
        elif k == 'sleep':
            if o == 'ms20':
                cb = [lambda: S.CallbackSleep(0.02), lambda: S.CallbackSleep(seconds=0.02), lambda: S.CallbackSleep(np.float64(0.02))][how]()
            else:
                cb = [lambda: S.CallbackSleep(0), lambda: S.CallbackSleep(seconds=0.0), lambda: S.CallbackSleep(0.0005)][how]()
        elif k == 'show':
            kw = {}
            if self.unique[k] and how == 0:
                rec['title'] = 'Iterate {}'
            else:
                rec['title'] = 'W%d|{}' % i
                kw['title'] = rec['title']
            if o == 'saveto':
                kw['saveto'] = 'S%d_{}.png' % i
            elif o == 'savefn':
                kw['saveto'] = lambda it, i=i: 'S%d_%d.png' % (i, it)
            if how == 1:
                kw['clim'] = [0, 1]
            rec['showkw'] = sorted(set(kw) - {'title', 'saveto'})
            if 'title' in kw and how == 2:
                t = kw.pop('title')
                cb = S.CallbackShow(t, st, **kw)
            else:
                cb = S.CallbackShow(step=st, **kw)
        elif k == 'showconv':
            def fun(x, i=i):
                v = conc.proj(x)
                chan.emit(('conv', i, v))
                return float(v)
            cb = [lambda: S.CallbackShowConvergence(fun, title='C%d' % i), lambda: S.CallbackShowConvergence(functional=fun),
                  lambda: S.CallbackShowConvergence(fun, 'C%d' % i, False, False)][how]()
        elif k == 'progress':
            cb = odl.solvers.CallbackProgressBar(10, step=st, file=io.StringIO())
        else:
            raise MachineryError('unknown leaf kind %r' % k)
        rec['cb'] = cb
        return cb

    def _build(self, e, scale):
        if e['k'] == 'and':
            a = self._build(e['l'], scale)
            b = self._build(e['r'], scale)
            return a & b
        if e['k'] == 'compose':
            inner = self._build(e['l'], scale * 10)
            c = self.rnd.randrange(5)
            has_space = self.conc.kind in ('element', 'list')
            if has_space and (c == 0 or self.via == 'repr'):
                return inner * odl.ScalingOperator(self.conc.space, 10)
            if has_space and c == 3:
                return inner * (10 * odl.IdentityOperator(self.conc.space))
            if has_space and c == 4 and not self.conc.dtype.startswith('int'):
                return inner * odl.MultiplyOperator(self.conc.space.element(np.full(self.conc.n, 10)))
            if self.conc.kind == 'list':
                return inner * (lambda x: 10 * np.asarray(x))          # a list is multiplied through numpy
            if c == 1:
                return inner * (lambda x: 10 * x)
            return inner * (lambda x: x * 10)
        return self._leaf(e, scale)

    # -- eval(repr(root)): rebind the leaves of the copy (same classes in the same pre-order)
    def through_repr(self):
        ns = {'np': np, 'odl': odl, 'array': np.array, 'inf': float('inf'), 'nan': float('nan')}
        ns.update({n: getattr(odl.solvers, n) for n in dir(odl.solvers) if n.startswith('Callback')})
        ns.update({n: getattr(odl, n) for n in ('rn', 'cn', 'tensor_space', 'ScalingOperator')})
        text = repr(self.root)
        new = eval(text, ns)
        found = []

        def walk(cb):
            if hasattr(cb, 'callbacks'):
                for c in cb.callbacks:
                    walk(c)
            elif hasattr(cb, 'callback') and hasattr(cb, 'operator'):
                walk(cb.callback)
            else:
                found.append(cb)
        walk(new)
        if len(found) != len(self.info) or any(type(f) is not type(r['cb']) for f, r in zip(found, self.info)):
            raise ValueError('eval(repr) has another structure: %s' % text)
        for f, r in zip(found, self.info):
            r['cb'] = f
        self.root = new
        return text

    # -- run
    def run(self, hist, nap=0.0, routes=None):
        """routes (optional): per action (callback object to address, factor): the action goes to that object with the
        iterate h['v'] // factor (the object is a composition around self.root that multiplies by `factor`)"""
        conc, chan = self.conc, self.chan
        x = conc.make(0, chan)
        grow = {r['i']: [] for r in self.info}
        last = {r['i']: 0 for r in self.info}
        durs = [0] * len(hist)
        self.durs = durs
        with contextlib.redirect_stdout(chan):
            for j, h in enumerate(hist, 1):
                chan.j = j
                if h['a'] == 'call':
                    if nap:
                        time.sleep(nap)
                    target, fac = routes[j - 1] if routes else (self.root, 1)
                    x = conc.assign(x, h['v'] // fac, chan)
                    t_call = time.time()
                    ret = target(x)
                    durs[j - 1] = min(int((time.time() - t_call) * 1e6) + 1, 10 ** 9)
                    if ret is not None:
                        chan.emit(('returned', repr(ret)[:40]))
                else:
                    (routes[j - 1][0] if routes else self.root).reset()
                for r in self.info:
                    if r['k'] == 'store':
                        n = len(r['cb'].results)
                        if n > last[r['i']]:
                            # what has just been stored, projected now and once more at the end (copies)
                            grow[r['i']].append((j, conc.proj(r['cb'].results[-1]) if n == last[r['i']] + 1 else OFF))
                        last[r['i']] = n
                    elif r['k'] == 'progress':
                        n = r['cb'].pbar.n
                        if n != last[r['i']]:
                            grow[r['i']].append((j, n - last[r['i']] if n > last[r['i']] else n))
                        last[r['i']] = n
        # poison the iterate object: whatever was stored / saved must not change any more
        x = conc.assign(x, 77, chan)
        return self.observe(hist, grow)

    def _tables(self, hist):
        """per print-like leaf: printed text -> (it, val) for every candidate"""
        vals = sorted(set(h['v'] for h in hist if h['a'] == 'call'))
        tabs = {}
        for r in self.info:
            t = {}
            if r['k'] == 'printiter':
                for kk in range(len(hist) + 1):
                    t[r['fmt'].format(kk) + r['end']] = (kk, 0)
            elif r['k'] == 'print':
                for v in vals:
                    c = v * r['scale'] + (1 if r['opt'] == 'func' else 0)
                    for cand in {c, v * r['scale'], v, v + 1}:
                        try:
                            for obj in self.conc.forms(cand, self.chan):
                                t.setdefault(r['fmt'].format(obj) + r['end'], (-1, cand))
                        except Exception:
                            pass
            tabs[r['i']] = t
        return tabs

    def observe(self, hist, grow):
        conc = self.conc
        n = len(self.info)
        tabs = self._tables(hist)
        strm = [[] for _ in range(n)]
        times = [[] for _ in range(n)]
        out = []
        by_kind = {}
        for r in self.info:
            by_kind.setdefault(r['k'], []).append(r)
        conv_seen = {}
        conv_xy = {}
        for r in by_kind.get('showconv', []):
            import matplotlib.pyplot as plt
            offs = [c.get_offsets().tolist() for c in r['cb'].ax.collections]
            conv_xy[r['i']] = [(int(round(o[0][0])) if len(o) == 1 and o[0][0] == round(o[0][0]) else OFF,
                                o[0][1] if len(o) == 1 else None) for o in offs]
            plt.close(r['cb'].fig)
        unattributed = 0
        for j, item in self.chan.items:
            tag = item[0]
            if tag == 'fn':
                _, i, v = item
                strm[i - 1].append([j, -1, v])
                out.append([i, j, -1, v])
            elif tag == 'conv':
                _, i, v = item
                m = conv_seen.get(i, 0)
                conv_seen[i] = m + 1
                xy = conv_xy[i][m] if m < len(conv_xy[i]) else (OFF, None)
                e = [j, xy[0], v if xy[1] == v else OFF]
                strm[i - 1].append(e)
                out.append([i] + e)
            elif tag == 'show':
                _, title, saveto, v, kws = item
                hit = None
                for r in by_kind.get('show', []):
                    m = re.match('^' + re.escape(r['title']).replace(r'\{\}', r'(\d+)') + '$', str(title))
                    if m:
                        hit = (r, int(m.group(1)))
                        break
                if hit is None:
                    unattributed += 1
                    continue
                r, it = hit
                bad = False
                if r['opt'] == '':
                    bad = saveto is not None
                else:
                    bad = (saveto != 'S%d_%d.png' % (r['i'], it))
                    r.setdefault('saved', []).append((saveto, v))
                if not set(r['showkw']) <= set(kws):
                    bad = True
                e = [j, it, OFF if bad else v]
                strm[r['i'] - 1].append(e)
                out.append([r['i']] + e)
            elif tag == 'line':
                line = item[1]
                hit = None
                for r in self.info:
                    if r['k'] in ('printiter', 'print') and line in tabs[r['i']]:
                        it, v = tabs[r['i']][line]
                        hit = (r, it if r['k'] == 'printiter' else -1, v)
                        break
                if hit is None:
                    m = re.match(r'^norm = (.*)$', line)
                    if m and by_kind.get('printnorm'):
                        r = by_kind['printnorm'][0]
                        try:
                            q = float(m.group(1)) / conc.normfac
                            v = int(round(q)) if abs(q - round(q)) < 1e-4 else OFF
                        except ValueError:
                            v = OFF
                        hit = (r, -1, v)
                if hit is None:
                    for r in by_kind.get('timing', []):
                        pat = '^' + re.escape(r['fmt']).replace(r'\{:\.6f\}', r'([-0-9.e]+)').replace(
                            r'\{:<5\.03f\}', r'([-0-9.e]+) *') + re.escape(r['end']) + '$'
                        m = re.match(pat, line)
                        if m:
                            try:
                                us = int(round(float(m.group(1)) * 1e6))
                            except ValueError:
                                us = -1
                            times[r['i'] - 1].append([j, min(us, 2 * 10 ** 9)])
                            hit = (r, -1, 0)
                            break
                if hit is None:
                    unattributed += 1
                    continue
                r, it, v = hit
                strm[r['i'] - 1].append([j, it, v])
                out.append([r['i'], j, it, v])
            else:
                unattributed += 1
        for i, xy in conv_xy.items():
            if len(xy) != conv_seen.get(i, 0):
                strm[i - 1].append([0, OFF, OFF])
        cnt, res, ext, files, sk = [], [], [], [], []
        for r in self.info:
            cb = r['cb']
            k = r['k']
            cnt.append(int(getattr(cb, 'iter', OFF)) if k in COUNTER_KINDS else -1)
            if k == 'store':
                direct = [conc.proj(z) for z in cb.results]
                via_iter = [conc.proj(z) for z in cb]
                via_get = [conc.proj(cb[q]) for q in range(len(cb))]
                if not (direct == via_iter == via_get):
                    direct = direct + [OFF]
                if direct and conc.proj(cb[-1]) != direct[-1]:
                    direct = direct + [OFF]
                res.append(direct)
                ext.append([conc.proj(z) for z in r['lst']] if r['opt'] == 'caller' else [])
                strm[r['i'] - 1] = [[j, -1, v] for (j, v) in grow[r['i']]]
            else:
                res.append([])
                ext.append([])
            if k == 'save':
                files.append(self._files(r))
                sk.append(r['i'])
            elif k == 'show' and r['opt'] != '':
                last = {}
                for (nm, v) in r.get('saved', []):
                    m = re.match(r'^S%d_(\d+)\.png$' % r['i'], str(nm))
                    last[int(m.group(1)) if m else OFF] = v
                files.append([[a, last[a]] for a in sorted(last)])
            else:
                files.append([])
            if k == 'progress':
                strm[r['i'] - 1] = [[j, -1, g] for (j, g) in grow[r['i']]]
        if unattributed:
            out.append([0, 0, OFF, OFF])
        return {'cnt': cnt, 'strm': strm, 'sk': sk, 'res': res, 'ext': ext, 'files': files, 'out': out, 'times': times,
                'durs': list(self.durs)}

    def _files(self, r):
        d = r['dir']
        outp = {}
        if not os.path.isdir(d):
            return []
        for nm in sorted(os.listdir(d)):
            m = re.match(r'^L%d_(fix|\d+)(\.npy)?$' % r['i'], nm)
            if not m:
                if nm.startswith('L%d_' % r['i']):
                    outp[OFF] = OFF
                continue
            idx = -1 if m.group(1) == 'fix' else int(m.group(1))
            if (m.group(1) == 'fix') != r['opt'].endswith('fix'):
                idx = OFF
            p = os.path.join(d, nm)
            try:
                if r['impl'] == 'pickle':
                    if m.group(2):
                        idx = OFF
                    with open(p, 'rb') as f:
                        raw = f.read()
                    v = self.conc.proj(pickle.loads(raw))
                    if r['kw'].get('protocol') == 2 and raw[:2] != b'\x80\x02':
                        v = OFF           # "kwargs : Optional arguments passed to the save function"

                elif r['impl'] == 'numpy':
                    # numpy.save appends '.npy' to a name without that extension (documented there): both names accepted
                    v = self.conc.proj(np.load(p, allow_pickle=False))
                else:
                    if m.group(2):
                        idx = OFF
                    a = np.loadtxt(p, delimiter=r['kw'].get('delimiter'), ndmin=1,
                                   dtype=complex if self.conc.dtype.startswith('complex') else float)
                    v = self.conc.proj(a)
                    if 'header' in r['kw']:
                        with open(p) as f:
                            if f.readline().strip() != '# ' + r['kw']['header']:
                                v = OFF
            except Exception:
                v = OFF
            outp[idx] = v
        return [[a, outp[a]] for a in sorted(outp)]


# ------------------------------------------------------------------ one execution -> observed record
def execute(shape, hist, rnd, workdir, via='direct', conc=None, nap=0.0):
    """-> (observation dict incl. err, description of the concretisation)"""
    if conc is None:
        pool = conc_pool(shape, rnd)
        conc = pool[rnd.randrange(len(pool))]
    d = os.path.join(workdir, 'run%d_%d' % (os.getpid(), rnd.randrange(10 ** 9)))
    os.makedirs(d, exist_ok=True)
    desc = {'conc': conc.desc(), 'via': via}
    try:
        pr = Probe(shape, conc, rnd, d, via=via)
        desc['spell'] = [r.get('how') for r in pr.info]
        if via == 'repr':
            desc['repr'] = pr.through_repr()
        obs = pr.run(hist, nap=nap)
        obs['err'] = ''
    except MachineryError:
        raise
    except Exception as ex:
        n = len(leaves(shape))
        obs = {'cnt': [0] * n, 'strm': [[] for _ in range(n)], 'sk': [], 'res': [[] for _ in range(n)],
               'ext': [[] for _ in range(n)], 'files': [[] for _ in range(n)], 'out': [],
               'times': [[] for _ in range(n)], 'durs': [0] * len(hist), 'err': type(ex).__name__}
        desc['exc'] = '%s: %s' % (type(ex).__name__, str(ex)[:200])
    finally:
        shutil.rmtree(d, ignore_errors=True)
    obs['nap'] = int(round(nap * 0.9e6))        # lower bound used by the specification (clock granularity)
    return obs, desc


def matches_export(obs, st):
    """literal comparison with an exported state (anything else goes to TLC)"""
    if obs['err'] or any(any(t[1] < 0 for t in ts) for ts in obs['times']):
        return False
    lv = leaves(st['shape'])
    for i, (lf, _) in enumerate(lv):
        if obs['cnt'][i] != st['cnt'][i]:
            return False
        if (i + 1) not in obs['sk'] and obs['strm'][i] != st['strm'][i]:
            return False
        if lf['k'] == 'store' and obs['res'][i] != st['res'][i]:
            return False
        if lf['k'] == 'store' and lf['opt'] == 'caller' and obs['ext'][i] != st['res'][i]:
            return False
        if obs['files'][i] != st['files'][i]:
            return False
        if lf['k'] == 'timing' and lf['opt'] == 'cum':
            return False            # monotonicity is decided by TLC
    return obs['out'] == st['out']


def event_of(shape, hist, obs, desc):
    ev = {'id': 0, 'shape': shape, 'hist': hist}
    ev.update({k: obs[k] for k in ('cnt', 'strm', 'sk', 'res', 'ext', 'files', 'out', 'times', 'durs', 'nap', 'err')})
    return ev, desc


# ------------------------------------------------------------------ drivers (code -> spec)
def random_leaf(rnd, allow, maxstep=7):
    k = rnd.choice(allow)
    s = rnd.randint(1, maxstep)
    o = ''
    if k == 'store':
        o = rnd.choice(['own', 'caller', 'func'])
    elif k == 'print':
        o = rnd.choice(['', '', 'func'])
    elif k == 'timing':
        o = rnd.choice(['cum', 'inc'])
    elif k == 'save':
        o = rnd.choice(['pickle', 'numpy', 'txt']) + ':' + rnd.choice(['idx', 'fix'])
    elif k == 'show':
        o = rnd.choice(['', 'saveto', 'savefn'])
    if k in ('printnorm', 'sleep', 'showconv', 'raw'):
        s = 1
    return Lf(k, s, o)


def random_shape(rnd, depth, allow, state):
    """state: dict with the kinds that may occur only once (printnorm: its lines carry no tag)"""
    if depth == 0 or rnd.random() < 0.25:
        al = [k for k in allow if not (k in ('printnorm', 'showconv') and state.get(k))]
        lf = random_leaf(rnd, al)
        state[lf['k']] = True
        return lf
    if rnd.random() < 0.6:
        a = random_shape(rnd, depth - 1, allow, state)
        if rnd.random() < 0.15:
            return And(a, Lf('raw', 1, ''))
        return And(a, random_shape(rnd, depth - 1, allow, state))
    if state.get('scale', 1) >= 100:
        return random_shape(rnd, 0, allow, state)
    state['scale'] = state.get('scale', 1) * 10
    return Comp(random_shape(rnd, depth - 1, allow, state))


def max_scale(shape):
    return max(sc for _, sc in leaves(shape))


def random_hist(rnd, n, values):
    h = []
    for _ in range(n):
        if rnd.random() < 0.2:
            h.append({'a': 'reset', 'v': 0})
        else:
            h.append({'a': 'call', 'v': rnd.choice(values)})
    return h


BASE_KINDS = ['store', 'apply', 'printiter', 'print', 'printnorm', 'timing', 'save', 'sleep']


def driver_events(seed, n, workdir, thorough):
    rnd = random.Random(1000 + seed)
    evs = []
    kinds = list(BASE_KINDS) + (['progress'] if HAVE_TQDM else [])
    for q in range(n):
        state = {}
        mode = q % 10
        if mode == 7:
            shape = random_shape(rnd, 2, ['show', 'apply', 'store', 'printiter', 'print'], state)
        elif mode == 8:
            shape = random_shape(rnd, 1, ['showconv', 'printiter', 'store'], state)
        else:
            shape = random_shape(rnd, 3 if mode < 3 else 2, kinds, state)
        if max_scale(shape) > 1000:
            continue
        hist = random_hist(rnd, rnd.randint(1, 14 if thorough else 10), [1, 2, 4, 7, 9, 12])
        via = 'direct'
        if mode in (4, 5) and repr_evaluable(shape):
            via = 'repr'
        conc = rnd.choice([Conc('element', 3, 'float64'), Conc('element', 2, 'float32'), Conc('element', 2, 'float64', 4.0),
                           Conc('element', 2, 'complex128')]) if via == 'repr' else None
        if conc is not None and conc.dtype.startswith('complex') and any(lf['opt'].startswith('txt') for lf, _ in leaves(shape)):
            conc = Conc('element', 3, 'float64')
        obs, desc = execute(shape, hist, rnd, workdir, via=via, conc=conc)
        evs.append(event_of(shape, hist, obs, desc))
    return evs


def shared_events(seed, n, workdir):
    """ONE callback object that is part of several compositions (cb & f, cb * op, (cb * op) & g, op-composed twice) and is
    also addressed directly: calls and resets arrive through any of them, interleaved.  The object must behave as the
    documented function of the merged history of what reaches it."""
    rnd = random.Random(4000 + seed)
    evs = []
    kinds = ['store', 'apply', 'printiter', 'print', 'timing', 'save']
    for _ in range(n):
        leaf = random_leaf(rnd, kinds, maxstep=4)
        conc = rnd.choice([Conc('element', 3, 'float64'), Conc('element', 2, 'float32'), Conc('ndarray', 3, 'float64'),
                           Conc('element', 2, 'int64')])
        d = os.path.join(workdir, 'shared%d_%d' % (os.getpid(), rnd.randrange(10 ** 9)))
        os.makedirs(d, exist_ok=True)
        desc = {'conc': conc.desc(), 'via': 'shared'}
        try:
            pr = Probe(leaf, conc, rnd, d)
            cb = pr.root
            sink = []
            wrapped = [(cb, 1), (cb & sink.append, 1), (cb * (lambda x: 10 * x), 10),
                       ((cb * (lambda x: x * 10)) & odl.solvers.CallbackApply(sink.append, step=2), 10),
                       ((cb * (lambda x: 10 * x)) * (lambda x: 10 * x), 100), (odl.solvers.CallbackSleep(0) & cb, 1)]
            hist, routes = [], []
            for _j in range(rnd.randint(3, 10)):
                w = wrapped[rnd.randrange(len(wrapped))]
                routes.append(w)
                if rnd.random() < 0.2:
                    hist.append({'a': 'reset', 'v': 0})
                else:
                    hist.append({'a': 'call', 'v': rnd.choice([1, 2, 4, 7]) * w[1]})
            desc['routes'] = [wrapped.index(w) for w in routes]
            obs = pr.run(hist, routes=routes)
            obs['err'] = ''
        except MachineryError:
            raise
        except Exception as ex:
            obs = {'cnt': [0], 'strm': [[]], 'sk': [], 'res': [[]], 'ext': [[]], 'files': [[]], 'out': [], 'times': [[]],
                   'durs': [0] * len(hist), 'err': type(ex).__name__}
            desc['exc'] = '%s: %s' % (type(ex).__name__, str(ex)[:200])
        finally:
            shutil.rmtree(d, ignore_errors=True)
        obs['nap'] = 0
        evs.append(event_of(leaf, hist, obs, desc))
    return evs


def repr_evaluable(shape):
    """shapes whose repr is made of documented, evaluable pieces: leaves without user functions, `&` of them, a leaf (or &
    chain - see the note on precedence in run_stage) composed with a ScalingOperator"""
    for lf, _ in leaves(shape):
        if lf['k'] in ('apply', 'raw', 'showconv', 'show', 'progress'):
            return False
        if lf['opt'] in ('func', 'caller'):
            return False

    def ok(e, under_comp):
        if e['k'] == 'and':
            return not under_comp and ok(e['l'], False) and ok(e['r'], False)      # (a & b) * op prints without parentheses
        if e['k'] == 'compose':
            return ok(e['l'], True)
        return True
    return ok(shape, False)


def repr_events(seed, workdir, thorough):
    """eval(repr(cb)) must behave like cb on a history (the docstrings show these reprs)"""
    rnd = random.Random(2000 + seed)
    P, I2, S2, T = Lf('print', 1, ''), Lf('printiter', 2, ''), Lf('store', 2, 'own'), Lf('timing', 2, 'cum')
    shapes = [Lf('store', 1, 'own'), S2, Lf('store', 3, 'own'), Lf('printiter', 1, ''), I2, P, Lf('print', 3, ''), T,
              Lf('timing', 1, 'inc'), Lf('printnorm', 1, ''), Lf('sleep', 1, ''), Lf('save', 2, 'pickle:idx'),
              Lf('save', 1, 'numpy:fix'), Lf('save', 3, 'txt:idx'), And(S2, I2), And(I2, And(P, S2)), And(And(P, I2), T),
              Comp(P), Comp(S2), Comp(Comp(P)), And(Comp(P), I2), And(S2, Comp(Lf('print', 2, ''))),
              Comp(Lf('save', 2, 'numpy:idx')), Comp(Lf('printnorm', 1, ''))]
    evs = []
    for sh in shapes:
        for rep in range(2 if thorough else 1):
            hist = random_hist(rnd, rnd.randint(3, 8), [1, 2, 4, 7])
            conc = rnd.choice([Conc('element', 3, 'float64'), Conc('element', 2, 'float32'), Conc('element', 2, 'float64', 4.0)])
            obs, desc = execute(sh, hist, rnd, workdir, via='repr', conc=conc)
            evs.append(event_of(sh, hist, obs, desc))
    return evs


def nap_events(seed, workdir):
    """printed times against lower bounds: the driver sleeps before every call"""
    rnd = random.Random(3000 + seed)
    evs = []
    for sh in (And(Lf('timing', 1, 'cum'), Lf('timing', 2, 'inc')), And(Lf('timing', 2, 'cum'), Lf('timing', 1, 'inc')),
               Comp(Lf('timing', 1, 'cum'))):
        hist = [{'a': 'call', 'v': 1}, {'a': 'call', 'v': 2}, {'a': 'call', 'v': 4}, {'a': 'reset', 'v': 0},
                {'a': 'call', 'v': 1}, {'a': 'call', 'v': 7}, {'a': 'call', 'v': 2}]
        obs, desc = execute(sh, hist, rnd, workdir, nap=0.004, conc=Conc('element', 2, 'float64'))
        evs.append(event_of(sh, hist, obs, desc))
    hist = [{'a': 'call', 'v': 1}, {'a': 'call', 'v': 2}, {'a': 'call', 'v': 4}, {'a': 'call', 'v': 2}, {'a': 'reset', 'v': 0},
            {'a': 'call', 'v': 1}, {'a': 'call', 'v': 7}]
    # increments against the cumulative time
    for sh in (And(Lf('timing', 1, 'cum'), Lf('timing', 1, 'inc')), And(Lf('timing', 1, 'cum'), And(Lf('print', 2, ''), Lf('timing', 1, 'inc')))):
        obs, desc = execute(sh, hist, rnd, workdir, nap=0.02, conc=Conc('element', 2, 'float64'))
        evs.append(event_of(sh, hist, obs, desc))
    # CallbackSleep really sleeps: a timing leaf to its right sees the time pass
    for sh in (And(Lf('sleep', 1, 'ms20'), Lf('timing', 1, 'cum')), And(And(Lf('sleep', 1, 'ms20'), Lf('print', 1, '')), Lf('timing', 1, 'inc'))):
        obs, desc = execute(sh, hist[:4], rnd, workdir, nap=0.0, conc=Conc('element', 2, 'float64'))
        evs.append(event_of(sh, hist[:4], obs, desc))
    return evs


def real_show_events(seed, workdir):
    """CallbackShow on real discretised elements with the Agg backend: files are written at the documented iterations"""
    try:
        import matplotlib
        matplotlib.use('Agg')
        import matplotlib.pyplot as plt
    except Exception:
        return None
    out = []
    space = odl.uniform_discr(0, 1, 4)
    d = os.path.join(workdir, 'realshow%d' % os.getpid())
    os.makedirs(d, exist_ok=True)
    for step, pat in ((2, 'it_{}.png'), (1, 'fix.png')):
        sub = os.path.join(d, 's%d' % step)
        os.makedirs(sub)
        cb = odl.solvers.CallbackShow(step=step, saveto=os.path.join(sub, pat))
        x = space.one()
        for _ in range(3):
            cb(x)
        cb.reset()
        cb(x)
        names = sorted(os.listdir(sub))
        exp = ['it_0.png', 'it_2.png'] if step == 2 else ['fix.png']
        out.append((step, pat, names, exp, cb.iter))
        plt.close('all')
    shutil.rmtree(d, ignore_errors=True)
    return out


# ------------------------------------------------------------------ TLC
def tlc_retry(module, cfg, work, env, workers, timeout=900):
    res = run_tlc(module, cfg, work, env=env, workers=workers, timeout=timeout, heap='2g')
    if res.status == 'machinery':
        if env.get('OUT_FILE') and os.path.exists(env['OUT_FILE']):
            os.remove(env['OUT_FILE'])
        res = run_tlc(module, cfg, work, env=env, workers=workers, timeout=timeout, heap='2g')
    return res


def validate(ctx, work, events, label, nchunk=3000):
    """Trace_CbFull on events (list of (event, desc)); ids are assigned here -> {id: clauses_text}"""
    for i, (ev, _) in enumerate(events):
        if ev['id'] != CORRUPT_ID:
            ev['id'] = i + 1
    chunks = [events[i:i + nchunk] for i in range(0, len(events), nchunk)]
    paths = []
    for k, ch in enumerate(chunks):
        p = os.path.join(work, 'cbfull_%s_%d.ndjson' % (label, k))
        with open(p, 'w') as f:
            for ev, _ in ch:
                f.write(json.dumps(ev) + '\n')
        paths.append(p)

    def go(p):
        return tlc_retry('Trace_CbFull.tla', 'Trace_CbFull.cfg', work, {'TRACE_FILE': p}, 1)
    with ThreadPoolExecutor(max_workers=4) as ex:
        results = list(ex.map(go, paths))
    rejected = {}
    for k, (res, ch) in enumerate(zip(results, chunks)):
        ctx.add_tlc('cbfull-trace-%s-%d' % (label, k), res)
        for line_no, ev_id, clauses in parse_fails(res.output):
            rejected[ev_id] = clauses
    return rejected


def clauses_of(text):
    return [(m.group(1), int(m.group(2))) for m in re.finditer(r'<<\s*"([\w-]+)"\s*,\s*(\d+)\s*>>', text)]


def report(ctx, events, rejected, source, seen=None):
    n = 0
    seen = {} if seen is None else seen
    for ev, desc in events:
        if ev['id'] not in rejected or ev['id'] == CORRUPT_ID:
            continue
        lv = leaves(ev['shape'])
        for clause, i in clauses_of(rejected[ev['id']]):
            if clause.startswith('harness'):
                raise MachineryError('cbfull: malformed event %r' % (ev,))
            lf = lv[i - 1][0] if i >= 1 else None
            sig = {'stage': STAGE, 'clause': clause, 'cls': CLASS_OF[lf['k']] if lf else 'composition',
                   'opt': lf['opt'] if lf else '', 'ctx': shape_ctx(ev['shape']), 'via': desc.get('via', 'direct')}
            if clause == 'raised':
                sig['exc'] = ev['err']
                ks = sorted(set(CLASS_OF[l['k']] for l, _ in lv))
                sig['cls'] = ks[0] if len(ks) == 1 else 'composition'
            key = dumps(sig, sort_keys=True)
            seen[key] = seen.get(key, 0) + 1
            if seen[key] > 6:
                continue                  # a few replayable cases per family are enough
            ctx.violation(sig, {'stage_module': STAGE, 'source': source, 'event': ev, 'how': desc,
                                'clauses': rejected[ev['id']]})
            n += 1
    return n


def _replay_worker(args):
    """replays a share of the exported states on real callbacks -> (replays per line, suspects, skipped, samples)"""
    lines, seed, work, thorough, cb_len, have_mpl = args
    rnd = random.Random(seed)
    counts, suspects, samples = [], [], []
    nskip = 0
    for line in lines:
        st = json.loads(line)
        kinds = set(lf['k'] for lf, _ in leaves(st['shape']))
        if 'progress' in kinds and not HAVE_TQDM:
            nskip += 1
            counts.append(0)
            continue
        if 'showconv' in kinds:
            # a matplotlib figure per object: full-length histories + a quarter of the prefixes
            if not have_mpl or (len(st['hist']) < cb_len and rnd.randrange(4)):
                counts.append(0)
                continue
        nvar = 2 if thorough and len(st['hist']) >= 2 else 1
        for _ in range(nvar):
            obs, desc = execute(st['shape'], st['hist'], rnd, work)
            if not matches_export(obs, st):
                suspects.append(event_of(st['shape'], st['hist'], obs, desc))
            elif len(samples) < 1 and len(st['hist']) >= 3:
                samples.append({'stage': STAGE, 'shape': st['shape'], 'hist': st['hist'], 'how': desc})
        counts.append(nvar)
    return counts, suspects, nskip, samples


# ------------------------------------------------------------------ stage
def run_stage(ctx):
    thorough = ctx.tier != 'quick'
    work = os.path.join(ctx.work, 'cbfull')
    os.makedirs(work, exist_ok=True)
    t0 = time.time()
    laps = {}

    def lap(name):
        laps[name] = round(time.time() - t0, 1)

    try:
        import matplotlib
        matplotlib.use('Agg')
        have_mpl = True
    except Exception:
        have_mpl = False
        ctx.skip('cbfull: matplotlib not importable - CallbackShowConvergence / real CallbackShow left out')
    if not HAVE_TQDM:
        ctx.skip('cbfull: tqdm not importable - CallbackProgressBar is model-checked only (no replay on real objects)')
    if not HAVE_PSUTIL:
        ctx.skip('cbfull: psutil not importable - CallbackPrintHardwareUsage left out')

    cb_len = '5' if thorough else '4'
    outs = [os.path.join(work, 'export%d.ndjson' % p) for p in (1, 2, 3)]
    jobs = {
        'laws': ('MC_CbFull.tla', 'MC_CbFull_laws.cfg', {'CBF_LEN': cb_len}, 6, 'ok'),
        'bogus': ('MC_CbFull.tla', 'MC_CbFull_bogus.cfg', {'CBF_LEN': '3'}, 2, 'cex'),
        'impl-refines': ('MC_CbFullImpl.tla', 'MC_CbFullImpl_refines.cfg', {'CBF_LEN': cb_len}, 4, 'ok'),
        'impl-quirk': ('MC_CbFullImpl.tla', 'MC_CbFullImpl_quirk.cfg', {'CBF_LEN': '3'}, 2, 'any'),
    }
    for p in (1, 2, 3):
        jobs['export%d' % p] = ('MC_CbFull.tla', 'MC_CbFull_export.cfg',
                                {'CBF_LEN': cb_len, 'CBF_PART': str(p), 'OUT_FILE': outs[p - 1]}, 1, 'ok')
    ex = ThreadPoolExecutor(max_workers=len(jobs))
    futs = {name: ex.submit(tlc_retry, j[0], j[1], work, j[2], j[3]) for name, j in jobs.items()}

    # ---- code -> spec drivers run while TLC works
    events = []
    events += driver_events(ctx.seed, 900 if thorough else 260, work, thorough)
    events += repr_events(ctx.seed, work, thorough)
    events += nap_events(ctx.seed, work)
    events += shared_events(ctx.seed, 240 if thorough else 80, work)
    lap('drivers')

    # ---- TLC results
    quirk_pinned = None
    for name, j in jobs.items():
        res = futs[name].result()
        if j[4] == 'ok':
            ctx.add_tlc('cbfull-' + name, res)
        else:
            ctx.add_tlc('cbfull-' + name, res, expect='any')
            if j[4] == 'cex' and res.status != 'counterexample':
                raise MachineryError('cbfull: the wrong reading %s was not refuted (%r)' % (name, res))
            if name == 'impl-quirk':
                if res.status not in ('ok', 'counterexample'):
                    raise MachineryError('cbfull: impl-quirk run failed (%r)' % (res,))
                quirk_pinned = (res.status == 'counterexample')
    ex.shutdown()
    lap('tlc')

    # ---- spec -> code: replay of every exported state (worker processes; the parent only counts)
    lines = []
    for path in outs:
        with open(path) as f:
            lines += [ln for ln in f if ln.strip()]
    nproc = 6
    parts = [lines[q::nproc] for q in range(nproc)]
    from concurrent.futures import ProcessPoolExecutor
    import multiprocessing
    with ProcessPoolExecutor(max_workers=nproc, mp_context=multiprocessing.get_context('fork')) as pex:
        results = list(pex.map(_replay_worker, [(parts[q], ctx.seed * 100 + q, work, thorough, int(cb_len), have_mpl)
                                                for q in range(nproc)]))
    suspects = []
    nrep = 0
    skipped_progress = 0
    for part, (counts, susp, nskip, smp) in zip(parts, results):
        suspects += susp
        skipped_progress += nskip
        for ln, c in zip(part, counts):
            if c:
                st = json.loads(ln)
                ctx.count(['cbfull', st['shape'], st['hist']], len(st['hist']) >= 2, n=c)
                nrep += c
        for sm in smp[:1]:
            ctx.sample(sm)
    if nrep < 5000:
        raise MachineryError('cbfull: export too small (%d cases replayed)' % nrep)
    lap('replay')

    # ---- real show (Agg)
    if have_mpl:
        rs = real_show_events(ctx.seed, work)
        for step, pat, names, exp, it in rs or []:
            ctx.count(['cbfull-realshow', step, pat], True)
            if names != exp or it != 1:
                ctx.violation({'stage': STAGE, 'clause': 'files', 'cls': 'CallbackShow', 'opt': 'saveto', 'ctx': 'leaf', 'via': 'real-show'},
                              {'stage_module': STAGE, 'step': step, 'saveto': pat, 'files': names, 'expected': exp, 'iter': it,
                               'history': 'call call call reset call on uniform_discr(0, 1, 4).one()'})
        # logx / logy are documented options of CallbackShowConvergence
        for opt in ('logx', 'logy'):
            try:
                import matplotlib.pyplot as plt
                cb = odl.solvers.CallbackShowConvergence(lambda x: 1.0, **{opt: True})
                cb(None)
                plt.close(cb.fig)
                err = ''
            except Exception as e2:
                err = type(e2).__name__
            ctx.count(['cbfull-showconv', opt], True)
            if err:
                ctx.violation({'stage': STAGE, 'clause': 'raised', 'cls': 'CallbackShowConvergence', 'opt': 'log-axis', 'ctx': 'leaf',
                               'via': 'direct', 'exc': err},
                              {'stage_module': STAGE, 'call': 'CallbackShowConvergence(f, %s=True)' % opt})
    lap('realshow')

    # ---- TLC decides: suspects + recorded events + one corrupted copy
    corrupt = None
    for ev, desc in events:
        if ev['err'] == '' and any(ev['res']) and ev['shape']['k'] != 'store':
            corrupt = json.loads(json.dumps(ev))
            i = [q for q, r in enumerate(corrupt['res']) if r][0]
            corrupt['res'][i][-1] += 1                         # one stored value is off by one
            corrupt['id'] = CORRUPT_ID
            break
    if corrupt is None:
        raise MachineryError('cbfull: no event to corrupt')
    all_events = suspects + events + [(corrupt, {'via': 'corrupt'})]
    rejected = validate(ctx, work, all_events, 'ev')
    if CORRUPT_ID not in rejected or 'results' not in rejected[CORRUPT_ID]:
        raise MachineryError('cbfull: the corrupted copy of a recorded event was not rejected by Trace_CbFull')
    lap('trace')
    for ev, desc in events:
        ctx.count(['cbfull-ev', ev['shape'], ev['hist'], desc.get('via')], len(ev['hist']) >= 2)
    seen = {}
    nv = report(ctx, suspects, rejected, 'replay', seen) + report(ctx, events, rejected, 'trace', seen)
    # suspects that TLC accepted were only not literal (timing monotonicity is decided there)
    ctx.traces += nrep + len(events)

    # layer C pins the code as written: CallbackStore.reset rebinds `results` (the caller's list is neither cleared nor
    # used any more).  quirk_pinned = TLC found the counter-example to CallerListFollows on the code-shaped model.
    caller_viol = any(sig.get('clause') == 'caller-list' for sig, _ in ctx.violations) or any(
        k['id'] in ctx.known_hits and k.get('signature', {}).get('clause') == 'caller-list' for k in ctx.known)
    if quirk_pinned and not caller_viol:
        ctx.drift_note('cbfull: layer C (CbFullImpl, StoreResetRebinds = TRUE) shows the rebinding of CallbackStore.results on '
                       'reset but the real code no longer does: set StoreResetRebinds == FALSE')
    # quirk_pinned is False: layer C mirrors the repaired body (0cfddcf, KF-EXT-CBF-1 fixed); CallerListFollows holds
    ctx.extra['cbfull'] = {
        'replayed_cases': nrep, 'suspects_sent_to_tlc': len(suspects), 'events_validated': len(events) + 1,
        'violations_reported': nv, 'progress_states_not_replayed': skipped_progress, 'laps_s': laps,
        'impl_quirk_counterexample': quirk_pinned,
        'undocumented_observations': [
            "repr((a & b) * op) prints 'a & b * op' which evaluates to a & (b * op) (no parentheses): not part of the "
            "round-trip check because no docstring promises it",
            'repr drops the print / save keyword arguments (end=, file=, protocol=...): copies are built without them',
            'CallbackShowConvergence(logx=True) plots iteration + 1 (undocumented shift, not compared)',
            'CallbackPrintHardwareUsage.__init__ never sets self.kwargs (read only: psutil missing here)',
            'CallbackShow(saveto=<missing directory>): the docstring promises ValueError, matplotlib raises FileNotFoundError '
            '(weaker reading "an error is raised" taken; not reported)'],
    }
    ctx.assumptions += [
        'cbfull: iteration numbers start at 0 after construction / reset (docstring examples)',
        "cbfull: impl='numpy': the file may carry numpy's '.npy' suffix (numpy.save documents that it appends it)",
        'cbfull: CallbackPrintTiming values are relational only (non-negative; cumulative: monotone between resets and '
        'at least the time the driver slept; incremental: at least the sleep since the previous print)',
        'cbfull: CallbackStore(results=lst): `lst` is "the list in which to store the iterates", reset "clears the results '
        'list": after reset the caller-owned list is expected to be empty and still in use',
        'cbfull: eval(repr(cb)) is required to behave like cb only for the forms the docstrings print (leaves without '
        'user functions, &, leaf * ScalingOperator)',
    ]
    return nrep


def replay(body):
    det = body.get('detail', {})
    ev = det.get('event')
    if not ev:
        print('replay: %s' % dumps(det)[:400])
        return 0
    how = det.get('how', {})
    c = how.get('conc', {'kind': 'element', 'n': 3, 'dtype': 'float64', 'weight': None})
    work = '/tmp/cbfull-replay-%d' % os.getpid()
    os.makedirs(work, exist_ok=True)
    try:
        for s in range(6):
            obs, desc = execute(ev['shape'], ev['hist'], random.Random(s), work, via=how.get('via', 'direct'),
                                conc=Conc(c['kind'], c['n'], c['dtype'], c['weight']), nap=ev.get('nap', 0) / 1e6)
            same = all(obs[k] == ev[k] for k in ('cnt', 'res', 'ext', 'files', 'err'))
            print('spelling seed %d: observed %s the recorded event (err=%r cnt=%r res=%r ext=%r files=%r)' % (
                s, 'reproduces' if same else 'differs from', obs['err'], obs['cnt'], obs['res'], obs['ext'], obs['files']))
        print('rejected by Trace_CbFull with', det.get('clauses'))
    finally:
        shutil.rmtree(work, ignore_errors=True)
    return 0

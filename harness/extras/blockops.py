"""EXT stage `blockops`: product-space block operators (odl/operator/pspace_ops.py).

Specification: spec/sem/BlockOpSem.tla (layer A, from the docstrings), spec/mach/BlockOpMachine.tla (layer B: a root
constructor call and the chain of .adjoint / .derivative(x) / P[i] / P[i, j] / .inverse applied to it),
spec/impl/BlockOpImpl.tla (layer C: __init__ inference, _call loops on an aliased heap, __getitem__),
spec/cfg/MC_BlockOp*.{tla,cfg} (bounded instances + export), spec/trace/Trace_BlockOp.tla (total trace specification).

Spec -> code: every state TLC exports (root description, chain, everything layer A says about the resulting object)
is rebuilt on real ODL objects through the public API, in several concretisations (component spaces rn / weighted rn /
cn / uniform_discr / float32 / tiled long vectors) and construction spellings (list of lists with None or 0, tuples,
object arrays, COOMatrix in several entry orders, explicit domain= / range=, (operator, n) repetition, index spellings),
and queried: domain, range, is_linear, shape / len / size, evaluation out of place, in place (NaN pre-filled out, re-used
out) and aliased, with histories on the one object (repeated and interleaved calls, caller overwriting returned arrays).

Code -> spec: drivers widen beyond the TLC constants (3x3 / 1x4 / 4x1 patterns, other leaf parameters and points, chains
of length 3) and record one NDJSON event per object; Trace_BlockOp recomputes every observation from layer A.

`run_stage_c05` / `run_stage_c06` restrict the same machinery to the adjoint / derivative clauses.
"""
import json
import os
import random
import re
from concurrent.futures import ThreadPoolExecutor
from fractions import Fraction
from math import gcd

import numpy as np
import odl
from odl.util import COOMatrix

from .. import exact
from ..common import MachineryError
from ..tlc import run_tlc, parse_fails

STANDALONE = True
TILE = 60

PROFILE_W = {'R': [Fraction(1), Fraction(1)], 'RW': [Fraction(2), Fraction(1, 2)],
             'RD': [Fraction(1, 2), Fraction(1, 2)], 'C': [Fraction(1), Fraction(1)]}


# ====================================================================== numbers
def cnum(c):
    """JSON C number [[n,d],[n,d]] -> float / complex (all lattices are dyadic: exact)."""
    re_ = Fraction(c[0][0], c[0][1])
    im = Fraction(c[1][0], c[1][1])
    if im == 0:
        return float(re_)
    return complex(float(re_), float(im))


def qc(fr_re, fr_im=0):
    return [exact.to_q(Fraction(fr_re)), exact.to_q(Fraction(fr_im))]


def dens(obj, acc):
    """collect denominators of every [n, d] pair in a JSON value."""
    if isinstance(obj, list):
        if len(obj) == 2 and all(isinstance(t, int) and not isinstance(t, bool) for t in obj):
            if obj[1] > 0:
                acc.add(obj[1])
            return
        for o in obj:
            dens(o, acc)
    elif isinstance(obj, dict):
        for o in obj.values():
            dens(o, acc)


def lattice_den(*objs):
    acc = set()
    for o in objs:
        dens(o, acc)
    D = 1
    for d in acc:
        D = D * d // gcd(D, d)
    return max(1, min(D, 2 ** 12))


# ====================================================================== concretisations
class UserMat(odl.Operator):
    """A user-defined matrix operator, implemented OUT OF PLACE only, with the correct weighted adjoint
    (MatrixOperator.adjoint ignores weightings: KF-C05-5, not this stage's subject)."""

    def __init__(self, M, domain, range, wd, wr):
        self.M, self.wd, self.wr = np.asarray(M), np.asarray(wd, dtype=float), np.asarray(wr, dtype=float)
        super(UserMat, self).__init__(domain, range, linear=True)

    def _call(self, x):
        return self.range.element(self.M.dot(np.asarray(x).ravel()).reshape(self.range.shape))

    @property
    def adjoint(self):
        N = (self.M.conj().T * self.wr[None, :]) / self.wd[:, None]
        return UserMat(N, self.range, self.domain, self.wr, self.wd)

    @property
    def inverse(self):
        return UserMat(np.linalg.inv(self.M), self.range, self.domain, self.wr, self.wd)


class Conc(object):
    """Concrete component spaces for the factor types "V" (2 abstract entries) and "S" (1 abstract entry)."""

    def __init__(self, profile, name):
        self.profile, self.name = profile, name
        W = [float(w) for w in PROFILE_W[profile]]
        cplx = profile == 'C'
        self.tile = 1
        dt = 'complex128' if cplx else 'float64'
        if name.endswith('32'):
            dt = 'complex64' if cplx else 'float32'
        self.dtype = np.dtype(dt)
        uniform = (W[0] == W[1])
        if name in ('tensor', 'tensor32'):
            if W == [1.0, 1.0]:
                self.V = odl.tensor_space(2, dtype=dt)
            elif uniform:
                self.V = odl.tensor_space(2, dtype=dt, weighting=W[0])
            else:
                self.V = odl.tensor_space(2, dtype=dt, weighting=np.array(W, dtype=self.dtype.char.lower() if cplx else dt))
            self.S = odl.tensor_space(1, dtype=dt)
        elif name == 'discr':
            if not uniform or cplx:
                raise ValueError('discr needs uniform real weights')
            self.V = odl.uniform_discr(0, 2 * W[0], 2, dtype=dt)          # cell volume = W
            self.S = odl.uniform_discr(0, 1, 1, dtype=dt)                  # cell volume 1
        elif name == 'nested':
            # the factor V is itself a product space: block operators over NESTED product spaces
            if W != [1.0, 1.0]:
                raise ValueError('nested needs unit weights')
            self.V = odl.ProductSpace(odl.tensor_space(1, dtype=dt), 2)
            # (a 1-cell discretisation, so that S x S is not the same space as V = rn(1) x rn(1))
            self.S = odl.uniform_discr(0, 1, 1, dtype=dt)
        elif name == 'big':
            self.tile = TILE
            wt = np.tile(np.array(W), TILE) / TILE
            self.V = odl.tensor_space(2 * TILE, dtype=dt, weighting=wt)
            self.S = odl.tensor_space(1, dtype=dt)
        else:
            raise ValueError(name)
        self.wV = np.tile(np.array(W), self.tile) / self.tile
        self.wS = np.array([1.0])
        self.weighted = (W != [1.0, 1.0]) or self.tile > 1 or name == 'nested'     # -> UserMat for matrix leaves

    def sp(self, t):
        return self.V if t == 'V' else self.S

    def w(self, t):
        return self.wV if t == 'V' else self.wS

    def arr(self, t, val):
        a = np.array([cnum(c) for c in val], dtype=self.dtype)
        return np.tile(a, self.tile) if t == 'V' else a

    def elem(self, t, val):
        return self.sp(t).element(self.arr(t, val))

    def mat(self, d, r, M):
        """abstract matrix (Dim(r) x Dim(d)) -> concrete matrix between the (tiled) spaces."""
        A = np.array([[cnum(c) for c in row] for row in M], dtype=self.dtype)
        if self.tile == 1:
            return A
        T = self.tile
        if d == 'V' and r == 'V':
            return np.kron(np.eye(T, dtype=self.dtype), A)
        if d == 'V' and r == 'S':
            return np.tile(A, (1, T)) / T
        if d == 'S' and r == 'V':
            return np.tile(A, (T, 1))
        return A

    def prod(self, types, flat, spelling=0):
        if flat:
            return self.sp(types[0])
        sps = [self.sp(t) for t in types]
        if spelling % 2 == 1 and len(set(types)) == 1:
            return odl.ProductSpace(sps[0], len(sps))
        return odl.ProductSpace(*sps)

    def point(self, types, flat, vals):
        if flat:
            return self.elem(types[0], vals[0])
        return self.prod(types, False).element([self.arr(t, v) for t, v in zip(types, vals)])

    def point_like(self, types, flat, vals):
        """element-like spelling: nested lists / arrays, not an element."""
        if flat:
            return self.arr(types[0], vals[0]).tolist()
        return [self.arr(t, v).tolist() if k % 2 == 0 else self.arr(t, v) for k, (t, v) in enumerate(zip(types, vals))]

    def types_of(self, space):
        """real space -> (factor type names, flat): the projection of a domain / range onto the specification."""
        def name(sp):
            return 'V' if sp == self.V else ('S' if sp == self.S else '?')
        if space == self.V or space == self.S:
            return [name(space)], True
        if isinstance(space, odl.ProductSpace):
            return [name(sp) for sp in space], False
        return [name(space)], True

    # ---- projection ----------------------------------------------------
    def project_part(self, t, part, D):
        a = np.asarray(part).ravel()
        n = 2 if t == 'V' else 1
        if a.size != n * (self.tile if t == 'V' else 1):
            return 'size'
        per = a[:n]
        if t == 'V' and self.tile > 1:
            ref = np.tile(per, self.tile)
            tol = exact.tol_for(self.dtype, D)
            with np.errstate(invalid='ignore'):
                ok = np.abs(a - ref) <= tol * np.maximum(1.0, np.abs(ref))
            if not bool(np.all(ok)):
                return 'tiling-broken'
        out = []
        for z in per:
            z = complex(z)
            p, q = exact.snap(z.real, D, self.dtype), exact.snap(z.imag, D, self.dtype)
            if p == exact.OFF or q == exact.OFF or p != p or q != q or p in (float('inf'), float('-inf')) \
                    or q in (float('inf'), float('-inf')):
                return 'offlattice'
            out.append([exact.to_q(p), exact.to_q(q)])
        return out

    def project(self, types, flat, y, D):
        if flat:
            return [self.project_part(types[0], y, D)]
        try:
            n = len(y)
        except TypeError:
            return 'not-a-product-element'
        if n != len(types):
            return 'wrong-number-of-parts'
        return [self.project_part(t, y[k], D) for k, t in enumerate(types)]


def concs_for(profile):
    if profile == 'R':
        return ['tensor', 'discr', 'tensor32', 'big', 'nested']
    if profile == 'RW':
        return ['tensor', 'big', 'tensor32']
    if profile == 'RD':
        return ['discr', 'tensor']
    return ['tensor', 'tensor32', 'nested']


_CONC_CACHE = {}


def get_conc(profile, name):
    key = (profile, name)
    if key not in _CONC_CACHE:
        _CONC_CACHE[key] = Conc(profile, name)
    return _CONC_CACHE[key]


# ====================================================================== building real operators
def scalar_of(c, k=0):
    z = cnum(c)
    if isinstance(z, complex):
        return z
    if float(z).is_integer() and k % 2 == 0:
        return int(z)
    return float(z)


def nested_leaf(e, cz, var, nestmat):
    """With the `nested` concretisation V = rn(1) x rn(1) is itself a product space, so the V -> V leaves can be block
    operators themselves: block operators nested in block operators (None if this leaf is not built that way)."""
    t = e['t']
    comp = cz.V[0]
    if t == 'mulvec':
        return odl.DiagonalOperator(*[odl.ScalingOperator(comp, scalar_of(c, var)) for c in e['v']])
    if t == 'id' and var % 2 == 1:
        return odl.DiagonalOperator(odl.IdentityOperator(comp), 2)
    if t == 'zero' and var % 2 == 1:
        return odl.ProductSpaceOperator([[None, None], [None, None]], domain=cz.V, range=cz.V)
    if t == 'mat' and nestmat:
        z = [[0, 1], [0, 1]]
        rows = [[None if c == z else odl.ScalingOperator(comp, scalar_of(c, var)) for c in row] for row in e['m']]
        return odl.ProductSpaceOperator(rows, domain=cz.V, range=cz.V)
    return None


def build_expr(e, d, r, cz, var=0, nestmat=True):
    """OpSem expression between the factor types d -> r  ->  real ODL operator (public constructors / overloads)."""
    t = e['t']
    D, Rg = cz.sp(d), cz.sp(r)
    if cz.name == 'nested' and d == 'V' and r == 'V':
        op = nested_leaf(e, cz, var, nestmat)
        if op is not None:
            return op
    if t == 'id':
        return odl.IdentityOperator(D)
    if t == 'scale':
        return odl.ScalingOperator(D, scalar_of(e['a'], var))
    if t == 'mat':
        M = cz.mat(d, r, e['m'])
        if cz.weighted or var % 3 == 2:
            return UserMat(M, D, Rg, cz.w(d), cz.w(r))
        return odl.MatrixOperator(M, domain=D, range=Rg)
    if t == 'mulvec':
        return odl.MultiplyOperator(cz.elem(d, e['v']))
    if t == 'zero':
        if d == r and var % 2 == 0:
            return odl.ZeroOperator(D)
        return odl.ZeroOperator(D, range=Rg)
    if t == 'sq':
        return odl.PowerOperator(D, 2)
    if t == 'const':
        return odl.ConstantOperator(cz.elem(r, e['v']), domain=D)
    if t == 'shift':
        if var % 2 == 0:
            return odl.OperatorVectorSum(odl.IdentityOperator(D), -cz.elem(d, e['v']))
        return odl.IdentityOperator(D) - cz.elem(d, e['v'])
    if t == 'lscal':
        return scalar_of(e['a'], var) * build_expr(e['l'], d, r, cz, var, nestmat)
    if t == 'sum':
        return build_expr(e['l'], d, r, cz, var, nestmat) + build_expr(e['r'], d, r, cz, var, nestmat)
    if t == 'comp':
        return build_expr(e['l'], d, r, cz, var, nestmat) * build_expr(e['r'], d, d, cz, var, nestmat)
    raise ValueError('leaf kind not supported by the blockops stage: ' + t)


PSO_FORMS = ['list', 'zero', 'tuple', 'objarr', 'coo', 'coo-rev', 'coo-cm']


def scipy_accepts_operators():
    """The docstring still names scipy.sparse matrices of operators; recent SciPy refuses object matrices."""
    try:
        import scipy.sparse
        data = np.empty(1, dtype=object)
        data[0] = odl.IdentityOperator(odl.rn(1))
        scipy.sparse.coo_matrix((data, ([0], [0])), shape=(1, 1))
        return True
    except Exception:
        return False


if scipy_accepts_operators():
    PSO_FORMS.append('scipy')


def to_slice(idx0):
    """0-based index list -> an equivalent slice with positive step, or None."""
    if len(idx0) == 1:
        return slice(idx0[0], idx0[0] + 1)
    step = idx0[1] - idx0[0]
    if step <= 0 or any(b - a != step for a, b in zip(idx0, idx0[1:])):
        return None
    return slice(idx0[0], idx0[-1] + 1, step)


class Built(object):
    pass


def build_root(root, cz, form=0, nestmat=True):
    """Operator description -> real operator.  Returns Built(op, blocks {(i, j): op}, parts [op], form name).
    nestmat = False: matrix leaves are not realised as nested block operators (those have no .inverse)."""
    b = Built()
    b.blocks, b.parts, b.form = {}, [], ''
    k = root['k']

    def blk(bl, var):
        return build_expr(bl['e'], bl['d'], bl['r'], cz, var, nestmat)

    if k == 'pso':
        rows = root['rows']
        m, n = len(rows), len(rows[0])
        for i in range(m):
            for j in range(n):
                if rows[i][j]['p']:
                    b.blocks[(i, j)] = blk(rows[i][j], form + i + j)
        fname = PSO_FORMS[form % len(PSO_FORMS)]
        b.form = fname
        kw = {}
        if root['dom']:
            kw['domain'] = cz.prod(root['dom'], False, form)
        if root['ran']:
            kw['range'] = cz.prod(root['ran'], False, form // 2)
        if fname in ('list', 'zero', 'tuple', 'objarr'):
            absent = 0 if fname == 'zero' else None
            mat = [[b.blocks.get((i, j), absent) for j in range(n)] for i in range(m)]
            if fname == 'tuple':
                mat = tuple(tuple(rw) for rw in mat)
            elif fname == 'objarr':
                a = np.empty((m, n), dtype=object)
                for i in range(m):
                    for j in range(n):
                        a[i, j] = mat[i][j]
                mat = a
            b.op = odl.ProductSpaceOperator(mat, **kw)
        else:
            ent = sorted(b.blocks)
            if fname == 'coo-rev':
                ent = ent[::-1]
            elif fname == 'coo-cm':
                ent = sorted(ent, key=lambda p: (p[1], p[0]))
            data = np.empty(len(ent), dtype=object)
            for q, p in enumerate(ent):
                data[q] = b.blocks[p]
            rr = [p[0] for p in ent]
            cc = [p[1] for p in ent]
            if form % 2 == 1:
                rr, cc = np.array(rr, dtype=int), np.array(cc, dtype=int)
            if fname == 'scipy':
                import contextlib
                import io
                import scipy.sparse
                with contextlib.redirect_stdout(io.StringIO()):       # the constructor prints a deprecation notice
                    b.op = odl.ProductSpaceOperator(scipy.sparse.coo_matrix((data, (rr, cc)), shape=(m, n)), **kw)
            else:
                b.op = odl.ProductSpaceOperator(COOMatrix(data, (rr, cc), (m, n)), **kw)
        return b
    if k in ('bc', 'red', 'diag'):
        cls = {'bc': odl.BroadcastOperator, 'red': odl.ReductionOperator, 'diag': odl.DiagonalOperator}[k]
        kw = {}
        if root['dom']:
            kw['domain'] = cz.prod(root['dom'], False, form)
        if root['ran']:
            kw['range'] = cz.prod(root['ran'], False, form // 2)
        if root['rep'] > 0:
            one = blk(root['rows'][0], form)
            n = root['rep']
            b.parts = [one] * n
            sp = form % 3
            b.form = ['op,n', 'op,np.int64(n)', 'op repeated'][sp]
            if sp == 0:
                b.op = cls(one, n, **kw)
            elif sp == 1:
                b.op = cls(one, np.int64(n), **kw)
            else:
                b.op = cls(*([one] * n), **kw)
        else:
            b.parts = [blk(bl, form + q) for q, bl in enumerate(root['rows'])]
            b.form = 'args'
            b.op = cls(*b.parts, **kw)
        return b
    if k in ('proj', 'emb'):
        cls = odl.ComponentProjection if k == 'proj' else odl.ComponentProjectionAdjoint
        space = cz.prod(root['dom'], False, form)
        idx0 = [i - 1 for i in root['idx']]
        if root['one']:
            index = idx0[0] if form % 2 == 0 else np.int64(idx0[0])
            b.form = 'int' if form % 2 == 0 else 'np.int64'
        else:
            sl = to_slice(idx0)
            if sl is not None and form % 2 == 1:
                index, b.form = sl, 'slice'
            else:
                index, b.form = list(idx0), 'list'
        b.op = cls(space, index)
        return b
    raise ValueError(k)


STEP_NAMES = {'adjoint': 'adjoint', 'deriv': 'derivative', 'row': 'getitem-row', 'block': 'getitem-block',
              'part': 'getitem-part', 'inverse': 'inverse'}


class StepFailed(Exception):
    def __init__(self, pos, step, exc):
        Exception.__init__(self, '%s at step %d (%s): %r' % (type(exc).__name__, pos, step, exc))
        self.pos, self.step, self.exc = pos, step, exc


def apply_chain(b, chain, cur_meta, cz, var=0):
    """Apply the chain of public calls to the real root.  cur_meta: list of (dom types, df) of the object BEFORE each
    step (needed to build derivative points).  Returns the list of objects [root, after step 1, ...]."""
    objs = [b.op]
    op = b.op
    for pos, st in enumerate(chain):
        a = st['a']
        try:
            if a == 'adjoint':
                op = op.adjoint
            elif a == 'deriv':
                types, flat, kind = cur_meta[pos]
                if kind == 'diag' and var % 2 == 1:
                    x = cz.point_like(types, flat, st['x'])        # documented: element-like for DiagonalOperator
                else:
                    x = cz.point(types, flat, st['x'])
                op = op.derivative(x)
            elif a == 'row':
                op = op[st['i'] - 1] if var % 2 == 0 else op[np.int64(st['i'] - 1)]
            elif a == 'block':
                op = op[st['i'] - 1, st['j'] - 1]
            elif a == 'part':
                op = op[st['i'] - 1] if var % 2 == 0 else op.operators[st['i'] - 1]
            elif a == 'inverse':
                op = op.inverse
            else:
                raise ValueError(a)
        except Exception as ex:       # noqa: any exception of the real code is an observation
            raise StepFailed(pos, a, ex)
        objs.append(op)
    return objs


# ====================================================================== meaning of a chain (structure only, for metadata)
def kind_after(k, a):
    if a == 'adjoint':
        return {'pso': 'pso', 'bc': 'red', 'red': 'bc', 'diag': 'diag', 'proj': 'emb', 'emb': 'proj'}.get(k, k)
    if a == 'row':
        return 'red'
    if a in ('block', 'part'):
        return 'plain'
    return k


# ====================================================================== observation of one object
GARBAGE = float('nan')


def observe(op, meta, cz, pts, D, hist=True, alias=False):
    """meta: dict(dom, ran, df, rf, k).  Returns obs dict: flags + list of calls
    [mode, x(abstract), y(projected) | token, notes]."""
    obs = {'calls': [], 'err': ''}
    dom, ran, df, rf = meta['dom'], meta['ran'], meta['df'], meta['rf']
    try:
        obs['dom'], obs['df'] = cz.types_of(op.domain)
        obs['ran'], obs['rf'] = cz.types_of(op.range)
        obs['lin'] = bool(op.is_linear)
    except Exception as ex:
        obs['err'] = 'flags:' + type(ex).__name__
        return obs
    k = meta['k']
    try:
        if k in ('pso', 'diag'):
            obs['shape'] = [int(s) for s in op.shape]
        if k in ('pso', 'bc', 'red', 'diag'):
            obs['len'] = int(len(op))
            obs['size'] = int(op.size)
    except Exception as ex:
        obs['err'] = 'bookkeeping:' + type(ex).__name__
        return obs

    def call(mode, xv, fn):
        rec = {'mode': mode, 'x': xv, 'y': 'raised', 'note': '', 'exc': ''}
        try:
            y, note = fn()
            rec['y'] = cz.project(ran, rf, y, D)
            rec['note'] = note
        except Exception as ex:
            rec['exc'] = type(ex).__name__ + ': ' + str(ex)[:160]
        obs['calls'].append(rec)
        return rec

    def frozen(x):
        return [np.array(p, copy=True) for p in ([x] if df else list(x))]

    def unchanged(x, snap_):
        now = [np.asarray(p) for p in ([x] if df else list(x))]
        return all(np.array_equal(a, b_) for a, b_ in zip(now, snap_))

    last_out = [None]
    for q, xv in enumerate(pts):
        def oop(xv=xv):
            x = cz.point(dom, df, xv)
            s = frozen(x)
            y = op(x)
            note = '' if unchanged(x, s) else 'input-modified'
            if y not in op.range:
                note += ' result-not-in-range'
            last_out[0] = y
            return y, note.strip()
        call('oop', xv, oop)

        def oop_like(xv=xv):
            return op(cz.point_like(dom, df, xv)), ''
        if q == 0:
            call('oop-like', xv, oop_like)

        def inplace(xv=xv):
            x = cz.point(dom, df, xv)
            s = frozen(x)
            out = op.range.element()
            for p in ([out] if rf else list(out)):
                np.asarray(p)[...] = GARBAGE
                p[:] = GARBAGE
            res = op(x, out=out)
            note = '' if unchanged(x, s) else 'input-modified'
            if res is not out:
                note += ' ret-is-not-out'
            return out, note.strip()
        call('inplace', xv, inplace)

        if hist and q == 0:
            # history on the one object: the caller overwrites what the first call returned, re-uses it as `out` for
            # another input and then asks for the first input again
            def reuse(xv=xv):
                x = cz.point(dom, df, xv)
                s = frozen(x)
                y0 = op(x)
                for p in ([y0] if rf else list(y0)):
                    p[:] = 99.0
                note = '' if unchanged(x, s) else 'result-shares-memory-with-input'
                if note:
                    x = cz.point(dom, df, xv)
                    s = frozen(x)
                other = cz.point(dom, df, pts[-1])
                op(other, out=y0)
                y = op(x)
                if not unchanged(x, s):
                    note += ' input-modified'
                return y, note.strip()
            call('history', xv, reuse)

        if alias and q == 0:
            def aliased(xv=xv):
                x = cz.point(dom, df, xv)
                res = op(x, out=x)
                return x, ('' if res is x else 'ret-is-not-out')
            call('alias', xv, aliased)
    return obs


# leaves for which prox(x, out=x)-style aliasing is part of property C10's statement (scaling, multiplication,
# translation, identity / zero / constant assignment)
ALIAS_SAFE_LEAVES = {'id', 'scale', 'mulvec', 'zero', 'const', 'shift'}


def leaves_of(e, acc):
    if e.get('l'):
        leaves_of(e['l'], acc)
        if e.get('r'):
            leaves_of(e['r'], acc)
    else:
        acc.add(e['t'])
    return acc


def root_leaf_kinds(root):
    acc = set()
    rows = root['rows']
    if root['k'] == 'pso':
        for rw in rows:
            for bl in rw:
                if bl['p']:
                    leaves_of(bl['e'], acc)
    else:
        for bl in rows:
            leaves_of(bl['e'], acc)
    return acc


# ====================================================================== comparison of one exported state with real ODL
ROOT_CLASS = {'pso': 'ProductSpaceOperator', 'bc': 'BroadcastOperator', 'red': 'ReductionOperator',
              'diag': 'DiagonalOperator', 'proj': 'ComponentProjection', 'emb': 'ComponentProjectionAdjoint'}


def spaces_class(root):
    ts = set(root['dom']) | set(root['ran'])
    rows = root['rows']
    bls = [bl for rw in rows for bl in rw] if root['k'] == 'pso' else list(rows)
    for bl in bls:
        if bl['p']:
            ts.add(bl['d'])
            ts.add(bl['r'])
    return 'mixed' if len(ts) > 1 else 'uniform'


def chain_name(chain):
    return '>'.join(STEP_NAMES[s['a']] for s in chain) or 'root'


def signature(line, clause, mode='', step=None, part=None):
    root = line['root']
    sig = {'part': 'blockops', 'class': ROOT_CLASS[root['k']], 'chain': chain_name(line['chain']),
           'last': STEP_NAMES[line['chain'][-1]['a']] if line['chain'] else 'root',
           'clause': clause, 'spaces': spaces_class(root)}
    if mode:
        sig['mode'] = mode
    if step:
        sig['step'] = STEP_NAMES.get(step, step)
    if line.get('defect'):
        sig['cell'] = 'row-with-absent-entry-in-foreign-column'
    return sig


def replay_line(line, profile, cname, form, clauses=None):
    """Rebuild and query one exported state.  Returns (violations [(sig, detail)], event, nontrivial, drift [msg])."""
    cz = get_conc(profile, cname)
    root, chain = line['root'], line['chain']
    out, drift = [], []
    detail = {'stage_module': 'blockops', 'profile': profile, 'conc': cname, 'form': form, 'line': strip(line)}
    ev = {'root': root, 'chain': chain, 'built': True, 'err': '', 'obs': {}, 'calls': []}

    def bad(clause, mode='', step=None, **more):
        d = dict(detail)
        d.update(more)
        out.append((signature(line, clause, mode, step), d))

    try:
        b = build_root(root, cz, form, nestmat=not any(s['a'] == 'inverse' for s in chain))
    except Exception as ex:
        ev['built'] = False
        ev['err'] = type(ex).__name__
        if line['root_ok']:
            bad('construction-raised', exc=type(ex).__name__ + ': ' + str(ex)[:200])
        return out, ev, False, drift
    detail['form_name'] = b.form
    if not line['root_ok']:
        bad('construction-accepted', why=line.get('why', ''))
        return out, ev, False, drift
    try:
        objs = apply_chain(b, chain, line['_metas'], cz, form)
    except StepFailed as sf:
        ev['err'] = 'step:%d:%s' % (sf.pos + 1, type(sf.exc).__name__)
        bad('raised', step=sf.step, exc=str(sf)[:300])
        return out, ev, False, drift
    op = objs[-1]
    if line['k'] == 'int0':
        ev['obs'] = {'int0': bool(isinstance(op, (int, np.integer)) and op == 0)}
        if not ev['obs']['int0']:
            bad('absent-block-is-not-0', got=repr(op)[:100])
        return out, ev, False, drift
    if not isinstance(op, odl.Operator):
        ev['err'] = 'not-an-operator'
        bad('not-an-operator', got=repr(op)[:100])
        return out, ev, False, drift
    D = lattice_den(line['pts'], line['vals'])
    # aliasing is claimed for the matrix classes only (see ASSUMPTIONS); projections / embeddings are merely observed
    leafs = root_leaf_kinds(root) if root['k'] not in ('proj', 'emb') else {'not-claimed'}
    want_alias = bool(line['square'])
    obs = observe(op, line, cz, line['pts'], D, hist=True, alias=want_alias)
    ev['obs'] = {kk: obs[kk] for kk in obs if kk != 'calls'}
    ev['calls'] = obs['calls']
    if obs['err']:
        bad('raised', mode=obs['err'])
        return out, ev, False, drift
    if obs['dom'] != line['dom'] or obs['df'] != line['df']:
        bad('domain', got=repr(op.domain))
    if obs['ran'] != line['ran'] or obs['rf'] != line['rf']:
        bad('range', got=repr(op.range))
    if obs['lin'] != line['lin']:
        bad('linear-flag', got=obs['lin'])
    for key in ('shape', 'len', 'size'):
        if key in obs and obs[key] != line[key]:
            bad('bookkeeping-' + key, got=obs[key])
    # identity / structure bookkeeping on the root
    if not chain:
        try:
            if root['k'] == 'pso':
                pos = sorted((int(i), int(j)) for i, j in zip(op.ops.row, op.ops.col))
                if pos != sorted(b.blocks) or tuple(op.ops.shape) != tuple(line['shape']):
                    bad('bookkeeping-ops', got=pos)
            elif root['k'] in ('bc', 'red', 'diag'):
                ops_ = tuple(op.operators)
                if len(ops_) != len(b.parts) or any(o is not p for o, p in zip(ops_, b.parts)):
                    bad('bookkeeping-operators')
        except Exception as ex:
            bad('raised', mode='bookkeeping:' + type(ex).__name__)
    elif len(chain) == 1 and chain[0]['a'] == 'block' and root['k'] == 'pso':
        if op is not b.blocks.get((chain[0]['i'] - 1, chain[0]['j'] - 1)):
            bad('getitem-returns-another-operator')
    elif len(chain) == 1 and chain[0]['a'] == 'part':
        if op is not b.parts[chain[0]['i'] - 1]:
            bad('getitem-returns-another-operator')
    exp = {json.dumps(x): v for x, v in zip(line['pts'], line['vals'])}
    aliasC = {}
    for key_ in ('aliasC', 'aliasCM', 'aliasRR', 'aliasRC'):      # layer-C heap model under the entry orders users can write
        for x, v in zip(line['pts'], line.get(key_) or []):
            aliasC.setdefault(json.dumps(x), []).append(v)
    for rec in obs['calls']:
        want = exp[json.dumps(rec['x'])]
        mode = rec['mode']
        if mode == 'alias':
            demanded = bool(line['aliasClaimed'])
            if rec['y'] == want:
                continue
            if demanded:
                bad('value' if rec['y'] != 'raised' else 'raised', mode=mode, call=rec, expected=want)
            else:
                key = json.dumps(rec['x'])
                if rec['y'] not in aliasC.get(key, []) and line['sep'] is False and leafs <= ALIAS_SAFE_LEAVES:
                    drift.append('aliased call of a non-separable %s: neither layer A nor the layer-C heap model (%s)'
                                 % (ROOT_CLASS[root['k']], chain_name(chain)))
            continue
        if rec['y'] == 'raised':
            bad('raised', mode=mode, call=rec)
        elif rec['y'] != want:
            bad('value', mode=mode, call=rec, expected=want)
        if rec['note']:
            for note in rec['note'].split():
                bad(note, mode=mode, call=rec)
    nontrivial = any(any(c != [[0, 1], [0, 1]] for part in v for c in part) for v in line['vals'])
    return out, ev, nontrivial, drift


def strip(line):
    return {k: v for k, v in line.items() if not k.startswith('_')}


# ====================================================================== TLC jobs
PARTS = ['small', 'wide', 'mixed', 'named', 'proj']
# layer C mirrors the CURRENT code: '0' since /repo commit 573a8a1 (fix of KF-EXT-blockops-1, row extraction with zero
# blocks of the wrong range); '1' reproduces the model of the code before that commit
ROWBUG = os.environ.get('VERIF_BO_ROWBUG', '0')


def plan(tier):
    """(profile, part) combinations: every family of roots under the real field, the space-sensitive families under the
    weighted and complex profiles."""
    if tier == 'quick':
        return [('R', 'all'), ('C', 'mnp'), ('RW', 'mnp'), ('RD', 'mnp')]
    return ([('R', p) for p in ('smallA', 'smallB', 'mixed', 'wide', 'named', 'proj')] + [('C', p) for p in PARTS]
            + [(pr, p) for pr in ('RW', 'RD') for p in ('small', 'mixed', 'named', 'proj')])


def tlc_env(profile, part, tier, out=None):
    env = {'BO_PROFILE': profile, 'BO_PART': part, 'BO_SIZE': 'q' if tier == 'quick' else 't', 'BO_ROWBUG': ROWBUG,
           'BO_CHAIN': '3' if (tier != 'quick' and profile == 'R' and part != 'wide') else '2'}
    env['OUT_FILE'] = out or os.devnull
    return env


def run_models(ctx, laws_cfg, want_export=True):
    """Run the law / refinement check and the export for every planned (profile, part).  Returns {(profile, part): path}."""
    jobs = []
    outs = {}
    for profile, part in plan(ctx.tier):
        jobs.append(('laws', profile, part, None))
        if want_export:
            out = os.path.join(ctx.work, 'blockops_%s_%s.ndjson' % (profile, part))
            if os.path.exists(out):
                os.remove(out)
            outs[(profile, part)] = out
            jobs.append(('export', profile, part, out))

    def go(j):
        kind, profile, part, out = j
        if kind == 'bogus':
            return j, run_tlc('MC_BlockOp.tla', 'MC_BlockOp_bogus.cfg', ctx.work, env=tlc_env(profile, part, 'quick'),
                              workers=1, timeout=3000, heap='2g')
        if kind == 'laws':
            return j, run_tlc('MC_BlockOp.tla', laws_cfg, ctx.work, env=tlc_env(profile, part, ctx.tier),
                              workers=4 if (part == 'all' or ctx.tier != 'quick') else 2, timeout=3000, heap='2g')
        return j, run_tlc('MC_BlockOp.tla', 'MC_BlockOp_export.cfg', ctx.work, env=tlc_env(profile, part, ctx.tier, out),
                          workers=1, timeout=3000, heap='2g')
    jobs.append(('bogus', 'RW', 'mixed', None))
    with ThreadPoolExecutor(max_workers=8) as ex:
        results = list(ex.map(go, jobs))
    for (kind, profile, part, out), res in results:
        if kind == 'bogus':
            # non-vacuity probe: the weight-ignoring "adjoint" must be refuted under the weighted profile
            ctx.add_tlc('blockop-bogus-unweighted-adjoint', res, expect='any')
            if res.status != 'counterexample' or 'BogusUnweightedAdjoint' not in (res.violated or ''):
                raise MachineryError('non-vacuity probe BogusUnweightedAdjoint was not refuted: %r' % res)
            continue
        ctx.add_tlc('blockop-%s-%s-%s' % (kind, profile, part), res)
    return outs


def load_export(path):
    lines, seen = [], set()
    with open(path) as f:
        for ln in f:
            ln = ln.strip()
            if not ln or ln in seen:
                continue
            seen.add(ln)
            lines.append(json.loads(ln))
    return lines


def link_metas(lines):
    """Give every exported state the (dom, df, kind) of the objects BEFORE each of its steps, taken from the exported
    states of its prefixes (every prefix of a chain is itself an exported state), and whether the root is accepted."""
    index = {}
    for ln in lines:
        index[(json.dumps(ln['root'], sort_keys=True), json.dumps(ln['chain'], sort_keys=True))] = ln
    for ln in lines:
        rk = json.dumps(ln['root'], sort_keys=True)
        metas = []
        ok = True
        for q in range(len(ln['chain'])):
            pre = index.get((rk, json.dumps(ln['chain'][:q], sort_keys=True)))
            if pre is None:
                raise MachineryError('export is not prefix-closed')
            metas.append((pre['dom'], pre['df'], pre['k']))
        ln['_metas'] = metas
        rootline = index[(rk, '[]')]
        ln['root_ok'] = bool(rootline['ok'])
        if not ln['ok']:
            ln['k'] = '-'
    return lines


# ---------------------------------------------------------------------- worker (multiprocessing)
def _work(args):
    profile, cname, form, line, clauses = args
    try:
        return replay_line(line, profile, cname, form, clauses)
    except Exception as ex:      # harness failure: reported as machinery by the parent
        import traceback
        return 'ERR', traceback.format_exc(), None, None


def claimed_by(clauses, sig):
    """The restricted stages (C05: adjoint clauses, C06: derivative clauses) do not report what belongs to another
    step of the chain: a step other than theirs that raised, or the cells of the open row-extraction finding."""
    if not clauses:
        return True
    if 'cell' in sig:
        return False
    mine = STEP_NAMES['adjoint' if clauses == 'adjoint' else 'deriv']
    if sig['clause'] == 'raised' and sig.get('step') not in (None, mine):
        return False
    return True


def select(line, clauses):
    if not clauses:
        return True
    acts = [s['a'] for s in line['chain']]
    if clauses == 'adjoint':
        return 'adjoint' in acts
    if clauses == 'deriv':
        return 'deriv' in acts
    return True


def replay_exports(ctx, outs, clauses=None, extra_sig=None, share=1):
    """Replay every exported state; returns the observations of every `share`-th replay (as events for the trace
    specification) - all replays are compared with the exported expectation here."""
    import multiprocessing as mp
    quick = ctx.tier == 'quick'
    tasks = []
    n_lines = 0
    for (profile, part), path in sorted(outs.items()):
        lines = link_metas(load_export(path))
        if not lines:
            raise MachineryError('empty export %s' % path)
        cn = concs_for(profile)
        for q, line in enumerate(lines):
            if not select(line, clauses):
                continue
            n_lines += 1
            reps = 1 if quick else min(2, len(cn))
            for r in range(reps):
                kk = q + r + ctx.seed
                tasks.append((profile, cn[kk % len(cn)], (q // len(cn) + r + 5 * ctx.seed) % 42 if quick else (q + 11 * r + 5 * ctx.seed) % 42,
                              line, clauses))
    nproc = min(12, max(2, (os.cpu_count() or 4) - 2))
    events = []
    nrep = 0
    with mp.get_context('fork').Pool(nproc) as pool:
        for task, res in zip(tasks, pool.imap(_work, tasks, chunksize=64)):
            nrep += 1
            viols, ev, nontrivial, drift = res
            if viols == 'ERR':
                raise MachineryError('blockops replay worker failed:\n' + ev)
            profile, cname, form, line, _ = task
            ctx.count(['blockops', profile, cname, line['root'], line['chain']], nontrivial)
            for sig, detail in viols:
                if extra_sig:
                    sig = dict(sig, **extra_sig)
                if not claimed_by(clauses, sig):
                    continue
                ctx.violation(sig, detail)
            for msg in drift:
                ctx.drift_note(msg)
            ev['profile'], ev['conc'], ev['form'] = profile, cname, form
            if nrep % share == ctx.seed % share:
                events.append(ev)
            if len(ctx.samples) < 3 and nontrivial and len(line['chain']) == 2 and nrep % 211 == 0:
                ctx.sample({'root': line['root'], 'chain': line['chain'], 'concretisation': cname,
                            'expected': line['vals'], 'observed_calls': ev['calls'][:2]})
    ctx.traces += len(tasks)
    ctx.extra['blockops_states_exported'] = ctx.extra.get('blockops_states_exported', 0) + n_lines
    ctx.extra['blockops_replays'] = ctx.extra.get('blockops_replays', 0) + len(tasks)
    return events


# ====================================================================== code -> spec: events for Trace_BlockOp
def event_of(ev, eid, tid):
    """Trace event: the object (root + chain), the flags and the calls observed on the real object."""
    o = ev['obs']
    return {'id': eid, 'tid': tid, 'root': ev['root'], 'chain': ev['chain'], 'built': ev['built'], 'err': ev['err'],
            'int0': bool(o.get('int0', False)),
            'dom': o.get('dom', []), 'df': bool(o.get('df', False)), 'ran': o.get('ran', []), 'rf': bool(o.get('rf', False)),
            'lin': bool(o.get('lin', False)),
            'shape': o.get('shape', []), 'len': o.get('len', -1), 'size': o.get('size', -1),
            'calls': [{'mode': c['mode'], 'x': c['x'], 'y': c['y'] if isinstance(c['y'], list) and all(isinstance(p, list) for p in c['y']) else [],
                       'tok': '' if isinstance(c['y'], list) and all(isinstance(p, list) for p in c['y']) else 'bad-result',
                       'note': c['note'] if c['note'] in NOTES else ''} for c in ev['calls']]}


NOTES = ('input-modified', 'ret-is-not-out', 'result-not-in-range', 'result-shares-memory-with-input')


def validate_events(ctx, groups, extra_sig=None, clauses=None):
    """groups: {profile: [ev...]}.  Writes chunks, runs Trace_BlockOp, maps rejected events to violations."""
    files = []
    chunk = 1500 if ctx.tier == 'quick' else 6000
    for profile, evs in sorted(groups.items()):
        for c0 in range(0, len(evs), chunk):
            p = os.path.join(ctx.work, 'bo_trace_%s_%d.ndjson' % (profile, c0))
            with open(p, 'w') as f:
                for k, ev in enumerate(evs[c0:c0 + chunk]):
                    f.write(json.dumps(event_of(ev, c0 + k, ev.get('tid', 0))) + '\n')
            files.append((profile, c0, p))

    selfcheck = corrupted_events(groups)
    if selfcheck:
        profile, evs_sc, expect_sc = selfcheck
        p = os.path.join(ctx.work, 'bo_trace_selfcheck.ndjson')
        with open(p, 'w') as f:
            for k, e in enumerate(evs_sc):
                f.write(json.dumps(dict(e, id=k)) + '\n')
        files.append((profile, -1, p))

    def val(j):
        profile, c0, p = j
        return j, run_tlc('Trace_BlockOp.tla', 'Trace_BlockOp.cfg', ctx.work,
                          env={'TRACE_FILE': p, 'BO_PROFILE': profile, 'BO_ROWBUG': ROWBUG}, workers=1, timeout=3000, heap='2g')
    with ThreadPoolExecutor(max_workers=8) as ex:
        res = list(ex.map(val, files))
    nfail = 0
    nev = 0
    for (profile, c0, p), r in res:
        if c0 == -1:
            # the trace specification must reject exactly the corrupted copies, each for the corrupted clause
            ctx.add_tlc('blockop-trace-selfcheck', r)
            got = {}
            for _ln, eid, cl in parse_fails(r.output):
                got[eid] = set(re.findall(r'<<\s*"([\w-]+)"\s*,', cl))
            # groups of 6 lines: an unmodified control followed by 5 corrupted copies of it.  A control that is itself
            # rejected (the tree under test misbehaves on that very object) tells nothing: its group is left out.
            ids = sorted(expect_sc)
            nrej = nctl = 0
            for g0 in range(0, len(ids), 6):
                grp = ids[g0:g0 + 6]
                if grp[0] in got:
                    continue
                nctl += 1
                for k in grp[1:]:
                    if expect_sc[k] not in got.get(k, set()):
                        raise MachineryError('Trace_BlockOp self-check: corrupted copy %d (%s) was not rejected for that '
                                             'clause: %r' % (k, expect_sc[k], got.get(k)))
                    nrej += 1
            if nctl == 0:
                ctx.skip('Trace_BlockOp self-check: every control event was rejected')
            ctx.extra['blockops_trace_selfcheck'] = 'rejected %d corrupted copies, accepted %d controls' % (nrej, nctl)
            continue
        ctx.add_tlc('blockop-trace-%s-%d' % (profile, c0), r)
        evs = groups[profile]
        for _ln, eid, cl in parse_fails(r.output):
            nfail += 1
            ev = evs[eid]
            line = {'root': ev['root'], 'chain': ev['chain'], 'defect': 'row-defect-cell' in cl}
            for clause, mode in sorted(set(re.findall(r'<<\s*"([\w-]+)"\s*,\s*"([\w-]*)"\s*>>', cl))):
                if clause == 'row-defect-cell':
                    continue
                step = None
                m_ = re.match(r'step:(\d+):', ev.get('err') or '')
                if clause == 'raised' and m_:
                    step = ev['chain'][int(m_.group(1)) - 1]['a']
                sig = signature(line, clause, mode, step)
                if extra_sig:
                    sig = dict(sig, **extra_sig)
                if not claimed_by(clauses, sig):
                    continue
                ctx.violation(sig, {'stage_module': 'blockops', 'stage': 'trace', 'profile': profile, 'conc': ev.get('conc'),
                                    'form': ev.get('form'), 'event': event_of(ev, eid, 0), 'tlc_clauses': cl})
    for profile, evs in groups.items():
        nev += len(evs)
    ctx.extra['blockops_events_validated'] = ctx.extra.get('blockops_events_validated', 0) + nev
    ctx.extra['blockops_events_rejected'] = ctx.extra.get('blockops_events_rejected', 0) + nfail
    ctx.traces += nev
    return nfail


def corrupted_events(groups):
    """Binding self-check: copies of accepted events with ONE field corrupted each, plus unmodified controls."""
    import copy
    for profile in sorted(groups):
        good = [e for e in groups[profile]
                if e['built'] and not e['err'] and e['calls'] and e['root']['k'] == 'pso' and not e['chain']
                and all(isinstance(c['y'], list) and all(isinstance(p, list) for p in c['y']) and not c['note']
                        for c in e['calls'])]
        if len(good) < 3:
            continue
        out, expect = [], {}

        def add(ev, clause):
            expect[len(out)] = clause
            out.append(ev)
        for src in good[:3]:
            base = event_of(src, 0, 0)
            add(copy.deepcopy(base), None)
            e = copy.deepcopy(base)
            e['lin'] = not e['lin']
            add(e, 'linear-flag')
            e = copy.deepcopy(base)
            q = e['calls'][0]['y'][0][0][0]
            e['calls'][0]['y'][0][0][0] = [q[0] + 1, q[1]]
            add(e, 'value')
            e = copy.deepcopy(base)
            e['dom'] = e['dom'] + ['S']
            add(e, 'domain')
            e = copy.deepcopy(base)
            e['calls'][-1]['note'] = 'ret-is-not-out'
            add(e, 'ret-is-not-out')
            e = copy.deepcopy(base)
            e['shape'] = [e['shape'][1] + 1, e['shape'][0]]
            add(e, 'bookkeeping-shape')
        return profile, out, expect
    return None


# ====================================================================== drivers beyond the TLC constants
def _leaf(t, a=None, v=None, m=None):
    z = [[0, 1], [0, 1]]
    return {'t': t, 'a': a or z, 'v': v or [], 'm': m or [], 'n': 0, 'l': [], 'r': []}


def _rq(rnd, cplx, den=2, lim=3):
    n = rnd.randint(-lim * den, lim * den)
    if cplx and rnd.random() < 0.5:
        return qc(Fraction(n, den), Fraction(rnd.randint(-lim, lim)))
    return qc(Fraction(n, den))


def _nz(rnd, cplx):
    while True:
        c = _rq(rnd, cplx, 1, 3)
        if c != [[0, 1], [0, 1]]:
            return c


def random_leaf(rnd, d, r, cplx, linear_only=False):
    dim = {'V': 2, 'S': 1}
    if d != r:
        if rnd.random() < 0.2:
            return _leaf('zero')
        return _leaf('mat', m=[[_rq(rnd, cplx, 1, 2) for _ in range(dim[d])] for _ in range(dim[r])])
    kinds = ['id', 'scale', 'mat', 'mulvec', 'zero'] + ([] if linear_only else ['sq', 'shift', 'const', 'lscal-sq'])
    t = rnd.choice(kinds)
    if t == 'scale':
        return _leaf('scale', a=_nz(rnd, cplx))
    if t == 'mat':
        return _leaf('mat', m=[[_rq(rnd, cplx, 1, 2) for _ in range(dim[d])] for _ in range(dim[r])])
    if t in ('mulvec', 'shift', 'const'):
        # a zero constant / shift is a LINEAR map although the expression is not structurally linear: keep parameters
        # away from the degenerate values
        return _leaf(t, v=[_nz(rnd, cplx) if q == 0 else _rq(rnd, cplx, 2, 2) for q in range(dim[d])])
    if t == 'lscal-sq':
        e = _leaf('lscal', a=_nz(rnd, cplx))
        e['l'] = _leaf('sq')
        return e
    return _leaf(t)


def _blk(e, d, r):
    return {'p': True, 'e': e, 'd': d, 'r': r}


NOB = {'p': False, 'e': _leaf('zero'), 'd': '-', 'r': '-'}


def _desc(k, rows, dom=None, ran=None, idx=None, one=False, rep=0):
    return {'k': k, 'rows': rows, 'dom': dom or [], 'ran': ran or [], 'idx': idx or [], 'one': one, 'rep': rep}


def random_root(rnd, cplx):
    """A root outside the TLC constants: larger shapes, random parameters, mixed factors."""
    kind = rnd.choice(['pso', 'pso', 'pso', 'bc', 'red', 'diag', 'proj', 'emb'])
    ty = lambda: rnd.choice(['V', 'V', 'S'])
    lin = rnd.random() < 0.5
    if kind == 'pso':
        m, n = rnd.choice([(3, 3), (1, 4), (4, 1), (2, 4), (3, 2), (2, 2), (3, 1)])
        dom, ran = [ty() for _ in range(n)], [ty() for _ in range(m)]
        dens_ = rnd.choice([0.4, 0.7, 1.0])
        rows = [[_blk(random_leaf(rnd, dom[j], ran[i], cplx, lin), dom[j], ran[i]) if rnd.random() < dens_ else NOB
                 for j in range(n)] for i in range(m)]
        g = rnd.choice(['none', 'both', 'both', 'dom', 'ran'])
        return _desc('pso', rows, dom if g in ('both', 'dom') else None, ran if g in ('both', 'ran') else None)
    if kind in ('bc', 'red', 'diag'):
        n = rnd.choice([2, 3, 4])
        if rnd.random() < 0.25:
            d = ty()
            return _desc(kind, [_blk(random_leaf(rnd, d, d, cplx, lin), d, d)], rep=rnd.choice([1, 2, 4]))
        if kind == 'bc':
            d = ty()
            parts = [(d, ty()) for _ in range(n)]
        elif kind == 'red':
            r = ty()
            parts = [(ty(), r) for _ in range(n)]
        else:
            parts = [(ty(), ty()) for _ in range(n)]
        return _desc(kind, [_blk(random_leaf(rnd, d, r, cplx, lin), d, r) for d, r in parts])
    n = rnd.choice([2, 3, 4])
    space = [ty() for _ in range(n)]
    if rnd.random() < 0.4:
        return _desc(kind, [], dom=space, idx=[rnd.randint(1, n)], one=True)
    k = rnd.randint(1, n)
    return _desc(kind, [], dom=space, idx=rnd.sample(range(1, n + 1), k), one=False)


class Shadow(object):
    """Structural shadow of the object a chain has produced (factor types, flatness, kind, presence pattern,
    linearity of the blocks) - what the driver needs to CHOOSE further steps and build points; it decides nothing."""

    def __init__(self, root):
        k = root['k']
        self.k = k
        self.ok = True
        self.df = self.rf = False
        if k == 'pso':
            rows = root['rows']
        elif k in ('bc', 'red', 'diag'):
            parts = root['rows'] * root['rep'] if root['rep'] else root['rows']
            if k == 'bc':
                rows = [[p] for p in parts]
                self.df = True
            elif k == 'red':
                rows = [parts]
                self.rf = True
            else:
                rows = [[parts[i] if i == j else NOB for j in range(len(parts))] for i in range(len(parts))]
        else:
            sp, idx = root['dom'], root['idx']
            idb = lambda t: _blk(_leaf('id'), t, t)
            if k == 'proj':
                rows = [[idb(sp[c]) if c + 1 == idx[r] else NOB for c in range(len(sp))] for r in range(len(idx))]
                self.rf = root['one']
            else:
                rows = [[idb(sp[r]) if r + 1 == idx[c] else NOB for c in range(len(idx))] for r in range(len(sp))]
                self.df = root['one']
        self.m, self.n = len(rows), len(rows[0])
        self.pres = [[bool(b['p']) for b in rw] for rw in rows]
        self.lin = [[(not b['p']) or expr_linear(b['e']) for b in rw] for rw in rows]
        gd, gr = root['dom'] if k in ('pso', 'diag') else [], root['ran'] if k in ('pso', 'diag') else []
        self.dom, self.ran = [], []
        if k in ('proj', 'emb'):
            sub = [root['dom'][i - 1] for i in root['idx']]
            self.dom, self.ran = (list(root['dom']), sub) if k == 'proj' else (sub, list(root['dom']))
            return
        for j in range(self.n):
            ts = {rows[i][j]['d'] for i in range(self.m) if rows[i][j]['p']} | ({gd[j]} if gd else set())
            if len(ts) != 1:
                self.ok = False
            self.dom.append(sorted(ts)[0] if ts else '?')
        for i in range(self.m):
            ts = {rows[i][j]['r'] for j in range(self.n) if rows[i][j]['p']} | ({gr[i]} if gr else set())
            if len(ts) != 1:
                self.ok = False
            self.ran.append(sorted(ts)[0] if ts else '?')

    def linear(self):
        return all(all(rw) for rw in self.lin)

    def step(self, st):
        a = st['a']
        s = Shadow.__new__(Shadow)
        s.ok = True
        if a == 'adjoint':
            s.k = kind_after(self.k, a)
            s.m, s.n = self.n, self.m
            s.pres = [[self.pres[i][j] for i in range(self.m)] for j in range(self.n)]
            s.lin = [[True] * s.n for _ in range(s.m)]
            s.dom, s.ran, s.df, s.rf = self.ran, self.dom, self.rf, self.df
        elif a == 'deriv':
            s.k, s.m, s.n, s.pres = self.k, self.m, self.n, self.pres
            s.lin = [[True] * s.n for _ in range(s.m)]
            s.dom, s.ran, s.df, s.rf = self.dom, self.ran, self.df, self.rf
        elif a == 'row':
            i = st['i'] - 1
            s.k, s.m, s.n = 'red', 1, self.n
            s.pres = [[True] * self.n]
            s.lin = [list(self.lin[i])]
            s.dom, s.ran, s.df, s.rf = self.dom, [self.ran[i]], False, True
        else:
            s.k = 'terminal'
            s.m = s.n = 0
            s.pres, s.lin, s.dom, s.ran, s.df, s.rf = [], [], [], [], False, False
        return s


def expr_linear(e):
    if e.get('l'):
        if e['t'] in ('sum', 'sub', 'comp'):
            return expr_linear(e['l']) and expr_linear(e['r'])
        if e['t'] in ('lscal', 'neg', 'rscal'):
            return expr_linear(e['l'])
        return False
    return e['t'] in ('id', 'scale', 'mat', 'mulvec', 'zero')


def random_points(rnd, types, cplx, n=2):
    dim = {'V': 2, 'S': 1}
    return [[[_rq(rnd, cplx, 2, 3) for _ in range(dim[t])] for t in types] for _ in range(n)]


def random_episode(rnd, profile, tid):
    """One driver episode: a random root, a random chain of up to 3 steps; the objects after every prefix are observed.
    Returns the list of raw events (each to be judged by Trace_BlockOp)."""
    cplx = profile == 'C'
    cn = rnd.choice(concs_for(profile))
    cz = get_conc(profile, cn)
    form = rnd.randint(0, 20)
    root = random_root(rnd, cplx)
    sh = Shadow(root)
    evs = []

    def mk(chain, **kw):
        ev = {'root': root, 'chain': list(chain), 'built': True, 'err': '', 'obs': {}, 'calls': [], 'tid': tid,
              'profile': profile, 'conc': cn, 'form': form}
        ev.update(kw)
        return ev
    try:
        b = build_root(root, cz, form)
    except Exception as ex:
        return [mk([], built=False, err=type(ex).__name__)]
    if not sh.ok:
        return [mk([])]          # built although the description is inconsistent: the trace spec judges
    chain, metas, cur, op = [], [], sh, b.op
    for depth in range(4):
        if depth:
            # choose the next step
            cands = []
            if cur.k == 'terminal':
                break
            if cur.linear():
                cands.append({'a': 'adjoint', 'i': 0, 'j': 0, 'x': []})
            if not cur.linear() or depth == 1:
                cands.append({'a': 'deriv', 'i': 0, 'j': 0, 'x': random_points(rnd, cur.dom, cplx, 1)[0]})
            if cur.k == 'pso':
                cands.append({'a': 'row', 'i': rnd.randint(1, cur.m), 'j': 0, 'x': []})
                cands.append({'a': 'block', 'i': rnd.randint(1, cur.m), 'j': rnd.randint(1, cur.n), 'x': []})
            if cur.k in ('bc', 'red', 'diag'):
                ln = cur.m if cur.k == 'bc' else cur.n
                cands.append({'a': 'part', 'i': rnd.randint(1, ln), 'j': 0, 'x': []})
            if not cands:
                break
            st = rnd.choice(cands)
            metas.append((cur.dom, cur.df, cur.k))
            chain.append(st)
            try:
                op = apply_chain_from(op, st, metas[-1], cz, form)
            except StepFailed as sf:
                evs.append(mk(chain, err='step:%d:%s' % (len(chain), type(sf.exc).__name__)))
                break
            cur = cur.step(st)
        if cur.k == 'terminal':
            if chain[-1]['a'] == 'block' and not isinstance(op, odl.Operator):
                evs.append(mk(chain, obs={'int0': bool(isinstance(op, (int, np.integer)) and op == 0)}))
            # a component operator on its own is the leaf's business, not observed here
            break
        pts = random_points(rnd, cur.dom, cplx, 2)
        meta = {'dom': cur.dom, 'ran': cur.ran, 'df': cur.df, 'rf': cur.rf, 'k': cur.k}
        D = 2 ** 6
        square = (cur.dom == cur.ran and not cur.df and not cur.rf)
        sep = square and all(not cur.pres[i][j] or i == j for i in range(cur.m) for j in range(cur.n))
        obs = observe(op, meta, cz, pts, D, hist=True, alias=sep and root_safe(root))
        evs.append(mk(chain, obs={k: obs[k] for k in obs if k != 'calls'}, calls=obs['calls'],
                      err=obs['err']))
    return evs


def root_safe(root):
    return root['k'] in ('pso', 'diag') and root_leaf_kinds(root) <= ALIAS_SAFE_LEAVES


def apply_chain_from(op, st, meta, cz, var):
    b = Built()
    b.op = op
    return apply_chain(b, [st], [meta], cz, var)[-1]


# ====================================================================== stages
ASSUMPTIONS = [
    'blockops: component spaces V = 2 abstract entries (rn(2), weighted rn(2), cn(2), uniform_discr with 2 cells, '
    'float32 / complex64 variants, 120-entry periodic tilings), S = 1 entry (rn(1) / cn(1) / 1-cell uniform_discr); '
    'a Field (RealNumbers) is not accepted as a product-space factor by ODL, so the field never appears as a factor',
    'blockops: product spaces are unweighted (documented: weighted product spaces are not supported); weighted '
    'COMPONENT spaces are used with a user-defined matrix operator whose adjoint honours the weights '
    '(MatrixOperator.adjoint does not: KF-C05-5)',
    'blockops: the aliased call P(x, out=x) is demanded only where row i reads x_i alone (diagonal patterns) and the '
    'blocks are operators whose aliased call is part of C10 (identity, scaling, multiplication, translation, zero, '
    'constant); for other patterns the documentation is silent: the observed value is compared with the layer-C heap '
    'model and a difference is reported as drift only',
    'blockops: nothing is demanded of .adjoint of a non-linear block operator, of negative / slice indices in '
    'ProductSpaceOperator.__getitem__, of duplicate COO entries, of domain= / range= whose length differs from the '
    'matrix shape, of scipy.sparse input (the installed SciPy rejects object matrices), or of .derivative(x) with a '
    'non-element x (documented as `domain` element except for DiagonalOperator)',
    'blockops: construction errors are compared as accepted / rejected only (the exception class is not documented)',
]


def _finish_meta(ctx):
    for a in ASSUMPTIONS:
        if a not in ctx.assumptions:
            ctx.assumptions.append(a)


def _drivers(ctx, clauses=None):
    quick = ctx.tier == 'quick'
    rnd = random.Random(1000003 * ctx.seed + 17)
    groups = {}
    nep = 260 if quick else 1500
    tid = 0
    for q in range(nep):
        profile = ('R', 'RW', 'C', 'RD', 'R', 'C')[q % 6]
        tid += 1
        for ev in random_episode(rnd, profile, tid):
            if clauses and not select(ev, clauses):
                continue
            groups.setdefault(profile, []).append(ev)
            ctx.count(['blockops-driver', profile, ev['root'], ev['chain']], bool(ev['calls']))
    return groups


def run_stage(ctx, clauses=None, extra_sig=None, laws_cfg='MC_BlockOp_laws.cfg'):
    import time
    _finish_meta(ctx)
    if 'scipy' not in PSO_FORMS:
        ctx.skip('blockops: scipy.sparse matrices of operators not exercised (the installed SciPy refuses object dtype)')
    t0 = time.time()
    outs = run_models(ctx, laws_cfg)
    t1 = time.time()
    # every driver event and a deterministic share of the replayed ones go through the trace specification
    share = 3 if ctx.tier == 'quick' else 2
    events = replay_exports(ctx, outs, clauses, extra_sig, share)
    t2 = time.time()
    groups = _drivers(ctx, clauses)
    t3 = time.time()
    for ev in events:
        groups.setdefault(ev['profile'], []).append(ev)
    validate_events(ctx, groups, extra_sig, clauses)
    ctx.extra['blockops_wall_s'] = {'tlc_models': round(t1 - t0, 1), 'replay': round(t2 - t1, 1),
                                    'drivers': round(t3 - t2, 1), 'trace_validation': round(time.time() - t3, 1)}
    dbg = os.environ.get('BLOCKOPS_SUMMARY')
    if dbg:
        # construction aid only (evidence/EXT.json is shared by all extension stages): a summary of this stage alone
        fam = {}
        for sig, _path in ctx.violations:
            if sig.get('part') == 'blockops':
                key = json.dumps(sig, sort_keys=True)
                fam[key] = fam.get(key, 0) + 1
        with open(dbg, 'w') as f:
            json.dump({'extra': {k: v for k, v in ctx.extra.items() if k.startswith('blockops')},
                       'tlc': [r for r in ctx.tlc_runs if r['name'].startswith('blockop')],
                       'families': fam, 'drift': ctx.drift, 'evaluations': ctx.evaluations}, f, indent=1)
    return ctx.extra.get('blockops_replays', 0)


def run_stage_c05(ctx):
    """Only the adjoint clauses (for staging into C05)."""
    return run_stage(ctx, clauses='adjoint', extra_sig={'part': 'blockops'}, laws_cfg='MC_BlockOp_adj.cfg')


def run_stage_c06(ctx):
    """Only the derivative clauses (for staging into C06)."""
    return run_stage(ctx, clauses='deriv', extra_sig={'part': 'blockops'}, laws_cfg='MC_BlockOp_der.cfg')


def replay(body):
    d = body['detail']
    if d.get('stage') == 'trace':
        print('trace-stage violation: event', json.dumps(d['event'])[:600])
        print('TLC clauses:', d.get('tlc_clauses'))
        print('re-run ./vcheck EXT with VERIF_EXT=blockops')
        return 0
    line = d['line']
    # the metas of the prefixes are needed for derivative points: recompute structurally
    sh = Shadow(line['root'])
    metas = []
    for st in line['chain']:
        metas.append((sh.dom, sh.df, sh.k))
        sh = sh.step(st)
    line['_metas'] = metas
    line.setdefault('root_ok', True)
    viols, ev, _nt, _dr = replay_line(line, d['profile'], d['conc'], d['form'])
    print('root   :', json.dumps(line['root'])[:400])
    print('chain  :', chain_name(line['chain']), ' concretisation:', d['profile'], d['conc'], 'form', d.get('form_name'))
    for sig, det in viols:
        print('clause :', sig['clause'], sig.get('mode', ''), sig.get('step', ''), det.get('exc', ''), det.get('call', ''))
    want = body['signature']['clause']
    hit = any(sig['clause'] == want for sig, _ in viols)
    print('REPRODUCED' if hit else 'NOT-REPRODUCED')
    return 1 if hit else 0

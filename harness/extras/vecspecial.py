"""C01 stage "special values": IEEE special entries (inf, -inf, nan) next to ordinary ones under every operation form.

Layer A is spec/sem/VecSpecial.tla (extended-real entry-wise arithmetic); spec/cfg/MC_VecSpecial.tla exports one case
per operation form x scalar whose vectors hold every PAIR of values once, with the expected vector (and, for a lincomb
with a zero coefficient, the alternative with that term dropped).  Each case is replayed on real ODL elements under
sizes in every internal regime of the implementation (small < 100 <= medium < 50000 <= large), float32 / float64,
C / F / strided layouts, tensor / discretised / product spaces and every spelling of the operation; seeded random cases
with other finite values are recorded as events and validated by spec/trace/Trace_VecSpecial.tla.

The property quantifies over "all element values"; the main VecMachine stages only use finite lattice values.
"""
import json
import math
import os
import random
import re
from fractions import Fraction

import numpy as np
import odl

from ..concrete import Concrete, cyc
from ..tlc import run_tlc, parse_fails
from ..common import MachineryError

INF, NINF, NAN = [1, 0], [-1, 0], [0, 0]


def q_to_float(q):
    n, d = q
    if d == 0:
        return float('inf') if n > 0 else float('-inf') if n < 0 else float('nan')
    return n / d


def float_to_q(v):
    v = float(v)
    if math.isnan(v):
        return NAN
    if math.isinf(v):
        return INF if v > 0 else NINF
    fr = Fraction(v)
    if fr.denominator > 4096 or abs(fr.numerator) > 10 ** 6:
        return 'off'
    return [fr.numerator, fr.denominator]


def scalar(q, rnd):
    fr = Fraction(q[0], q[1])
    if fr.denominator == 1 and rnd.random() < 0.5:
        return int(fr)
    return float(fr)


def make(cz, per, n):
    flat = cyc(np.array([q_to_float(q) for q in per], dtype=cz.dtype), n)
    sp = cz.space
    if cz.kind in ('tensor', 'discr'):
        return sp.element(cz._leaf_array(flat, sp.shape))
    return cz._pspace_element(sp, flat)


def observe(cz, x, plen):
    """first period as Q / tokens, after checking that the whole array is the tiling of it"""
    flat = cz.flat(x)
    if flat.size != cz.n:
        return None, 'size'
    per = flat[:plen]
    ref = cyc(per, flat.size)
    same = (flat == ref) | (np.isnan(flat) & np.isnan(ref))
    if not bool(np.all(same)):
        return None, 'tiling-broken-at-%d' % int(np.argmin(same))
    out = [float_to_q(v) for v in per]
    if 'off' in out:
        return None, 'offlattice'
    return out, ''


def spellings(case):
    """name -> callable(space, x, y, a, b, fresh) returning the result element; x / y are private copies"""
    op = case['op']
    S = {}
    if op == 'smul':
        S['x*a'] = lambda sp, x, y, a, b, out: x * a
        S['a*x'] = lambda sp, x, y, a, b, out: a * x
        S['x*=a'] = lambda sp, x, y, a, b, out: x.__imul__(a)
        S['sp.lincomb(a,x)'] = lambda sp, x, y, a, b, out: sp.lincomb(a, x)
        S['sp.lincomb(a,x,out)'] = lambda sp, x, y, a, b, out: sp.lincomb(a, x, out=out)
        S['out.lincomb(a,x)'] = lambda sp, x, y, a, b, out: out.lincomb(a, x)
        S['x.lincomb(a,x)'] = lambda sp, x, y, a, b, out: x.lincomb(a, x)
    elif op == 'sdiv':
        S['x/a'] = lambda sp, x, y, a, b, out: x / a
        S['x/=a'] = lambda sp, x, y, a, b, out: x.__itruediv__(a)
    elif op == 'neg':
        S['-x'] = lambda sp, x, y, a, b, out: -x
    elif op == 'pos':
        S['+x'] = lambda sp, x, y, a, b, out: +x
    elif op == 'copy':
        S['x.copy()'] = lambda sp, x, y, a, b, out: x.copy()
        S['sp.element(x)'] = lambda sp, x, y, a, b, out: sp.element(x)
    elif op == 'assign':
        S['out.assign(x)'] = lambda sp, x, y, a, b, out: (out.assign(x), out)[1]
        S['out[:]=x'] = lambda sp, x, y, a, b, out: (out.__setitem__(slice(None), x), out)[1]
    elif op == 'sadd':
        S['x+a'] = lambda sp, x, y, a, b, out: x + a
        S['a+x'] = lambda sp, x, y, a, b, out: a + x
        S['x+=a'] = lambda sp, x, y, a, b, out: x.__iadd__(a)
    elif op == 'ssub':
        S['x-a'] = lambda sp, x, y, a, b, out: x - a
        S['x-=a'] = lambda sp, x, y, a, b, out: x.__isub__(a)
    elif op == 'rsub':
        S['a-x'] = lambda sp, x, y, a, b, out: a - x
    elif op == 'rdiv':
        S['a/x'] = lambda sp, x, y, a, b, out: a / x
    elif op == 'add':
        S['x+y'] = lambda sp, x, y, a, b, out: x + y
        S['x+=y'] = lambda sp, x, y, a, b, out: x.__iadd__(y)
        S['sp.lincomb(1,x,1,y)'] = lambda sp, x, y, a, b, out: sp.lincomb(1, x, 1, y)
        S['y.lincomb(1,x,1,y)'] = lambda sp, x, y, a, b, out: y.lincomb(1, x, 1, y)
    elif op == 'sub':
        S['x-y'] = lambda sp, x, y, a, b, out: x - y
        S['x-=y'] = lambda sp, x, y, a, b, out: x.__isub__(y)
        S['sp.lincomb(1,x,-1,y,out)'] = lambda sp, x, y, a, b, out: sp.lincomb(1, x, -1, y, out=out)
    elif op == 'mul':
        S['x*y'] = lambda sp, x, y, a, b, out: x * y
        S['x*=y'] = lambda sp, x, y, a, b, out: x.__imul__(y)
        S['x.multiply(y,out)'] = lambda sp, x, y, a, b, out: x.multiply(y, out=out)
        S['sp.multiply(x,y)'] = lambda sp, x, y, a, b, out: sp.multiply(x, y)
    elif op == 'div':
        S['x/y'] = lambda sp, x, y, a, b, out: x / y
        S['x/=y'] = lambda sp, x, y, a, b, out: x.__itruediv__(y)
        S['sp.divide(x,y)'] = lambda sp, x, y, a, b, out: sp.divide(x, y)
        S['x.divide(y,out)'] = lambda sp, x, y, a, b, out: x.divide(y, out=out)
    elif op == 'lincomb':
        S['sp.lincomb(a,x,b,y)'] = lambda sp, x, y, a, b, out: sp.lincomb(a, x, b, y)
        S['sp.lincomb(a,x,b,y,out)'] = lambda sp, x, y, a, b, out: sp.lincomb(a, x, b, y, out=out)
        S['x.lincomb(a,x,b,y)'] = lambda sp, x, y, a, b, out: x.lincomb(a, x, b, y)
        S['y.lincomb(a,x,b,y)'] = lambda sp, x, y, a, b, out: y.lincomb(a, x, b, y)
    return S


def regime(n):
    return 'small' if n < 100 else 'medium' if n < 50000 else 'large'


def combos(tier, plen):
    """(kind, n, dtype, layout): sizes are multiples of the period so that every tile is complete"""
    small, medium, large = plen, plen * (100 // plen + 1), plen * (50000 // plen + 1)
    out = [('tensor', small, 'float64', 'C1'), ('tensor', medium, 'float64', 'C1'), ('tensor', large, 'float64', 'C1'),
           ('tensor', small, 'float32', 'C1'), ('tensor', medium, 'float32', 'F'), ('tensor', 2 * medium, 'float64', 'S'),
           ('discr', small, 'float64', 'C1'), ('discr', medium, 'float64', 'C1'),
           ('power', 2 * small, 'float64', 'C1'), ('pspace', 2 * medium, 'float64', 'C1')]
    if tier == 'thorough':
        out += [('tensor', large, 'float32', 'C1'), ('tensor', 2 * large, 'float64', 'F'), ('discr', large, 'float32', 'C1'),
                ('power', 2 * large, 'float64', 'C1'), ('nested', 4 * medium, 'float64', 'C1'),
                ('tensor', 2 * small, 'float64', 'S'), ('tensor', 2 * small, 'float64', 'F')]
    return out


def run_case(ctx, case, exp, alt, cz, rnd, events, eid, stage):
    plen = len(case['x'])
    # product-like kinds hold the period in every part only if the part sizes are multiples of the period
    for name, fn in sorted(spellings(case).items()):
        x = make(cz, case['x'], cz.n)
        y = make(cz, case['y'], cz.n) if case['y'] else None
        out = cz.element(fill=float('nan'))
        a = scalar(case['a'], rnd) if case['a'][0] != 0 else 0
        b = scalar(case['b'], rnd) if case['b'][0] != 0 else 0
        sig = {'part': 'special-values', 'op': case['op'], 'regime': regime(cz.n if cz.kind in ('tensor', 'discr')
                                                                          else cz.n // len(cz.space)),
               'kind': cz.kind, 'zero_coeff': 'yes' if (case['op'] == 'lincomb' and 0 in (case['a'][0], case['b'][0])) else 'no'}
        detail = {'stage_kind': stage, 'case': case, 'spelling': name, 'concretisation': cz.key(), 'expected': exp,
                  'alternative': alt}
        ctx.count(['special', case['op'], case['a'], case['b'], name, cz.key()], True)
        try:
            with np.errstate(all='ignore'):
                res = fn(cz.space, x, y, a, b, out)
        except Exception as ex:
            ctx.violation(dict(sig, clause='raised', exc=type(ex).__name__), dict(detail, error=str(ex)[:200]))
            continue
        val, note = observe(cz, res, plen)
        if val is None:
            ctx.violation(dict(sig, clause='value', note=note.split('-at-')[0]), dict(detail, note=note))
            continue
        if stage == 'replay':
            bad = [i for i in range(plen) if val[i] != exp[i] and not (alt and val[i] == alt[i])]
            if bad:
                ctx.violation(dict(sig, clause='value', got=_kind(val[bad[0]]), want=_kind(exp[bad[0]])),
                              dict(detail, observed=val, bad_entries=bad))
        else:
            events.append({'id': eid[0], 'case': case, 'val': val, 'err': '',
                           'meta': {'sig': sig, 'detail': detail}})
            eid[0] += 1


def _kind(q):
    return 'nan' if q == NAN else 'inf' if q in (INF, NINF) else 'finite'


def run_stage(ctx):
    rnd = random.Random(ctx.seed * 7919 + 17)
    out = os.path.join(ctx.work, 'vecspecial.ndjson')
    if os.path.exists(out):
        os.remove(out)
    res = run_tlc('MC_VecSpecial.tla', 'MC_VecSpecial.cfg', ctx.work, env={'OUT_FILE': out}, workers=1, timeout=300)
    ctx.add_tlc('vecspecial-export', res)
    bogus = run_tlc('MC_VecSpecial.tla', 'MC_VecSpecial_bogus.cfg', ctx.work, workers=1, timeout=300)
    ctx.add_tlc('vecspecial-bogus', bogus, expect='any')
    if bogus.status != 'counterexample':
        raise MachineryError('vecspecial: the deliberately false invariant was not refuted')
    lines = [json.loads(l) for l in open(out)]
    if len(lines) < 40:
        raise MachineryError('vecspecial: export incomplete (%d cases)' % len(lines))
    n = 0
    for line in lines:
        case, exp, alt = line['case'], line['exp'], line['alt']
        plen = len(case['x'])
        for (kind, size, dt, lay) in combos(ctx.tier, plen):
            cz = Concrete(kind, size, dt, lay)
            run_case(ctx, case, exp, alt, cz, rnd, None, None, 'replay')
            n += 1
    ctx.traces += n
    # ---- code -> spec: seeded random vectors (other finite values, random positions of the special entries)
    events, eid = [], [1]
    finite = [[0, 1], [1, 1], [-1, 1], [3, 1], [-5, 2], [7, 4], [1, 8], [-6, 1]]
    special = [INF, NINF, NAN]
    pow2 = [[0, 1], [1, 1], [-1, 1], [2, 1], [-4, 1], [1, 2], [-1, 8]]
    ops = sorted(set(l['case']['op'] for l in lines))
    nrand = 150 if ctx.tier == 'quick' else 1500
    for _ in range(nrand):
        op = rnd.choice(ops)
        plen = rnd.choice([3, 4, 6])
        # divisions stay on the dyadic lattice: divisors are signed powers of two (or zero)
        pool = pow2 if op in ('rdiv', 'div') else finite
        def vec():
            return [rnd.choice(special) if rnd.random() < 0.4 else rnd.choice(pool) for _ in range(plen)]
        a = rnd.choice([[2, 1], [-1, 1], [1, 2], [-4, 1], [1, 4]] + ([] if op in ('sdiv', 'rdiv') else [[3, 1]]))
        b = rnd.choice([[1, 1], [1, 2], [-4, 1], [-3, 1]])
        if op == 'lincomb' and rnd.random() < 0.3:
            if rnd.random() < 0.5:
                a = [0, 1]
            else:
                b = [0, 1]
        if op not in ('lincomb',):
            b = [0, 1]
        if op in ('neg', 'pos', 'copy', 'assign', 'add', 'sub', 'mul', 'div'):
            a = [0, 1]
        case = {'op': op, 'a': a, 'b': b, 'x': vec(), 'y': vec() if op in ('add', 'sub', 'mul', 'div', 'lincomb') else []}
        kind, size, dt, lay = rnd.choice(combos(ctx.tier, plen))
        run_case(ctx, case, None, None, Concrete(kind, size, dt, lay), rnd, events, eid, 'trace')
    if events:
        tf = os.path.join(ctx.work, 'vecspecial-trace.ndjson')
        with open(tf, 'w') as f:
            for ev in events:
                f.write(json.dumps({k: ev[k] for k in ('id', 'case', 'val', 'err')}) + '\n')
        tr = run_tlc('Trace_VecSpecial.tla', 'Trace_VecSpecial.cfg', ctx.work, env={'TRACE_FILE': tf}, workers=1, timeout=600)
        ctx.add_tlc('vecspecial-trace', tr)
        by_id = {ev['id']: ev for ev in events}
        rejected = 0
        for (_line, ident, clauses) in parse_fails(tr.output):
            ev = by_id[ident]
            rejected += 1
            m = re.search(r'<<\s*"entry"\s*,\s*(\d+)\s*,\s*<<\s*(-?\d+)\s*,\s*(-?\d+)\s*>>', clauses)
            extra = {}
            if m and int(m.group(1)) >= 1:
                k = int(m.group(1))
                extra = {'got': _kind(ev['val'][k - 1]), 'want': _kind([int(m.group(2)), int(m.group(3))])}
            ctx.violation(dict(ev['meta']['sig'], clause='value', **extra),
                          dict(ev['meta']['detail'], observed=ev['val'], tlc_clauses=clauses))
        ctx.extra['special_value_events'] = len(events)
        ctx.extra['special_value_events_rejected'] = rejected
    ctx.extra['special_value_cases_replayed'] = n


def replay(body):
    d = body['detail']
    c = d['concretisation']
    cz = Concrete(c['kind'], c['n'], c['dtype'], c['layout'])
    case = d['case']
    fn = spellings(case)[d['spelling']]
    rnd = random.Random(0)
    x = make(cz, case['x'], cz.n)
    y = make(cz, case['y'], cz.n) if case['y'] else None
    out = cz.element(fill=float('nan'))
    a = scalar(case['a'], rnd) if case['a'][0] != 0 else 0
    b = scalar(case['b'], rnd) if case['b'][0] != 0 else 0
    with np.errstate(all='ignore'):
        res = fn(cz.space, x, y, a, b, out)
    val, note = observe(cz, res, len(case['x']))
    print('case     :', json.dumps(case))
    print('spelling :', d['spelling'], ' on ', c)
    print('expected :', d.get('expected'), ' alternative:', d.get('alternative'))
    print('observed :', val, note)
    exp, alt = d.get('expected'), d.get('alternative')
    if exp is None:
        print('(trace-direction case: expectation is decided by Trace_VecSpecial; compare with the recorded observation)')
        same = val == d.get('observed')
        print('REPRODUCED' if same else 'NOT-REPRODUCED')
        return 1 if same else 0
    bad = val is None or any(val[i] != exp[i] and not (alt and val[i] == alt[i]) for i in range(len(exp)))
    print('REPRODUCED' if bad else 'NOT-REPRODUCED')
    return 1 if bad else 0

"""EXT/itermisc - the iterative solvers that no listed property pins down by VALUE.

Covered public API: odl.solvers.conjugate_gradient, exp_zero_seq, gauss_newton, mlem, osmlem (incl. `sensitivities`),
poisson_log_likelihood, dca, prox_dca; of landweber / kaczmarz only what C11 / C12 leave open: exact VALUES under the
`projection` option of landweber (function / callable object / ufunc-with-out spellings) and the `omega` spellings of
kaczmarz (list / tuple / ndarray / NumPy scalars / one float) with both callback loops and weighted spaces.

Specification: spec/sem/IterMiscSem.tla (layer A, from the docstrings and the cited textbooks; reuses the arithmetic,
functionals, Prox / Grad / GradConj, CGStep and MLEMStep of SolverSem), spec/mach/IterMiscMachine.tla (layer B: one
solver run as a history machine over a catalogue of instances, the laws as invariants), spec/impl/IterMiscImpl.tla
(layer C: the loop bodies as written, with their temporaries), spec/trace/Trace_IterMisc.tla (layer D).

Pipeline of `run_stage`:
  1. TLC: laws of the reference on every catalogue instance, three non-laws that have to be refuted, C refines A,
     the shared default generator of gauss_newton (layer C with the current default has to be refuted while the finding
     is open), export of every reached state with the exact expected iterates.
  2. spec -> code: every exported state is executed on REAL ODL objects under rotating concretisations (rn, weighted
     rn, uniform_discr with cell volume != 1, float32, MatrixOperator / custom operator / derived operator sums and
     scalings / BroadcastOperator into a product space, niter and option spellings, data and sensitivities as
     element / ndarray / list / float, zero sequences as iterator / generator / exp_zero_seq / the default) and
     histories (n then m iterations on one x, interleaved with a run on another x, niter = 0 afterwards, generators
     advanced in an interleaved order).  The projected observation is compared with the exported expectation.
  3. code -> spec: seeded random instances beyond the catalogue (other matrices, weights, starts, data, functionals,
     steps, longer zero-sequence histories, poisson_log_likelihood calls) are run on real ODL, every call is recorded
     as an NDJSON event (iterates seen by the callback, final x, callback count, identity and frame flags) and
     validated by Trace_IterMisc, which recomputes each step from the logged previous iterate.
Python never decides a value: it builds objects, projects observations onto exact lattices and moves JSON.  The exact
mirror of the S-arithmetic below is an instance FILTER only (keeps TLC's 32-bit integers from overflowing and
yields the lattice denominator for snapping).
"""
import json
import math
import os
import random
from concurrent.futures import ThreadPoolExecutor
from fractions import Fraction

import numpy as np

from ..tlc import run_tlc, parse_fails
from ..common import MachineryError, dumps
from ..exact import snap, OFF

STANDALONE = True
STAGE = 'itermisc'
LIM = 2 ** 31 - 1
CORRUPT_ID = 999999

ASSUMPTIONS = [
    'itermisc: conjugate_gradient is compared with the textbook iteration in the inner product of the space; after the '
    'residual has vanished exactly the number of further callback invocations is not constrained (taken <= ncb <= niter)',
    'itermisc: exp_zero_seq - the closed form t_m = base^(-m-1) of the docstring is the statement (its "t_0 = 1.0" line '
    'contradicts the closed form and the recurrence; noted, not raised)',
    'itermisc: gauss_newton - "Gauss-Newton ... regularization of the linearized problem in each Newton step" is read as '
    'the iteratively regularised Gauss-Newton step around the start value; compared only for dim <= 3 where the 3 inner '
    'CG iterations solve the regularised normal equation exactly; a call that relies on the default zero_seq is expected '
    'to use the sequence exp_zero_seq(2.0) from its beginning',
    'itermisc: mlem / osmlem - only instances where A x > 0 and the sensitivities are > 0 (the undocumented eps clamps '
    'never act); "callback ... after each iteration" of osmlem is met by one invocation per sweep or per partial update; '
    'a single domain element as `sensitivities` is exercised for one subset only (for several subsets the docstring is '
    'ambiguous), the undocumented list-per-subset spelling is exercised with its natural meaning',
    'itermisc: poisson_log_likelihood is irrational: relational clause only (x = powers of two, 1024 ln 2 in '
    '(709.78, 709.79), slack 3 quanta of 1/1024); its behaviour for x <= 0 is not documented and not constrained',
    'itermisc: kaczmarz with a `projection` is not exercised (the docstring does not say whether it acts per block or per '
    'sweep); landweber with the default omega is C12 material',
    'itermisc: dca / prox_dca with f, g from {c |x - t|^2, c |x - t|_1}: the documented iterations; monotone decrease '
    'of f - g is a law of layer A (TLC), the real iterates are compared exactly',
]


# ------------------------------------------------------------------ exact mirror of SolverSem's S-arithmetic (filter)
class Wide(Exception):
    pass


def _chk(v):
    if abs(v) > LIM:
        raise Wide()
    return v


def _norm(n, d):
    g = math.gcd(abs(n), abs(d))
    if d < 0:
        n, d = -n, -d
    return (n // g, d // g)


def sadd(p, q):
    if p[1] == q[1]:
        return _norm(_chk(p[0] + q[0]), p[1])
    g = math.gcd(p[1], q[1])
    a, b = p[1] // g, q[1] // g
    return _norm(_chk(_chk(p[0] * b) + _chk(q[0] * a)), _chk(a * q[1]))


def sneg(p):
    return (-p[0], p[1])


def ssub(p, q):
    return sadd(p, sneg(q))


def smul(p, q):
    g1 = math.gcd(abs(p[0]), q[1])
    g2 = math.gcd(abs(q[0]), p[1])
    return _norm(_chk((p[0] // g1) * (q[0] // g2)), _chk((p[1] // g2) * (q[1] // g1)))


def sinv(q):
    return (q[1], q[0]) if q[0] > 0 else (-q[1], -q[0])


def sdiv(p, q):
    if q[0] == 0:
        raise Wide()
    return smul(p, sinv(q))


def ssum(s):
    # right fold, as SSum
    acc = (0, 1)
    for v in reversed(s):
        acc = sadd(v, acc)
    return acc


def spow(p, k):
    r = (1, 1)
    for _ in range(k):
        r = smul(p, r)
    return r


def vadd(u, v): return [sadd(a, b) for a, b in zip(u, v)]
def vsub(u, v): return [ssub(a, b) for a, b in zip(u, v)]
def vscal(a, u): return [smul(a, x) for x in u]
def vmul(u, v): return [smul(a, b) for a, b in zip(u, v)]
def vdiv(u, v): return [sdiv(a, b) for a, b in zip(u, v)]
def vdot(u, v): return ssum([smul(a, b) for a, b in zip(u, v)])
def wdot(w, u, v): return ssum([smul(c, smul(a, b)) for c, a, b in zip(w, u, v)])
def matvec(M, x): return [vdot(r, x) for r in M]
def mattvec(M, y): return [ssum([smul(M[i][j], y[i]) for i in range(len(M))]) for j in range(len(M[0]))]
def matT(M): return [[M[i][j] for i in range(len(M))] for j in range(len(M[0]))]
def matmul(A, B): return [[ssum([smul(A[i][k], B[k][j]) for k in range(len(B))]) for j in range(len(B[0]))] for i in range(len(A))]


def det(M):
    n = len(M)
    if n == 1:
        return M[0][0]
    if n == 2:
        return ssub(smul(M[0][0], M[1][1]), smul(M[0][1], M[1][0]))
    return sadd(ssub(smul(M[0][0], ssub(smul(M[1][1], M[2][2]), smul(M[1][2], M[2][1]))),
                     smul(M[0][1], ssub(smul(M[1][0], M[2][2]), smul(M[1][2], M[2][0])))),
                smul(M[0][2], ssub(smul(M[1][0], M[2][1]), smul(M[1][1], M[2][0]))))


def solve(M, u):
    d = det(M)
    n = len(M)
    return [sdiv(det([[u[i] if j == c else M[i][j] for j in range(n)] for i in range(n)]), d) for c in range(n)]


def m_grad(f, x):
    if f['k'] == 'Zero':
        return [(0, 1)] * len(x)
    t = f['t'] or [(0, 1)] * len(x)
    return [smul(smul((2, 1), f['c']), ssub(a, b)) for a, b in zip(x, t)]


def m_gradconj(f, v):
    t = f['t'] or [(0, 1)] * len(v)
    return [sadd(sdiv(a, smul((2, 1), f['c'])), b) for a, b in zip(v, t)]


def m_prox(f, s, x):
    t = f['t'] or [(0, 1)] * len(x)
    out = []
    for xi, ti in zip(x, t):
        if f['k'] == 'L1':
            d, thr = ssub(xi, ti), smul(s, f['c'])
            if ssub(thr, d)[0] < 0:
                out.append(ssub(xi, thr))
            elif ssub(d, sneg(thr))[0] < 0:
                out.append(sadd(xi, thr))
            else:
                out.append(ti)
        else:
            w = smul((2, 1), smul(s, f['c']))
            out.append(sdiv(sadd(xi, smul(w, ti)), sadd((1, 1), w)))
    return out


def m_val(f, x):
    t = f['t'] or [(0, 1)] * len(x)
    if f['k'] == 'L1':
        return smul(f['c'], ssum([(abs(ssub(a, b)[0]), ssub(a, b)[1]) for a, b in zip(x, t)]))
    return smul(f['c'], ssum([smul(ssub(a, b), ssub(a, b)) for a, b in zip(x, t)]))


def mirror(I, k):
    """Exact iterates [x_1..] a run with niter = k is expected to show to the callback (os: the partial updates) - used
    to REJECT instances whose exact arithmetic would leave 32 bits in TLC and to pick the snapping lattice.  Raises Wide."""
    kind = I['kind']
    out = []
    if kind == 'cg':
        A, w, b = I['L'], I['w'], I['b']
        x = I['x0']
        r = vsub(b, matvec(A, x))
        p = r
        done = all(v[0] == 0 for v in r)
        for _ in range(k):
            if not done:
                Ap = matvec(A, p)
                pAp = wdot(w, p, Ap)
                if pAp[0] == 0:
                    done = True
                else:
                    rr = wdot(w, r, r)
                    al = sdiv(rr, pAp)
                    r1 = vsub(r, vscal(al, Ap))
                    be = sdiv(wdot(w, r1, r1), rr)
                    x = vadd(x, vscal(al, p))
                    p = vadd(r1, vscal(be, p))
                    r = r1
                    done = all(v[0] == 0 for v in r)
                    # the laws / trace spec also evaluate these
                    wdot(w, p, matvec(A, p))
            out.append(x)
        return out
    if kind == 'gn':
        x0 = I['x0']
        x = x0
        for j in range(k):
            n = len(x)
            JL = [[I['L'][i][c] if I['pw'] == 1 else smul(I['L'][i][c], smul((I['pw'], 1), spow(x[c], I['pw'] - 1)))
                   for c in range(n)] for i in range(len(I['L']))]
            J = JL if not I['M'] else [vadd(a, b) for a, b in zip(JL, I['M'])]
            Ja = [vscal(I['ac'], r) for r in matT(J)]
            Fx = matvec(I['L'], [spow(v, I['pw']) for v in x])
            if I['M']:
                Fx = vadd(Fx, matvec(I['M'], x))
            v = vsub(vsub(I['b'], Fx), matvec(J, vsub(x0, x)))
            u = matvec(Ja, v)
            N = matmul(Ja, J)
            N = [[sadd(N[a][c], I['ts'][j]) if a == c else N[a][c] for c in range(n)] for a in range(n)]
            x = vadd(x0, solve(N, u))
            out.append(x)
        return out
    if kind == 'os':
        x = I['x0']
        for _ in range(k):
            for i, (A, g) in enumerate(zip(I['As'], I['gs'])):
                Ax = matvec(A, x)
                s = I['sens'][i] if I['sens'] else vscal(I['ac'], mattvec(A, [(1, 1)] * len(A)))
                if any(v[0] <= 0 for v in Ax) or any(v[0] <= 0 for v in s):
                    raise Wide()
                x = vmul(x, vdiv(vscal(I['ac'], mattvec(A, vdiv(g, Ax))), s))
                if any(v[0] <= 0 for v in x):
                    raise Wide()
                out.append(x)
        return out
    if kind in ('lw', 'kz'):
        x = I['x0']

        def proj(u):
            if I['proj'] == 'none':
                return u
            lo = [v if v[0] > 0 else (0, 1) for v in u]
            return lo if I['proj'] == 'nonneg' else [v if ssub(v, (1, 1))[0] <= 0 else (1, 1) for v in lo]
        for _ in range(k):
            if kind == 'lw':
                x = proj(vsub(x, vscal(smul(I['om'][0], I['ac']), mattvec(I['L'], vsub(matvec(I['L'], x), I['b'])))))
                out.append(x)
            else:
                for A, g, om in zip(I['As'], I['gs'], I['om']):
                    x = vsub(x, vscal(smul(om, I['ac']), mattvec(A, vsub(matvec(A, x), g))))
                    out.append(x)
        return out
    if kind in ('dca', 'pdca'):
        x = I['x0']
        for _ in range(k):
            if kind == 'dca':
                x = m_gradconj(I['f'], m_grad(I['g'], x))
            else:
                x = m_prox(I['f'], I['gam'], vadd(x, vscal(I['gam'], m_grad(I['g'], x))))
            ssub(m_val(I['f'], x), m_val(I['g'], x))
            out.append(x)
        return out
    raise ValueError(kind)


# ------------------------------------------------------------------ JSON <-> exact
def qf(q):
    return Fraction(q[0], q[1])


def vecf(v):
    return [float(qf(q)) for q in v]


def matf(M):
    return np.array([[float(qf(q)) for q in r] for r in M], dtype=float)


def tq(I):
    """JSON instance -> tuples for the mirror."""
    def cv(o):
        if isinstance(o, list):
            if len(o) == 2 and all(isinstance(t, int) for t in o):
                return (o[0], o[1])
            return [cv(t) for t in o]
        if isinstance(o, dict):
            return {k: cv(v) for k, v in o.items()}
        return o
    return cv(I)


def lat_den(vec):
    d = 1
    for q in vec:
        d = d * q[1] // math.gcd(d, q[1])
    return d


def snapvec(arr, D, dtype):
    out = []
    for v in np.asarray(arr, dtype=float).ravel():
        s = snap(v, D, dtype)
        if s == OFF or isinstance(s, float) or abs(s.numerator) > 2 ** 24:
            # not on the lattice of the expectation (or far outside any expected magnitude: 32-bit TLC): NaN token
            out.append([0, 0])
        else:
            out.append([s.numerator, s.denominator])
    return out


# ------------------------------------------------------------------ real objects
def _odl():
    import odl
    return odl


_MATOP = {}


def MatOp(mat, dom, ran):
    """A caller-defined linear operator x -> mat x between arbitrary (constantly weighted) spaces with the TRUE adjoint
    (c_ran / c_dom) mat^T.  (odl.MatrixOperator ignores weightings in its adjoint: KF-C05-5, not this stage's topic.)"""
    odl = _odl()
    if 'cls' not in _MATOP:
        class _MatOp(odl.Operator):
            def __init__(self, mat, dom, ran):
                super(_MatOp, self).__init__(dom, ran, linear=True)
                self.mat = np.asarray(mat, dtype=float)

            def _call(self, x, out=None):
                y = self.mat.dot(np.asarray(x).ravel())
                if out is None:
                    return self.range.element(y.reshape(self.range.shape))
                out[:] = y.reshape(self.range.shape)

            @property
            def adjoint(self):
                f = const_weight(self.range) / const_weight(self.domain)
                return _MatOp(f * self.mat.T, self.range, self.domain)
        _MATOP['cls'] = _MatOp
    return _MATOP['cls'](mat, dom, ran)


def const_weight(sp):
    w = getattr(sp, 'weighting', None)
    c = getattr(w, 'const', None)
    if c is None:
        raise MachineryError('itermisc: space without constant weighting used with MatOp: %r' % (sp,))
    return float(c)


def space(n, wc, flavour, dtype='float64'):
    """n-dimensional real space with constant weight wc: rn / weighted rn / uniform_discr with cell volume wc."""
    odl = _odl()
    if flavour == 'discr':
        return odl.uniform_discr(0, n * float(wc), n, dtype=dtype)
    if flavour == 'discr2d':          # arrays of shape (n, 1), cell volume wc
        return odl.uniform_discr([0, 0], [n * float(wc), 1], (n, 1), dtype=dtype)
    if wc == 1:
        return odl.rn(n, dtype=dtype)
    return odl.rn(n, weighting=float(wc), dtype=dtype)


def spell_niter(k, sp):
    return [k, np.int64(k), np.int32(k)][sp % 3]


class Rec(object):
    """Recording callback: copies of what it is given and whether the argument IS the caller's x."""

    def __init__(self, x):
        self.x = x
        self.ys = []
        self.same = True

    def __call__(self, it):
        self.ys.append(np.array(np.asarray(it), dtype=float, copy=True).ravel())
        if it is not self.x:
            self.same = False


class Frame(object):
    """Caller-owned arrays that must not change."""

    def __init__(self):
        self.items = []

    def add(self, obj):
        self.items.append((obj, np.array(np.asarray(obj), copy=True)))
        return obj

    def ok(self):
        return all(np.array_equal(np.asarray(o), c) for o, c in self.items)


class _ClipObj(object):
    """A projection given as a callable OBJECT."""

    def __init__(self, lo, hi):
        self.lo, self.hi = lo, hi

    def __call__(self, v):
        v[:] = np.clip(np.asarray(v), self.lo, self.hi)


def projection_of(pk, spelling):
    """`projection`: "take one argument and modify it in-place" - function / lambda / callable object / ufunc with out."""
    if pk == 'none':
        return None
    lo, hi = (0.0, None) if pk == 'nonneg' else (0.0, 1.0)
    sp = spelling % 3
    if sp == 0:
        def proj(v):
            v[:] = np.clip(np.asarray(v), lo, hi)
        return proj
    if sp == 1:
        return _ClipObj(lo, hi)
    if pk == 'nonneg':
        return lambda v: v.ufuncs.maximum(0, out=v)
    return lambda v: v.ufuncs.minimum(1, out=v.ufuncs.maximum(0, out=v))


def build_functional(f, sp, spelling=0):
    odl = _odl()
    c = float(qf(f['c']))
    if f['k'] == 'L1':
        base = odl.solvers.L1Norm(sp)
    else:
        base = odl.solvers.L2NormSquared(sp)
    if f['t']:
        base = base.translated(sp.element(np.array(vecf(f['t'])).reshape(sp.shape)))
    if c == 1 and spelling % 2 == 0:
        return base
    return c * base


def cg_space(I, conc):
    odl = _odl()
    w = [qf(q) for q in I['w']]
    n = len(w)
    dt = conc.get('dtype', 'float64')
    if all(v == w[0] for v in w):
        if w[0] == 1 and not conc.get('flavour', 'rn').startswith('discr'):
            return odl.rn(n, dtype=dt)
        return space(n, w[0], conc.get('flavour', 'rn'), dt)
    return odl.rn(n, weighting=np.array([float(v) for v in w], dtype=dt), dtype=dt)


def linop(mat, dom, ran, opkind):
    """The same linear map spelled as different (derived) operator objects."""
    odl = _odl()
    mat = np.asarray(mat, dtype=float)
    if opkind == 'matrix' and (len(dom.shape) != 1 or len(ran.shape) != 1):
        opkind = 'custom'
    if opkind == 'matrix':
        return odl.MatrixOperator(mat.astype(dom.dtype), domain=dom, range=ran)
    if opkind == 'custom':
        return MatOp(mat, dom, ran)
    if opkind == 'scaled':
        return 2 * MatOp(mat / 2, dom, ran)
    if opkind == 'sum':
        return MatOp(mat - 1, dom, ran) + MatOp(np.ones_like(mat), dom, ran)
    if opkind == 'comp':
        return MatOp(mat, dom, ran) * odl.IdentityOperator(dom)
    raise ValueError(opkind)


def start_x(sp, I, conc, fr, obs):
    """The caller's x: a fresh element, or (conc['xview']) the FIRST COMPONENT of a product space element - the solver
    updates x in place, so the parent has to see the result and its other component must not change."""
    odl = _odl()
    v = np.array(vecf(I['x0'])).reshape(sp.shape)
    if not conc.get('xview'):
        return sp.element(v)
    parent = odl.ProductSpace(sp, 2).element([v, v + 1])
    fr.add(parent[1])
    obs['parent'] = parent
    return parent[0]


def run_real(I, k, conc):
    """Execute the public call on real ODL.  Returns dict(ys, xf, ncb, same, frame, note, dtype)."""
    odl = _odl()
    S = odl.solvers
    kind = I['kind']
    dt = conc.get('dtype', 'float64')
    fr = Frame()
    segs = conc.get('segments') or [k]
    obs = {'note': '', 'dtype': dt}
    try:
        if kind == 'cg':
            sp = cg_space(I, conc)
            mat = fr.add(matf(I['L']))
            op = linop(mat, sp, sp, conc.get('opkind', 'custom'))
            x = start_x(sp, I, conc, fr, obs)
            rhs = fr.add(sp.element(np.array(vecf(I['b'])).reshape(sp.shape)))
            rec = Rec(x)
            for seg in segs:
                if conc.get('spell', 0) % 2:
                    S.conjugate_gradient(op, x, rhs, niter=spell_niter(seg, conc.get('spell', 0)), callback=rec)
                else:
                    S.conjugate_gradient(op, x, rhs, spell_niter(seg, conc.get('spell', 0)), rec)
        elif kind == 'gn':
            ac = qf(I['ac'])
            n, m = len(I['x0']), len(I['b'])
            fl = conc.get('flavour', 'rn')
            if fl.startswith('discr') and n == m:
                dom = space(n, Fraction(1, 2) if ac == 1 else 1 / ac, fl, dt)
                ran = dom if ac == 1 else space(m, 1, 'rn', dt)
            else:
                dom, ran = space(n, 1 / ac, 'rn', dt), space(m, 1, 'rn', dt)
            matL = fr.add(matf(I['L']))
            opk = conc.get('opkind', 'custom')
            if opk == 'matrix' and ac != 1:
                opk = 'custom'
            op = linop(matL, dom, ran, opk)
            if I['pw'] != 1:
                op = op * odl.PowerOperator(dom, I['pw'])
            if I['M']:
                op = op + MatOp(fr.add(matf(I['M'])), dom, ran)
            x = start_x(dom, I, conc, fr, obs)
            rhs = fr.add(ran.element(np.array(vecf(I['b'])).reshape(ran.shape)))
            rec = Rec(x)
            ts = vecf(I['ts'])
            zs = conc.get('zseq', 'iter')
            for seg in segs:       # gauss_newton restarts from the current x: only single segments are used
                if zs == 'default':
                    S.gauss_newton(op, x, rhs, spell_niter(seg, conc.get('spell', 0)), callback=rec)
                else:
                    if zs == 'iter':
                        z = iter(list(ts))
                    elif zs == 'gen':
                        z = (t for t in tuple(ts))
                    elif zs == 'nparr':
                        z = iter(np.array(ts))
                    elif zs == 'list':
                        z = list(ts)               # "zero_seq : iterable"
                    else:
                        base = 1.0 / ts[0]
                        z = odl.solvers.iterative.iterative.exp_zero_seq(
                            [base, int(base), np.float64(base)][conc.get('spell', 0) % 3])
                    S.gauss_newton(op, x, rhs, spell_niter(seg, conc.get('spell', 0)), zero_seq=z, callback=rec)
        elif kind == 'os':
            ac = qf(I['ac'])
            n = len(I['x0'])
            fl = conc.get('flavour', 'rn')
            if fl.startswith('discr'):
                dom = space(n, Fraction(1, 2) / ac, fl, dt)
                rans = [space(len(A), Fraction(1, 2), fl, dt) for A in I['As']]
            else:
                dom = space(n, 1 / ac, 'rn', dt)
                rans = [space(len(A), 1, 'rn', dt) for A in I['As']]
            opk = conc.get('opkind', 'custom')
            if opk == 'matrix' and (ac != 1 or fl.startswith('discr')):
                opk = 'custom'
            ops, datas = [], []
            dk = conc.get('datakind', 'element')
            for A, g, ran in zip(I['As'], I['gs'], rans):
                mat = fr.add(matf(A))
                if opk == 'bcast' and len(A) >= 2:
                    # one row per component: the range is a power space of rn(1)
                    r1 = space(1, 1, 'rn', dt)
                    if ac != 1:
                        raise MachineryError('itermisc: bcast concretisation needs ac = 1')
                    op = odl.BroadcastOperator(*[MatOp(mat[a:a + 1], dom, r1) for a in range(len(A))])
                    gv = vecf(g)
                    data = fr.add(op.range.element([[t] for t in gv]))
                else:
                    op = linop(mat, dom, ran, opk if opk != 'bcast' else 'custom')
                    gv = np.array(vecf(g)).reshape(ran.shape)
                    data = fr.add(ran.element(gv)) if dk == 'element' else (fr.add(np.array(gv)) if dk == 'ndarray' else list(gv))
                ops.append(op)
                datas.append(data)
            x = start_x(dom, I, conc, fr, obs)
            rec = Rec(x)
            kw = {}
            sk = conc.get('senskind', 'element')
            if I['sens']:
                vs = [np.array(vecf(s)).reshape(dom.shape) for s in I['sens']]
                if sk == 'float':
                    kw['sensitivities'] = float(vs[0].ravel()[0])
                elif sk == 'list-per-subset':
                    kw['sensitivities'] = [fr.add(dom.element(v)) for v in vs]
                elif sk == 'element':
                    kw['sensitivities'] = fr.add(dom.element(vs[0]))
                elif sk == 'ndarray':
                    kw['sensitivities'] = fr.add(np.array(vs[0]))
                else:
                    kw['sensitivities'] = vs[0].tolist()
            api = conc.get('api', 'osmlem')
            for si, seg in enumerate(segs):
                nit = spell_niter(seg, conc.get('spell', 0))
                if api == 'mlem':
                    S.mlem(ops[0], x, datas[0], nit, callback=rec, **kw)
                elif conc.get('spell', 0) % 2:
                    S.osmlem(tuple(ops), x, tuple(datas), niter=nit, callback=rec, **kw)
                else:
                    S.osmlem(ops, x, datas, nit, rec, **kw)
                other = conc.get('interleave')
                if other is not None and si < len(segs) - 1:
                    xo = dom.element(np.array(other, dtype=float).reshape(dom.shape))
                    (S.mlem(ops[0], xo, datas[0], 1, **kw) if api == 'mlem' else S.osmlem(ops, xo, datas, 1, **kw))
        elif kind in ('lw', 'kz'):
            ac = qf(I['ac'])
            n = len(I['x0'])
            fl = conc.get('flavour', 'rn')
            mats = [I['L']] if kind == 'lw' else I['As']
            rhsv = [I['b']] if kind == 'lw' else I['gs']
            if fl.startswith('discr'):
                dom = space(n, Fraction(1, 2) / ac, fl, dt)
                rans = [space(len(A), Fraction(1, 2), fl, dt) for A in mats]
            else:
                dom = space(n, 1 / ac, 'rn', dt)
                rans = [space(len(A), 1, 'rn', dt) for A in mats]
            opk = conc.get('opkind', 'custom')
            if opk == 'matrix' and (ac != 1 or fl.startswith('discr')):
                opk = 'custom'
            ops = [linop(fr.add(matf(A)), dom, ran, opk) for A, ran in zip(mats, rans)]
            rhss = [fr.add(ran.element(np.array(vecf(g)).reshape(ran.shape))) for g, ran in zip(rhsv, rans)]
            x = start_x(dom, I, conc, fr, obs)
            rec = Rec(x)
            oms = vecf(I['om'])
            osp = conc.get('omspell', 'float')
            for si, seg in enumerate(segs):
                nit = spell_niter(seg, conc.get('spell', 0))
                if kind == 'lw':
                    om = {'float': oms[0], 'npfloat': np.float64(oms[0]), 'npfloat32': np.float32(oms[0])}[osp]
                    pr = projection_of(I['proj'], conc.get('spell', 0))
                    if conc.get('spell', 0) % 2:
                        S.landweber(ops[0], x, rhss[0], niter=nit, omega=om, projection=pr, callback=rec)
                    else:
                        S.landweber(ops[0], x, rhss[0], nit, om, pr, rec)
                else:
                    om = {'list': list(oms), 'tuple': tuple(oms), 'ndarray': np.array(oms), 'scalar': oms[0],
                          'npscalar': np.float64(oms[0]), 'nplist': [np.float64(t) for t in oms]}[osp]
                    S.kaczmarz(ops if conc.get('spell', 0) % 2 else tuple(ops), x, rhss, nit, omega=om, callback=rec,
                               callback_loop=conc.get('loop', 'outer'))
        elif kind in ('dca', 'pdca'):
            n = len(I['x0'])
            fl = conc.get('flavour', 'rn')
            sp = space(n, conc.get('wc', 1) if fl == 'rn' else Fraction(1, 2), fl, dt)
            f = build_functional(I['f'], sp, conc.get('spell', 0))
            g = build_functional(I['g'], sp, conc.get('spell', 0) + 1)
            x = start_x(sp, I, conc, fr, obs)
            rec = Rec(x)
            gam = float(qf(I['gam']))
            for si, seg in enumerate(segs):
                nit = spell_niter(seg, conc.get('spell', 0))
                if kind == 'dca':
                    (S.dca(x, f, g, niter=nit, callback=rec) if conc.get('spell', 0) % 2 else S.dca(x, f, g, nit, rec))
                else:
                    gs = [gam, np.float64(gam), np.float32(gam)][conc.get('spell', 0) % 3]
                    (S.prox_dca(x, f, g, niter=nit, gamma=gs, callback=rec) if conc.get('spell', 0) % 2
                     else S.prox_dca(x, f, g, nit, gs, rec))
                other = conc.get('interleave')
                if other is not None and si < len(segs) - 1:
                    xo = sp.element(np.array(other, dtype=float).reshape(sp.shape))
                    (S.dca(xo, f, g, 1) if kind == 'dca' else S.prox_dca(xo, f, g, 1, gam))
        else:
            raise ValueError(kind)
        if conc.get('again') is not None and kind in ('cg', 'gn'):
            # HISTORY on one object: a second call on the same x / operator / rhs objects restarts the method at the
            # current x (neither solver keeps state between calls) - recorded separately
            first = {'ys': rec.ys, 'xf': np.array(np.asarray(x), dtype=float).ravel(), 'ncb': len(rec.ys), 'same': rec.same}
            rec = Rec(x)
            if kind == 'cg':
                S.conjugate_gradient(op, x, rhs, conc['again'], callback=rec)
            else:
                S.gauss_newton(op, x, rhs, conc['again'], zero_seq=iter(list(ts)), callback=rec)
            obs['first'] = first
        if conc.get('then_zero'):
            # a further call with niter = 0 on the same objects must not move x nor invoke the callback
            before = len(rec.ys)
            if kind == 'cg':
                S.conjugate_gradient(op, x, rhs, 0, callback=rec)
            elif kind == 'gn':
                S.gauss_newton(op, x, rhs, 0, zero_seq=iter([]), callback=rec)
            elif kind == 'os':
                S.osmlem(ops, x, datas, 0, callback=rec, **kw)
            elif kind == 'dca':
                S.dca(x, f, g, 0, callback=rec)
            elif kind == 'lw':
                S.landweber(ops[0], x, rhss[0], 0, omega=oms[0], projection=projection_of(I['proj'], 0), callback=rec)
            elif kind == 'kz':
                S.kaczmarz(ops, x, rhss, 0, omega=list(oms), callback=rec)
            else:
                S.prox_dca(x, f, g, 0, gam, callback=rec)
            if len(rec.ys) != before:
                obs['note'] = 'callback-at-niter-0'
    except MachineryError:
        raise
    except Exception as ex:          # the documented calls of this stage never raise
        obs.pop('parent', None)
        obs.update(ys=[], xf=None, ncb=0, same=True, frame=True, note='raised:' + type(ex).__name__, exc=repr(ex)[:200])
        return obs
    obs.update(ys=rec.ys, xf=np.array(np.asarray(x), dtype=float).ravel(), ncb=len(rec.ys), same=rec.same, frame=fr.ok())
    parent = obs.pop('parent', None)
    if parent is not None and not np.array_equal(np.asarray(parent[0]).ravel(), np.asarray(x).ravel()):
        obs['note'] = 'result-not-in-place'
    return obs


# ------------------------------------------------------------------ concretisations
def concs_for(I, q, tier):
    """Rotating concretisations of one exported state (q = running number)."""
    kind = I['kind']
    out = []
    nmax = 3 if tier == 'quick' else 6
    if kind == 'cg':
        w = [qf(t) for t in I['w']]
        const = all(v == w[0] for v in w)
        cands = []
        for opk in ('matrix', 'custom', 'scaled', 'sum', 'comp'):
            for dt in ('float64', 'float32'):
                for fl in (('rn', 'discr', 'discr2d') if const else ('rn',)):
                    cands.append({'opkind': opk, 'dtype': dt, 'flavour': fl})
    elif kind == 'gn':
        ts = [qf(t) for t in I['ts']]
        geo = all(ts[j] == ts[0] ** (j + 1) for j in range(len(ts)))
        zss = ['iter', 'gen', 'nparr', 'list'] + (['expzero'] if geo else []) + (['default'] if geo and ts[0] == Fraction(1, 2) else [])
        cands = []
        for zs in zss:
            for opk in ('custom', 'matrix', 'scaled', 'sum'):
                for fl in ('rn', 'discr', 'discr2d'):
                    cands.append({'zseq': zs, 'opkind': opk, 'flavour': fl, 'dtype': 'float64'})
    elif kind == 'os':
        cands = []
        single = len(I['As']) == 1
        if I['sens']:
            vs = [qf(t) for t in I['sens'][0]]
            sks = ['element', 'ndarray', 'list'] if single else []
            sks.append('list-per-subset')
            if all(v == vs[0] for v in vs) and all(s == I['sens'][0] for s in I['sens']):
                sks.append('float')
        else:
            sks = ['-']
        for sk in sks:
            for api in (('mlem', 'osmlem') if single and sk != 'list-per-subset' else ('osmlem',)):
                for opk in ('custom', 'matrix', 'bcast', 'sum'):
                    if opk == 'bcast' and (qf(I['ac']) != 1 or not single):
                        continue
                    for fl in ('rn', 'discr', 'discr2d'):
                        if opk == 'bcast' and fl != 'rn':
                            continue
                        for dk in ('element', 'ndarray', 'list'):
                            cands.append({'senskind': sk, 'api': api, 'opkind': opk, 'flavour': fl, 'datakind': dk,
                                          'dtype': 'float64'})
    elif kind in ('lw', 'kz'):
        cands = []
        oms = [qf(t) for t in I['om']]
        if kind == 'lw':
            osps, loops = ['float', 'npfloat', 'npfloat32'], ['-']
        else:
            osps = ['list', 'tuple', 'ndarray', 'nplist'] + (['scalar', 'npscalar'] if all(v == oms[0] for v in oms) else [])
            loops = ['outer', 'inner']
        for osp in osps:
            for lp in loops:
                for opk in ('custom', 'matrix', 'sum', 'scaled'):
                    for fl in ('rn', 'discr', 'discr2d'):
                        cands.append({'omspell': osp, 'loop': lp, 'opkind': opk, 'flavour': fl, 'dtype': 'float64'})
    else:
        cands = []
        for fl, wc in (('rn', 1), ('discr', 1), ('rn', 2), ('discr2d', 1)):
            for dt in ('float64', 'float32'):
                cands.append({'flavour': fl, 'wc': wc, 'dtype': dt})
    step = 7
    for j in range(min(nmax, len(cands))):
        c = dict(cands[(q * step + j * 5) % len(cands)])
        c['spell'] = q + j
        out.append(c)
    # de-duplicate
    seen, uniq = set(), []
    for c in out:
        key = json.dumps(c, sort_keys=True)
        if key not in seen:
            seen.add(key)
            uniq.append(c)
    return uniq


def fam_sig(I, conc, clause):
    """Family-level signature (no literal numbers)."""
    solver = {'cg': 'conjugate_gradient', 'gn': 'gauss_newton', 'dca': 'dca', 'pdca': 'prox_dca', 'zseq': 'exp_zero_seq',
              'pll': 'poisson_log_likelihood', 'lw': 'landweber', 'kz': 'kaczmarz'}.get(I['kind'])
    if I['kind'] == 'os':
        solver = 'mlem' if conc.get('api') == 'mlem' else 'osmlem'
    sig = {'stage': STAGE, 'solver': solver, 'clause': clause}
    if I['kind'] == 'os':
        sig['sensitivities'] = conc.get('senskind', '-') if I.get('sens') else 'default'
    if I['kind'] == 'gn':
        sig['zero_seq'] = conc.get('zseq', 'iter')
    if I['kind'] == 'lw':
        sig['projection'] = I.get('proj', 'none')
    if I['kind'] == 'kz':
        sig['omega'] = conc.get('omspell', 'list')
    return sig


def tol_for(dt):
    return 1e-9 if dt == 'float64' else 3e-4


def close(arr, exp, dt):
    """observation (floats) vs exported exact expectation: |obs - exp| <= tol * max(1, |exp|) entrywise."""
    if arr is None or len(arr) != len(exp):
        return False
    t = tol_for(dt)
    for v, q in zip(arr, exp):
        e = float(qf(q))
        if not (abs(float(v) - e) <= t * max(1.0, abs(e))):
            return False
    return True


# ------------------------------------------------------------------ 1. TLC models
def run_models(ctx):
    out = os.path.join(ctx.work, 'itermisc_export.ndjson')
    jobs = {
        # all laws of layer A on every state + C refines A (one JVM; MC_IterMisc_laws.cfg / MC_IterMiscImpl_refines.cfg
        # are the same invariants split for stand-alone use)
        'laws-refines': lambda: run_tlc('MC_IterMiscImpl.tla', 'MC_IterMiscImpl_all.cfg', ctx.work, workers=2, timeout=900),
        # everything that has to be REFUTED: three non-laws (non-vacuity) and the two properties the code as written
        # violates while its findings are open
        'refuted': lambda: run_tlc('MC_IterMiscImpl.tla', 'MC_IterMiscImpl_refuted.cfg', ctx.work, workers=1, timeout=900,
                                   extra=['-continue']),
        'export': lambda: run_tlc('MC_IterMisc.tla', 'MC_IterMisc_export.cfg', ctx.work, env={'OUT_FILE': out},
                                  workers=1, timeout=900),
    }
    with ThreadPoolExecutor(max_workers=len(jobs)) as ex:
        futs = {k: ex.submit(f) for k, f in jobs.items()}
        res = {k: f.result() for k, f in futs.items()}
    ctx.add_tlc('itermisc-laws-and-impl-refines', res['laws-refines'])
    ctx.add_tlc('itermisc-export', res['export'])
    d = ctx.add_tlc('itermisc-refuted', res['refuted'], expect='any')
    if d.status != 'counterexample':
        raise MachineryError('itermisc: the refutation job did not produce counter-examples (%s)' % d.status)
    for name in ('BogusCGOneStep', 'BogusOSOrderFree', 'BogusDCStrict'):
        if ('Invariant %s is violated' % name) not in d.output:
            raise MachineryError('itermisc: the non-law %s was not refuted by TLC (vacuous model?)' % name)
    # layer C mirrors the CURRENT code: both defects it used to carry are repaired in /repo (057ca1e, e46848d), so
    # DefaultCallsStartAfresh and SensElementIsElementwise are now ordinary invariants of the laws-and-refines job
    # (with SharedDefault = TRUE / the pinned "elem" reading TLC refutes them: KF-EXT-ITER-1, KF-EXT-ITER-3)
    for name in ('DefaultCallsStartAfresh', 'SensElementIsElementwise'):
        ctx.extra['itermisc_layerC_' + name] = 'holds for the repaired code (invariant of itermisc-laws-and-impl-refines)'
    return out


def load_export(path):
    lines, seen = [], set()
    with open(path) as f:
        for ln in f:
            if ln.strip() and ln not in seen:
                seen.add(ln)
                lines.append(json.loads(ln))
    return lines


# ------------------------------------------------------------------ 2. replay of exported states
def check_obs(ctx, st, I, k, conc, obs, exp_xs, exp_parts, taken):
    """Compare one real run with the exported expectation; returns the list of failed clauses."""
    bad = []
    dt = obs['dtype']
    kind = I['kind']
    if obs['note']:
        return [obs['note']]
    ncb = obs['ncb']
    if kind == 'cg':
        if not (taken <= ncb <= k):
            bad.append('callback-count')
        exp_seq = exp_xs[1:1 + ncb]
    elif kind == 'kz':
        M = len(I['As'])
        if conc.get('loop', 'outer') == 'inner':
            exp_seq = [p for sweep in exp_parts[:k] for p in sweep]
            if ncb != k * M:
                bad.append('callback-count')
        else:
            exp_seq = exp_xs[1:1 + k]
            if ncb != k:
                bad.append('callback-count')
    elif kind == 'os':
        M = len(I['As'])
        if ncb == k * M:
            exp_seq = [p for sweep in exp_parts[:k] for p in sweep]
        elif ncb == k:
            exp_seq = exp_xs[1:1 + k]
        else:
            bad.append('callback-count')
            exp_seq = []
    else:
        if ncb != k:
            bad.append('callback-count')
        exp_seq = exp_xs[1:1 + min(ncb, k)]
    if 'callback-count' not in bad:
        for y, e in zip(obs['ys'], exp_seq):
            if not close(y, e, dt):
                bad.append('iterate')
                break
        if not close(obs['xf'], exp_xs[k], dt):
            bad.append('result')
    if not obs['same']:
        bad.append('callback-object')
    if not obs['frame']:
        bad.append('frame')
    return bad


def replay_exports(ctx, path):
    lines = load_export(path)
    if len(lines) < 100:
        raise MachineryError('itermisc: export too small: %d' % len(lines))
    n = 0
    odl = _odl()
    bykind = {}
    for q, st in enumerate(lines):
        I, k = st['inst'], st['k']
        kind = I['kind']
        n0 = n
        if kind == 'zseq':
            n += replay_zseq(ctx, st, q)
            bykind[kind] = bykind.get(kind, 0) + n - n0
            continue
        for conc in concs_for(I, q, ctx.tier):
            variants = [dict(conc)]
            # histories on one object: n then m iterations (where the iterate is the whole state), niter = 0 afterwards
            if kind in ('os', 'dca', 'pdca', 'lw', 'kz') and k >= 2 and not (kind == 'kz' and conc.get('loop') == 'inner'):
                variants.append(dict(conc, segments=[1, k - 1], interleave=[1.0] * len(I['x0'])))
                variants.append(dict(conc, segments=[k - 1, 0, 1]))
            if k >= 1:
                variants.append(dict(conc, then_zero=True))
                if q % 2 == 0:
                    variants.append(dict(conc, xview=True))
            for c in variants[:2 if ctx.tier == 'quick' and q % 3 else None]:
                obs = run_real(I, k, c)
                bad = check_obs(ctx, st, I, k, c, obs, st['xs'], st['parts'], st['taken'])
                ctx.count(['itermisc', kind, st['id'], k, sorted(c.items(), key=str)], k >= 1)
                n += 1
                for cl in bad:
                    report(ctx, I, c, cl, {'state': st, 'conc': c, 'observed': obs_json(obs)})
        bykind[kind] = bykind.get(kind, 0) + n - n0
    ctx.extra['itermisc_replayed_by_kind'] = bykind
    ctx.traces += n
    ctx.extra['itermisc_replayed'] = n
    ctx.extra['itermisc_exported_states'] = len(lines)
    return n


def obs_json(obs):
    return {'ys': [list(map(float, y)) for y in obs.get('ys', [])],
            'xf': None if obs.get('xf') is None else list(map(float, obs['xf'])), 'ncb': obs.get('ncb'),
            'same': obs.get('same'), 'frame': obs.get('frame'), 'note': obs.get('note'), 'exc': obs.get('exc', '')}


def report(ctx, I, conc, clause, detail):
    sig = fam_sig(I, conc, clause)
    if clause.startswith('raised:'):
        sig['clause'] = 'raised'
        sig['exc'] = clause.split(':', 1)[1]
    # the two documented-behaviour contradictions that are open findings get their own clause names
    if I['kind'] == 'os' and I.get('sens') and conc.get('senskind') in ('element', 'ndarray', 'list') \
            and (clause in ('iterate', 'result') or clause.startswith('raised:')):
        sig['clause'] = 'sensitivities-elementwise'
    if I['kind'] == 'gn' and conc.get('zseq') == 'default' and clause in ('iterate', 'result'):
        sig['clause'] = 'default-zero-seq-afresh'
    ctx.violation(sig, dict(detail, stage_module=STAGE))


def replay_zseq(ctx, st, q):
    """exp_zero_seq history: two generators of the same base, next() in the exported order."""
    odl = _odl()
    from odl.solvers.iterative.iterative import exp_zero_seq
    I = st['inst']
    base = qf(I['gam'])
    n = 0
    for sp in range(3):
        b = [float(base), int(base) if base.denominator == 1 else float(base), np.float64(base)][sp]
        gens = {1: exp_zero_seq(b), 2: exp_zero_seq(b)}
        vals = []
        note = ''
        try:
            for c in st['sel']:
                vals.append(float(next(gens[c])))
        except Exception as ex:
            note = 'raised:' + type(ex).__name__
        ctx.count(['itermisc', 'zseq', st['id'], st['sel'], sp], len(st['sel']) >= 2)
        n += 1
        if note:
            report(ctx, I, {}, note, {'state': st})
        elif st['sel']:
            e = float(qf(st['xs'][-1][0]))
            if not abs(vals[-1] - e) <= 1e-12 * abs(e):
                report(ctx, I, {}, 'zero-sequence-value', {'state': st, 'observed': vals})
    return n


# ------------------------------------------------------------------ 3. drivers -> events
def Q(n, d=1):
    f = Fraction(n, d)
    return [f.numerator, f.denominator]


def base_inst(kind):
    return {'kind': kind, 'L': [], 'M': [], 'pw': 1, 'b': [], 'w': [], 'As': [], 'gs': [], 'sens': [], 'ac': Q(1), 'ts': [],
            'f': {'k': 'Zero', 'c': Q(1), 't': [], 'lo': Q(0), 'hi': Q(0)}, 'g': {'k': 'Zero', 'c': Q(1), 't': [], 'lo': Q(0), 'hi': Q(0)},
            'gam': Q(1), 'x0': [], 'n': 0, 'om': [], 'proj': 'none', 'tag': 'c'}


def rand_inst(rnd, kind):
    I = base_inst(kind)
    ri = rnd.randint
    if kind == 'cg':
        n = rnd.choice([1, 2, 2, 3])
        S = [[0] * n for _ in range(n)]
        for a in range(n):
            S[a][a] = ri(2, 4)
            for c in range(a + 1, n):
                S[a][c] = S[c][a] = rnd.choice([0, 1, -1]) if abs(a - c) == 1 else 0
        wk = rnd.choice(['one', 'const', 'arr'])
        w = {'one': [Fraction(1)] * n, 'const': [rnd.choice([Fraction(1, 2), Fraction(2), Fraction(1, 4)])] * n,
             'arr': [Fraction(rnd.choice([1, 2, 4])) for _ in range(n)]}[wk]
        if wk == 'arr' and all(v == w[0] for v in w):
            wk = 'const'
        I['w'] = [Q(v) for v in w]
        I['L'] = [[Q(Fraction(S[a][c]) / (w[a] if wk == 'arr' else 1)) for c in range(n)] for a in range(n)]
        x0 = [ri(-2, 2) for _ in range(n)]
        r0 = [rnd.choice([0, 1, -1, 2]) for _ in range(n)]
        b = [sum(qf(I['L'][a][c]) * x0[c] for c in range(n)) + r0[a] for a in range(n)]
        I['x0'], I['b'] = [Q(v) for v in x0], [Q(v) for v in b]
        k = ri(0, n + 1)
    elif kind == 'gn':
        n = 2
        m = rnd.choice([2, 2, 3])
        I['L'] = [[Q(ri(0, 2)) for _ in range(n)] for _ in range(m)]
        for a in range(n):
            I['L'][a][a] = Q(ri(1, 2))
        I['pw'] = rnd.choice([1, 1, 2])
        if I['pw'] == 2 and rnd.random() < 0.4:
            I['M'] = [[Q(ri(0, 1)) for _ in range(n)] for _ in range(m)]
        I['ac'] = Q(rnd.choice([1, 1, 2, Fraction(1, 2)]))
        I['x0'] = [Q(ri(0, 2)) for _ in range(n)]
        I['b'] = [Q(ri(0, 4)) for _ in range(m)]
        base = rnd.choice([2, 4])
        I['ts'] = [Q(1, base ** (j + 1)) for j in range(3)]
        k = ri(0, 2)
    elif kind == 'os':
        n = rnd.choice([2, 2, 3])
        M = rnd.choice([1, 1, 2])
        I['As'] = []
        for _ in range(M):
            m = ri(1, 3) if M == 2 else ri(2, 3)
            A = [[Q(ri(0, 2)) for _ in range(n)] for _ in range(m)]
            for c in range(n):
                A[c % m][c] = Q(ri(1, 2))
            I['As'].append(A)
        I['gs'] = [[Q(rnd.choice([1, 2, 3, 4, Fraction(1, 2)])) for _ in A] for A in I['As']]
        I['ac'] = Q(rnd.choice([1, 1, 2, Fraction(1, 2)]))
        I['x0'] = [Q(rnd.choice([1, 2, Fraction(1, 2)])) for _ in range(n)]
        if rnd.random() < 0.5:
            I['sens'] = [[Q(rnd.choice([1, 2, 4, Fraction(1, 2)])) for _ in range(n)] for _ in range(M)]
            if rnd.random() < 0.4:
                I['sens'] = [[I['sens'][0][0]] * n] * M
        k = ri(0, 2)
    elif kind in ('lw', 'kz'):
        n = rnd.choice([2, 2, 3])
        I['ac'] = Q(rnd.choice([1, 1, 2, Fraction(1, 2)]))
        I['x0'] = [Q(rnd.choice([0, 1, -1, 2, Fraction(1, 2)])) for _ in range(n)]
        if kind == 'lw':
            m = ri(2, 3)
            I['L'] = [[Q(ri(-1, 2)) for _ in range(n)] for _ in range(m)]
            I['b'] = [Q(ri(-3, 4)) for _ in range(m)]
            I['om'] = [Q(rnd.choice([Fraction(1, 4), Fraction(1, 8), Fraction(1, 16)]))]
            I['proj'] = rnd.choice(['none', 'nonneg', 'nonneg', 'box01'])
        else:
            M = ri(1, 3)
            I['As'] = [[[Q(ri(-1, 2)) for _ in range(n)] for _ in range(ri(1, 2))] for _ in range(M)]
            I['gs'] = [[Q(ri(-2, 3)) for _ in A] for A in I['As']]
            if rnd.random() < 0.4:
                I['om'] = [Q(rnd.choice([Fraction(1, 4), Fraction(1, 8)]))] * M
            else:
                I['om'] = [Q(rnd.choice([Fraction(1, 2), Fraction(1, 4), Fraction(1, 8), 1])) for _ in range(M)]
        k = ri(0, 3)
    else:
        n = rnd.choice([2, 3])
        c1 = rnd.choice([Fraction(1, 2), Fraction(1), Fraction(2)])
        c2 = rnd.choice([Fraction(1, 4), Fraction(1, 2), Fraction(1)])

        def tr():
            return [] if rnd.random() < 0.3 else [Q(ri(-2, 2)) for _ in range(n)]
        I['g'] = {'k': 'L2sq', 'c': Q(c2), 't': tr(), 'lo': Q(0), 'hi': Q(0)}
        if kind == 'dca' or rnd.random() < 0.4:
            I['f'] = {'k': 'L2sq', 'c': Q(c1), 't': tr(), 'lo': Q(0), 'hi': Q(0)}
        else:
            I['f'] = {'k': 'L1', 'c': Q(c1), 't': tr(), 'lo': Q(0), 'hi': Q(0)}
        I['gam'] = Q(rnd.choice([Fraction(1, 2), Fraction(1), Fraction(1, 4), Fraction(2)]))
        I['x0'] = [Q(ri(-4, 4)) for _ in range(n)]
        k = ri(0, 4)
    I['n'] = k
    return I, k


def tile_inst(I, T):
    """The same problem T times side by side (block-diagonal operator, tiled vectors): n > 100 entries - other code
    paths of the array back-end; the exact iterates are the tiled iterates of the small problem."""
    J = json.loads(json.dumps(I))
    n = len(I['x0'])
    for key in ('x0', 'b', 'w'):
        J[key] = I[key] * T
    if I['L']:
        J['L'] = [[I['L'][a % n][c % n] if a // n == c // n else Q(0) for c in range(n * T)] for a in range(n * T)]
    for key in ('f', 'g'):
        if I[key]['t']:
            J[key]['t'] = I[key]['t'] * T
    return J


def rand_conc(rnd, I):
    kind = I['kind']
    c = {'spell': rnd.randint(0, 5), 'dtype': 'float64'}
    if rnd.random() < 0.2:
        c['xview'] = True
    if kind == 'cg':
        c['opkind'] = rnd.choice(['matrix', 'custom', 'scaled', 'sum', 'comp'])
        c['flavour'] = rnd.choice(['rn', 'discr', 'discr2d'])
    elif kind == 'gn':
        c['opkind'] = rnd.choice(['custom', 'matrix', 'scaled', 'sum'])
        c['flavour'] = rnd.choice(['rn', 'discr', 'discr2d'])
        c['zseq'] = rnd.choice(['iter', 'gen', 'nparr', 'expzero'])
    elif kind == 'os':
        single = len(I['As']) == 1
        c['opkind'] = rnd.choice(['custom', 'matrix', 'sum'] + (['bcast'] if single and qf(I['ac']) == 1 else []))
        c['flavour'] = 'rn' if c['opkind'] == 'bcast' else rnd.choice(['rn', 'discr', 'discr2d'])
        c['datakind'] = rnd.choice(['element', 'ndarray', 'list'])
        c['api'] = rnd.choice(['mlem', 'osmlem']) if single else 'osmlem'
        if I['sens']:
            vs = I['sens'][0]
            opts = ['list-per-subset'] if c['api'] == 'osmlem' else []
            if all(v == vs[0] for v in vs) and all(s == I['sens'][0] for s in I['sens']):
                opts.append('float')
            if single:
                opts += ['element', 'ndarray', 'list']
            c['senskind'] = rnd.choice(opts)
    elif kind in ('lw', 'kz'):
        c['opkind'] = rnd.choice(['custom', 'matrix', 'sum', 'scaled'])
        c['flavour'] = rnd.choice(['rn', 'discr', 'discr2d'])
        if kind == 'lw':
            c['omspell'] = rnd.choice(['float', 'npfloat', 'npfloat32'])
        else:
            oms = I['om']
            c['omspell'] = rnd.choice(['list', 'tuple', 'ndarray', 'nplist'] + (['scalar', 'npscalar'] if all(t == oms[0] for t in oms) else []))
            c['loop'] = rnd.choice(['outer', 'inner'])
    else:
        c['flavour'], c['wc'] = rnd.choice([('rn', 1), ('discr', 1), ('rn', 2), ('rn', Fraction(1, 2)), ('discr2d', 1)])
        c['dtype'] = rnd.choice(['float64', 'float32'])
    return c


def event_of(eid, I, k, conc, obs, exp):
    """Project one real run onto the lattice of the (mirrored) expectation.  exp: mirrored iterates the callback may see."""
    dt = obs['dtype']
    ys = []
    M = len(I['As']) if I['kind'] in ('os', 'kz') else 1
    for j, y in enumerate(obs['ys']):
        if I['kind'] in ('os', 'kz') and obs['ncb'] == k and M > 1:
            e = exp[(j + 1) * M - 1] if (j + 1) * M - 1 < len(exp) else None
        else:
            e = exp[j] if j < len(exp) else None
        D = lat_den(e) if e is not None else 1
        ys.append(snapvec(y, D, dt))
    if obs['xf'] is None:
        xf = []
    else:
        last = exp[-1] if exp else tq(I)['x0']
        xf = snapvec(obs['xf'], lat_den(last), dt)
    return {'id': eid, 'kind': I['kind'], 'inst': I, 'k': k, 'ncb': obs['ncb'], 'ys': ys, 'xf': xf, 'same': bool(obs['same']),
            'frame': bool(obs['frame']), 'note': obs['note'], 'sel': [], 'vals': [], 'ks': [], 'd': [], 'lq': 0,
            'loop': conc.get('loop', '') if I['kind'] == 'kz' else '', 'conc': {kk: str(v) for kk, v in conc.items()}}


def run_drivers(ctx):
    rnd = random.Random(977 + 31 * ctx.seed)
    events = []
    per = 80 if ctx.tier == 'quick' else 500
    eid = 0
    rejected = 0
    big = 0
    twice = 0
    for kind in ('cg', 'gn', 'os', 'dca', 'pdca', 'lw', 'kz'):
        got = 0
        tries = 0
        while got < per and tries < per * 40:
            tries += 1
            I, k = rand_inst(rnd, kind)
            if kind in ('cg', 'dca', 'pdca') and len(I['x0']) == 2 and rnd.random() < (0.08 if kind == 'cg' else 0.15):
                I = tile_inst(I, 51)
                big += 1
            try:
                exp = mirror(tq(I), k)
                # everything the callback may legally see must fit the lattice bound too
                if any(lat_den(v) > 4096 or any(abs(t[0]) > 2 ** 20 for t in v) for v in exp):
                    raise Wide()
            except Wide:
                rejected += 1
                continue
            conc = rand_conc(rnd, I)
            if conc['dtype'] == 'float32' and any(lat_den(v) > 64 for v in exp):
                conc['dtype'] = 'float64'
            again = None
            if kind in ('cg', 'gn') and k >= 1 and rnd.random() < 0.4:
                # second call on the same objects: the instance of the second call starts at the exact first result
                I2 = json.loads(json.dumps(I))
                I2['x0'] = [list(t) for t in exp[-1]]
                k2 = rnd.randint(1, 2)
                try:
                    exp2 = mirror(tq(I2), k2)
                    if any(lat_den(v) > 4096 or any(abs(t[0]) > 2 ** 20 for t in v) for v in exp2):
                        raise Wide()
                    again = (I2, k2, exp2)
                    conc['again'] = k2
                except Wide:
                    again = None
            obs = run_real(I, k, conc)
            eid += 1
            got += 1
            if again is not None and not obs['note']:
                second = dict(obs)
                obs = dict(obs, **obs['first'])
                events.append(event_of(eid, I, k, conc, obs, exp))
                eid += 1
                got += 1
                twice += 1
                events.append(event_of(eid, again[0], again[1], conc, second, again[2]))
            else:
                events.append(event_of(eid, I, k, conc, obs, exp))
            ctx.count(['itermisc-driver', kind, eid], k >= 1)
    # zero sequences: longer interleaved histories, more bases
    from odl.solvers.iterative.iterative import exp_zero_seq
    for _ in range(per):
        base = rnd.choice([2, 3, 4, 5, 8])
        sel = [rnd.choice([1, 2]) for _ in range(rnd.randint(1, 7))]
        I = base_inst('zseq')
        I['gam'] = Q(base)
        bs = rnd.choice([float(base), base, np.float64(base), np.int64(base)])
        gens = {1: exp_zero_seq(bs), 2: exp_zero_seq(bs)}
        vals, cnt, note = [], {1: 0, 2: 0}, ''
        try:
            for c in sel:
                cnt[c] += 1
                s = snap(float(next(gens[c])), base ** cnt[c], 'float64')
                vals.append([0, 0] if s == OFF or isinstance(s, float) or abs(s.numerator) > 2 ** 24
                            else [s.numerator, s.denominator])
        except Exception as ex:
            note = 'raised:' + type(ex).__name__
        eid += 1
        events.append({'id': eid, 'kind': 'zseq', 'inst': I, 'k': len(sel), 'ncb': 0, 'ys': [], 'xf': [], 'same': True,
                       'frame': True, 'note': note, 'sel': sel, 'vals': vals, 'ks': [], 'd': [], 'lq': 0, 'loop': '', 'conc': {}})
        ctx.count(['itermisc-driver', 'zseq', eid], len(sel) >= 2)
    # poisson_log_likelihood (relational)
    odl = _odl()
    for _ in range(per):
        n = rnd.choice([1, 2, 3, 4])
        ks = [rnd.randint(-2, 3) for _ in range(n)]
        d = [rnd.randint(0, 6) for _ in range(n)]
        fl = rnd.choice(['rn', 'discr', 'rn32'])
        sp = odl.rn(n, dtype='float32') if fl == 'rn32' else space(n, 1 if fl == 'rn' else Fraction(1, 2), fl)
        xk = rnd.choice(['element', 'ndarray'])
        xv = np.array([2.0 ** t for t in ks]).reshape(sp.shape)
        note, lq = '', 0
        try:
            val = odl.solvers.poisson_log_likelihood(sp.element(xv) if xk == 'element' else xv,
                                                     sp.element(np.array(d, dtype=float).reshape(sp.shape)))
            if not np.isfinite(float(val)) or abs(float(val)) > 2 ** 13:
                note = 'log-likelihood-value'
            else:
                lq = int(round(float(val) * 1024))
        except Exception as ex:
            note = 'raised:' + type(ex).__name__
        eid += 1
        events.append({'id': eid, 'kind': 'pll', 'inst': base_inst('pll'), 'k': 0, 'ncb': 0, 'ys': [], 'xf': [], 'same': True,
                       'frame': True, 'note': note, 'sel': [], 'vals': [], 'ks': ks, 'd': d, 'lq': lq, 'loop': '',
                       'conc': {'space': fl, 'x': xk}})
        ctx.count(['itermisc-driver', 'pll', eid], any(d))
    ctx.extra['itermisc_driver_rejected_wide'] = rejected
    ctx.extra['itermisc_driver_tiled_102_entries'] = big
    ctx.extra['itermisc_driver_second_call_on_same_objects'] = twice
    return events


# ------------------------------------------------------------------ trace validation
def validate_events(ctx, events):
    if not events:
        raise MachineryError('itermisc: no events recorded')
    by_id = {e['id']: e for e in events}
    # a corrupted copy of a good event must be rejected by the specification (self-check of the binding)
    good = next((e for e in events if e['kind'] in ('os', 'dca', 'pdca', 'lw') and e['ncb'] >= 1 and not e['note']
                 and all(t != [0, 0] for t in e['ys'][-1])), None)
    if good is None:
        raise MachineryError('itermisc: no event suitable for the corruption self-check')
    bad = json.loads(json.dumps(good))
    bad['id'] = CORRUPT_ID
    q = bad['ys'][-1][0]
    bad['ys'][-1][0] = Q(Fraction(q[0], q[1]) + Fraction(1, q[1]))
    allev = events + [bad]
    chunk = 1500
    parts = [allev[a:a + chunk] for a in range(0, len(allev), chunk)]

    def job(t):
        idx, evs = t
        path = os.path.join(ctx.work, 'itermisc_trace_%d.ndjson' % idx)
        with open(path, 'w') as f:
            for e in evs:
                f.write(json.dumps({k: v for k, v in e.items() if k != 'conc'}) + '\n')
        return run_tlc('Trace_IterMisc.tla', 'Trace_IterMisc.cfg', ctx.work, env={'TRACE_FILE': path}, workers=1,
                       timeout=900)
    with ThreadPoolExecutor(max_workers=4) as ex:
        results = list(ex.map(job, list(enumerate(parts))))
    fails = []
    for idx, res in enumerate(results):
        ctx.add_tlc('itermisc-trace-%d' % idx, res)
        fails += parse_fails(res.output)
    import re
    seen_corrupt = False
    for _line, eid, clauses in fails:
        names = re.findall(r'"([\w:.-]+)"', clauses)
        if eid == CORRUPT_ID:
            seen_corrupt = True
            continue
        e = by_id.get(eid)
        if e is None:
            raise MachineryError('itermisc: trace spec rejected an unknown event id %r' % eid)
        conc = e.get('conc', {})
        for cl in names:
            report(ctx, e['inst'] if e['kind'] != 'pll' else dict(e['inst'], kind='pll'), conc, cl,
                   {'event': e, 'clauses': names, 'stage': 'trace'})
    if not seen_corrupt:
        raise MachineryError('itermisc: the corrupted event was not rejected by Trace_IterMisc')
    ctx.traces += len(events)
    ctx.extra['itermisc_events_validated'] = len(events)
    ek = {}
    for e in events:
        ek[e['kind']] = ek.get(e['kind'], 0) + 1
    ctx.extra['itermisc_events_by_kind'] = ek


def run_stage(ctx):
    import time
    for a in ASSUMPTIONS:
        if a not in ctx.assumptions:
            ctx.assumptions.append(a)
    t0 = time.time()
    out = run_models(ctx)
    t1 = time.time()
    replay_exports(ctx, out)
    t2 = time.time()
    events = run_drivers(ctx)
    t3 = time.time()
    validate_events(ctx, events)
    ctx.extra['itermisc_wall_s'] = {'tlc_models': round(t1 - t0, 1), 'replay': round(t2 - t1, 1),
                                    'drivers': round(t3 - t2, 1), 'trace_validation': round(time.time() - t3, 1)}
    return ctx.extra.get('itermisc_replayed', 0)


def replay(body):
    """./vcheck replay <file>: re-execute the stored case on the current tree."""
    det = body.get('detail', {})
    if 'state' in det and 'conc' in det and det['state']['inst']['kind'] != 'zseq':
        st, conc = det['state'], det['conc']

        class _C(object):
            tier = 'quick'
        if conc.get('zseq') == 'default':
            run_real(st['inst'], 1, conc)      # an earlier call that relied on the default (the history of the finding)
        obs = run_real(st['inst'], st['k'], conc)
        bad = check_obs(_C(), st, st['inst'], st['k'], conc, obs, st['xs'], st['parts'], st['taken'])
        print('instance:', json.dumps(st['inst']))
        print('concretisation:', conc, ' niter =', st['k'])
        print('expected iterates:', [[str(qf(q)) for q in v] for v in st['xs'][1:]])
        print('observed:', obs_json(obs))
        print('failed clauses:', bad)
        return 1 if bad else 0
    print('replay: event-level case - re-run  VERIF_EXT=itermisc ./vcheck EXT  (event id %r)' % det.get('event', {}).get('id'))
    return 0
